"""C12 - lineshape normalisations hold and builder API equals function API.

R-TERM:  Gamma(m0^2) = Gamma0 by substitution; B_L^2(1) = 1; FormFactor = sqrt(B_L^2(q^2 d^2));
         builder expressions == the public lineshape functions under the stated correspondence.
R-SINGLE the fast polynomial path of BlattWeisskopfSquared is derived from the Hankel definition.
"""

from __future__ import annotations

import ast

from ..dataflow import RD
from ..loader import AnalysisError, Tree, unparse, walk_function
from ..poly import RF, D, equal, sqrt, sym
from ..report import Check
from ..terms import DictV, Opaque, TermEval, Tup

PID = "C12"
DYN = "ampform.dynamics"
FF = "ampform.dynamics.form_factor"
BLD = "ampform.dynamics.builder"
I = RF.atom("I")


def builder_env(te: TermEval, phsp=None):
    pool = {
        "incoming_state_mass": sym("M"),
        "outgoing_state_mass1": sym("ma"),
        "outgoing_state_mass2": sym("mb"),
        "helicity_theta": sym("theta"),
        "helicity_phi": sym("phi"),
        "angular_momentum": sym("L"),
    }
    resonance = Opaque(("resonance",))
    self_struct = {"phsp_factor": phsp or Opaque(("ref", "PHSP")), "energy_dependent_width": Opaque(True), "form_factor": Opaque(True)}
    return pool, resonance, self_struct


def check_hankel_series(ctx: Check, tree: Tree) -> None:
    """R-TERM: SphericalHankel1(l, z).evaluate() is the closed series of the spherical Hankel function
    of the first kind,  h_l^(1)(z) = (-i)^(l+1) e^(iz)/z * sum_{k=0}^{l} (l+k)!/((l-k)! k!) (i/(2z))^k
    (Abramowitz-Stegun 10.1.16; the reference is written in the module's own namespace and
    evaluated by the same term extractor).  Both paths of BlattWeisskopfSquared are built from it."""
    import ast as _ast

    D.reset()
    te = TermEval(tree)
    cls = tree.cls(f"{FF}::SphericalHankel1")
    ev = cls.methods.get("evaluate")
    if ev is None:
        raise AnalysisError("vanished anchor: SphericalHankel1.evaluate")
    info = te.apps[te.single_atom(te.construct(cls.qual, [sym("l"), sym("z")], {}))]
    env = te.self_env(cls.qual, info)
    got = te.eval_body(ev.node.body, dict(env), ev)
    # the summation variable of the code (whatever it is called, whatever its assumptions)
    dummies = [st for st in ev.node.body if isinstance(st, _ast.Assign) and isinstance(st.value, _ast.Call) and "Dummy" in unparse(st.value.func)]
    if len(dummies) != 1:
        raise AnalysisError("SphericalHankel1.evaluate: summation variable (sp.Dummy) not found")
    env2 = dict(env)
    env2["k"] = te.ev(dummies[0].value, env, ev)
    env2.update({"l": env.get("l", sym("l")), "z": env.get("z", sym("z"))})
    if "l" not in env or "z" not in env:
        # fields are unpacked from self.args in the body: bind them by name for the reference
        env2["l"], env2["z"] = sym("l"), sym("z")
    spec = "(-sp.I) ** (1 + l) * (sp.exp(z * sp.I) / z) * _SymbolicSum(sp.factorial(l + k) / (sp.factorial(l - k) * sp.factorial(k)) * (sp.I / (2 * z)) ** k, (k, 0, l))"
    want = te.ev(_ast.parse(spec, mode="eval").body, env2, ev)
    ok = isinstance(got, RF) and equal(got, want)
    ctx.verdict(ok, "R-TERM", f"{cls.qual}.evaluate::series", tree.loc(ev.node),
                "SphericalHankel1(l, z) == (-i)^(l+1) e^(iz)/z * sum_{k=0..l} (l+k)!/((l-k)! k!) (i/(2z))^k", None if ok else repr(got)[:300])
    kw = {k.arg: unparse(k.value) for k in dummies[0].value.keywords}
    ok2 = kw.get("integer") == "True" and kw.get("nonnegative") == "True"
    ctx.verdict(ok2, "R-TERM", f"{cls.qual}.evaluate::summation-variable", tree.loc(dummies[0]), "the summation variable is a non-negative integer Dummy (factorial(k) and the finite sum need it)",
                None if ok2 else kw)


def run(ctx: Check, tree: Tree) -> None:
    ctx.decided += [
        "R-STRUCTSUBS: no lineshape is evaluated 'at a point' by structural substitution of a parameter that callers bind to compound expressions",
        "R-TERM (shared with C13): the variable set handed to the builders carries the masses and the L of that decay node (fallbacks only where the transition specifies no L)",
        "EnergyDependentWidth.evaluate at s = mass0^2 normalises to gamma0 for every phase-space factor and L (ff/ff0 and rho/rho0 become identical applications)",
        "SphericalHankel1.evaluate is the closed Hankel series (the defining expression both Blatt-Weisskopf paths are built from)",
        "_formulate_blatt_weisskopf(L, z=1) normalises to 1; FormFactor = sqrt(BlattWeisskopfSquared(q^2(s,m1,m2) * d^2, L))",
        "both branches of BlattWeisskopfSquared.evaluate come from _formulate_blatt_weisskopf (the polynomial cache is derived from it)",
        "RelativisticBreitWignerBuilder: simple BW delegates to relativistic_breit_wigner(s = M^2, ...); form factor x energy-dependent BW == relativistic_breit_wigner_with_ff under (s, mass0, gamma0, m_a, m_b, L, d, phsp) <-> (M^2, res_mass, res_width, m1, m2, L, d, self.phsp_factor); convenience builders have their documented flags",
    ]
    ctx.not_decided += ["z^L threshold behaviour and boundedness (asymptotics)", "equality of values of the symbolic-L and integer-L paths (SymPy simplify/lambdify)"]
    ctx.assumptions += ["SymPy's doit().simplify() and lambdify preserve the value of the Hankel expression"]
    from ..rules import structural_subs_on_params

    hz = structural_subs_on_params(tree, ("ampform.dynamics",))
    for h in hz:
        ctx.violation("R-STRUCTSUBS", f"{h['fn'].qual}::subs::{h['key']}", tree.loc(h["node"]),
                      f"{h['fn'].qual}: `{unparse(h['node'])[:60]}` evaluates the expression 'at {h['key']} = value' by structural substitution, but `{h['key']}` is not always an atomic symbol",
                      {"non_symbol_arguments": h["callers"][:4], "why": "SymPy rewrites e.g. sqrt(q2*d**2) to d*sqrt(q2) for positive d: the pattern no longer occurs and only part of the expression is substituted"})
    if not hz:
        ctx.ok("R-STRUCTSUBS", "src/ampform/dynamics", "no lineshape is evaluated 'at a point' by substituting a parameter that callers may bind to a compound expression")
    D.reset()
    te = TermEval(tree)
    PH = Opaque(("ref", "PHSP"))

    # ---- Gamma(m0^2) = Gamma0
    edw = te.classes[f"{DYN}::EnergyDependentWidth"]
    m0, g0, ma, mb, L, d, s = (sym(n) for n in ("m0", "gamma0", "ma", "mb", "L", "d", "s"))
    at_pole = te.unfold_atom(te.single_atom(te.construct(edw.qual, [m0**2, m0, g0, ma, mb, L, d], {"phsp_factor": PH})))
    ok = isinstance(at_pole, RF) and equal(at_pole, g0)
    where = tree.loc(edw.method("evaluate").node)
    ctx.verdict(ok, "R-TERM", f"{edw.qual}.evaluate::pole-normalisation", where, "EnergyDependentWidth(s = mass0^2) == gamma0 (for any phase-space factor and any L)",
                None if ok else repr(at_pole)[:250])
    generic = te.unfold_atom(te.single_atom(te.construct(edw.qual, [s, m0, g0, ma, mb, L, d], {"phsp_factor": PH})))
    ffq = f"{FF}::FormFactor"
    ff = te.construct(ffq, [s, ma, mb, L, d], {})
    ff0 = te.construct(ffq, [m0**2, ma, mb, L, d], {})
    rho = te.app("call:" + repr(("opaque", ("ref", "PHSP"))), [s, ma, mb])
    rho0 = te.app("call:" + repr(("opaque", ("ref", "PHSP"))), [m0**2, ma, mb])
    want = g0 * (ff / ff0) ** 2 * (rho / rho0)
    ok = isinstance(generic, RF) and equal(generic, want)
    ctx.verdict(ok, "R-TERM", f"{edw.qual}.evaluate::definition", where, "EnergyDependentWidth == gamma0 * (F(s)/F(m0^2))^2 * rho(s)/rho(m0^2) with the caller's phsp_factor",
                None if ok else repr(generic)[:250])

    # ---- Blatt-Weisskopf
    fbw = tree.func(f"{FF}::_formulate_blatt_weisskopf")
    at_one = te._rf(te.eval_function(fbw, [L, RF.const(1)]))
    ok = equal(at_one, RF.const(1))
    ctx.verdict(ok, "R-TERM", f"{fbw.qual}::unit-normalisation", tree.loc(fbw.node), "B_L^2(z = 1) == 1 for symbolic L", None if ok else repr(at_one)[:200])
    z = sym("z")
    gen = te._rf(te.eval_function(fbw, [L, z]))
    h = f"{FF}::SphericalHankel1"
    want = te.app("Abs", [te.construct(h, [L, RF.const(1)], {})]) ** 2 / te.app("Abs", [te.construct(h, [L, sqrt(z)], {})]) ** 2 / z
    ok = equal(gen, want)
    ctx.verdict(ok, "R-TERM", f"{fbw.qual}::definition", tree.loc(fbw.node), "B_L^2(z) == |h_L(1)|^2 / (|h_L(sqrt z)|^2 * z)", None if ok else repr(gen)[:200])
    ffc = te.classes[ffq]
    got = te.unfold_atom(te.single_atom(te.construct(ffq, [s, ma, mb, L, d], {})))
    q2 = te.construct("ampform.dynamics.phasespace::BreakupMomentumSquared", [s, ma, mb], {})
    want = sqrt(te.construct(f"{FF}::BlattWeisskopfSquared", [q2 * d**2, L], {}))
    ok = isinstance(got, RF) and equal(got, want)
    ctx.verdict(ok, "R-TERM", f"{ffq}.evaluate", tree.loc(ffc.method("evaluate").node), "FormFactor(s, m1, m2, L, d) == sqrt(BlattWeisskopfSquared(q^2(s, m1, m2) * d^2, L))", None if ok else repr(got)[:200])
    ctx.section(check_single_source, ctx, tree)

    # ---- builder API == function API
    ctx.section(check_builder, ctx, tree, te)
    ctx.section(check_hankel_series, ctx, tree)
    from .c13 import check_same_decay, check_variable_set

    ctx.section(check_variable_set, ctx, tree)
    ctx.section(check_same_decay, ctx, tree)  # the builder is called for THIS node's variable set (no memo that ignores L)


def check_single_source(ctx: Check, tree: Tree) -> None:
    cls = tree.cls(f"{FF}::BlattWeisskopfSquared")
    ev = cls.methods["evaluate"]
    target = f"{FF}::_formulate_blatt_weisskopf"
    rets = [r for r in walk_function(ev.node) if isinstance(r, ast.Return) and r.value is not None]
    rd = RD(ev.node)
    problems = []
    if len(rets) != 2:
        problems.append(f"{len(rets)} exits (2 expected)")
    for r in rets:
        calls = [c for c in ast.walk(r.value) if isinstance(c, ast.Call)]
        for d in rd.closure(rd.uses(r.value)):
            if d.value is not None:
                calls += [c for c in ast.walk(d.value) if isinstance(c, ast.Call)]
        callees = {tree.callee(c, ev) for c in calls}
        if target in callees:
            continue
        via = [c for c in callees if c in tree.funcs and any(cc == target for _, cc in tree.calls_in(tree.funcs[c]))]
        if not via:
            problems.append(f"`{unparse(r)[:50]}` does not come from _formulate_blatt_weisskopf")
    # the cache function lambdifies the very expression it formulated, in the same variable
    poly = tree.func(f"{FF}::_get_polynomial_blatt_weisskopf")
    prd = RD(poly.node)
    lam = [c for c in walk_function(poly.node) if isinstance(c, ast.Call) and tree.callee(c, poly) == "sympy.lambdify"]
    if len(lam) != 1:
        problems.append("no single sp.lambdify in _get_polynomial_blatt_weisskopf")
    else:
        var, expr = lam[0].args[0], lam[0].args[1]
        deps = prd.closure(prd.uses(expr))
        from_def = [d for d in deps if d.value is not None and any(isinstance(c, ast.Call) and tree.callee(c, poly) == target for c in ast.walk(d.value))]
        if not from_def:
            problems.append("the lambdified expression does not derive from _formulate_blatt_weisskopf")
        else:
            call = next(c for c in ast.walk(from_def[0].value) if isinstance(c, ast.Call) and tree.callee(c, poly) == target)
            if len(call.args) != 2 or unparse(call.args[1]) != unparse(var) or unparse(call.args[0]) != poly.params[0]:
                problems.append(f"formulated with `{unparse(call)}` but lambdified in `{unparse(var)}`")
    branch = [n for n in walk_function(ev.node) if isinstance(n, ast.If)]
    if not (len(branch) == 1 and "free_symbols" in unparse(branch[0].test)):
        problems.append("the fast path is not selected by `L has free symbols`")
    ctx.verdict(not problems, "R-SINGLE", f"{cls.qual}.evaluate::single-source", tree.loc(ev.node),
                "both paths of BlattWeisskopfSquared.evaluate are _formulate_blatt_weisskopf: symbolic L directly, numeric L through the lambdified simplification of the same expression in the same variable", problems or None)


def check_builder(ctx: Check, tree: Tree, te: TermEval) -> None:
    cls = tree.cls(f"{BLD}::RelativisticBreitWignerBuilder")
    pool, resonance, self_struct = builder_env(te)
    M = pool["incoming_state_mass"]

    def call_method(name):
        m = cls.methods[name]
        is_static = any(unparse(dd) == "staticmethod" for dd in m.node.decorator_list)
        args = [resonance, pool] if is_static else [self_struct, resonance, pool]
        return te.eval_function(m, args)

    symbols = te.eval_function(cls.methods["__create_symbols"], [resonance])
    if not (isinstance(symbols, Tup) and len(symbols.items) == 3):
        raise AnalysisError("__create_symbols does not return three symbols")
    res_mass, res_width, radius = symbols.items

    # simple BW
    simple = call_method("__simple_breit_wigner")
    fn_bw = tree.func(f"{DYN}::relativistic_breit_wigner")
    want = te.eval_function(fn_bw, [M**2, res_mass, res_width])
    ok = isinstance(simple, Tup) and equal(te._rf(simple.items[0]), te._rf(want))
    ctx.verdict(ok, "R-TERM", f"{cls.qual}.__simple_breit_wigner::equals-function", tree.loc(cls.methods["__simple_breit_wigner"].node),
                "builder simple BW == relativistic_breit_wigner(s = M^2, mass0 = m_res, gamma0 = Gamma_res)", None if ok else repr(simple)[:200])
    delegated = any(tree.callee(c, cls.methods["__simple_breit_wigner"]) == fn_bw.qual for c in walk_function(cls.methods["__simple_breit_wigner"].node) if isinstance(c, ast.Call))
    ctx.verdict(delegated, "R-TERM", f"{cls.qual}.__simple_breit_wigner::delegates", tree.loc(cls.methods["__simple_breit_wigner"].node), "the simple BW is produced by calling the public function (single definition)")
    # symbols of the simple path == symbols of __create_symbols
    if isinstance(simple, Tup) and isinstance(simple.items[1], DictV):
        keys = {repr(te._rf(k).key()) for k, _ in simple.items[1].items}
        ok = keys == {repr(te._rf(res_mass).key()), repr(te._rf(res_width).key())}
        ctx.verdict(ok, "R-TERM", f"{cls.qual}.__simple_breit_wigner::symbols", tree.loc(cls.methods["__simple_breit_wigner"].node), "simple BW uses the same mass/width symbols as __create_symbols (equal-named parameters are one parameter)")

    # energy dependent x form factor
    edbw = call_method("__energy_dependent_breit_wigner")
    ffv = call_method("__create_form_factor")
    fn_ff = tree.func(f"{DYN}::relativistic_breit_wigner_with_ff")
    want = te.eval_function(fn_ff, [M**2, res_mass, res_width, pool["outgoing_state_mass1"], pool["outgoing_state_mass2"], pool["angular_momentum"], radius, self_struct["phsp_factor"]])
    ok = isinstance(edbw, Tup) and isinstance(ffv, Tup)
    if ok:
        got = te._rf(ffv.items[0]) * te._rf(edbw.items[0])
        ok = equal(got, te._rf(want))
    ctx.verdict(ok, "R-TERM", f"{cls.qual}::ff-times-edbw-equals-function", tree.loc(cls.methods["__energy_dependent_breit_wigner"].node),
                "form factor x energy-dependent BW == relativistic_breit_wigner_with_ff(M^2, m_res, Gamma_res, m1, m2, L, d_res, self.phsp_factor)",
                None if ok else {"builder": repr(edbw)[:200], "function": repr(want)[:200]})
    # the four flag combinations of __call__ against the function API
    ff_app = te.construct(f"{FF}::FormFactor", [M**2, pool["outgoing_state_mass1"], pool["outgoing_state_mass2"], pool["angular_momentum"], radius], {})
    width = te.construct(f"{DYN}::EnergyDependentWidth", [M**2, res_mass, res_width, pool["outgoing_state_mass1"], pool["outgoing_state_mass2"], pool["angular_momentum"], radius], {"phsp_factor": self_struct["phsp_factor"]})
    plain = te._rf(te.eval_function(fn_bw, [M**2, res_mass, res_width]))
    ed = te._rf(res_mass) * te._rf(res_width) / (te._rf(res_mass) ** 2 - M**2 - width * te._rf(res_mass) * I)
    expected = {
        (False, False): plain,
        (False, True): ff_app * plain,
        (True, False): ed,
        (True, True): te._rf(want),
    }
    call_m = cls.methods["__call__"]
    for (edw_flag, ff_flag), want_expr in expected.items():
        struct = {**self_struct, "energy_dependent_width": Opaque(edw_flag), "form_factor": Opaque(ff_flag)}
        got = te.eval_function(call_m, [struct, resonance, pool])
        ok = isinstance(got, Tup) and equal(te._rf(got.items[0]), want_expr)
        ctx.verdict(ok, "R-TERM", f"{cls.qual}.__call__::flags({edw_flag},{ff_flag})", tree.loc(call_m.node),
                    f"builder(energy_dependent_width={edw_flag}, form_factor={ff_flag}) == " + {
                        (False, False): "relativistic_breit_wigner(M^2, m, Gamma)",
                        (False, True): "FormFactor x relativistic_breit_wigner",
                        (True, False): "m Gamma / (m^2 - M^2 - i m Gamma(M^2)) with the builder's phase-space factor",
                        (True, True): "relativistic_breit_wigner_with_ff(..., phsp_factor = the builder's)",
                    }[(edw_flag, ff_flag)],
                    None if ok else repr(got)[:250])
    # (the composition of __call__ is decided by the four flag combinations above - a textual rule on the
    #  spelling of its two `if`s was removed: it fired on `if not flag: ... else: ...`, see DESIGN.md 9.6)
    # convenience builders
    mod = tree.module(BLD)
    expect = {
        "create_relativistic_breit_wigner": ({"form_factor": "False"}, None),
        "create_relativistic_breit_wigner_with_ff": ({"energy_dependent_width": "True", "form_factor": "True"}, "PhaseSpaceFactor"),
        "create_analytic_breit_wigner": ({"energy_dependent_width": "True", "form_factor": "True"}, "EqualMassPhaseSpaceFactor"),
    }
    for name, (flags, phsp) in expect.items():
        st = mod.toplevel.get(name)
        ok = False
        detail = None
        if isinstance(st, ast.Assign) and isinstance(st.value, ast.Attribute) and st.value.attr == "__call__" and isinstance(st.value.value, ast.Call):
            c = st.value.value
            kw = {k.arg: unparse(k.value) for k in c.keywords}
            ok = tree.resolve(mod, c.func) == cls.qual and all(kw.get(k) == v for k, v in flags.items())
            if phsp is not None:
                ok = ok and kw.get("phsp_factor") == phsp
            if name == "create_relativistic_breit_wigner":
                ok = ok and kw.get("energy_dependent_width", "False") == "False"
            detail = kw
        ctx.verdict(ok, "R-TERM", f"{BLD}::{name}::flags", tree.loc(st) if st is not None else BLD, f"{name} = RelativisticBreitWignerBuilder({flags}{', phsp_factor=' + phsp if phsp else ''}).__call__", None if ok else detail)
    # default phase-space factor of the builder
    init = cls.methods["__init__"]
    t = unparse(init.node)
    ok = "if phsp_factor is None:" in t and "phsp_factor = PhaseSpaceFactor" in t and "self.phsp_factor = phsp_factor" in t
    ctx.verdict(ok, "R-TERM", f"{cls.qual}.__init__::default-phsp", tree.loc(init.node), "builder default phase-space factor is PhaseSpaceFactor and the given one is stored")
