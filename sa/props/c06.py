"""C06 - formulate() is a pure function of (reaction, configuration).

R-CACHE   the mutable part of a memoised result is never mutated and never escapes through a
          function that formulate reaches without being copied.  Aliases are followed through
          locals, ``[i]`` / tuple unpacking of a ``tuple[...]`` result (only the mutable components
          alias shared state), wrappers that return the object, and INTO helpers: a parameter is
          whatever the call sites pass (``CallSites`` + ``bind_argument``).
R-EFFECT  the writes reachable from formulate go to fresh objects or to the scratch state
          that is reset first; nothing else of the builder / module survives.  A write to a
          parameter is judged at the call sites on the formulate path (``argument_survives``):
          every one of them must pass an object created during the call (``Freshness``: display,
          comprehension, copy, new instance, result of a package function that returns such an
          object on every path), scratch state, or its own argument for which the same holds.
          An extracted helper therefore behaves like the code it was extracted from, while an
          element of a container, object state or a cached object handed to it is still reported.
          The RECEIVER of a method is such a parameter (``Survival``): a write to ``self.<field>`` happens to
          whatever stands before the dot at the call sites (the builder for the builder's own methods - reported;
          the scratch state / an object created during the call for the methods of those classes), and a local
          name stands for what it was bound to.  The scratch state may also be re-bound to the result of a
          constructor function (``fresh_instance_calls``: every return is a new instance whose fields get new
          containers), and reset() may call the factories that the class body declares.
R-ORDER   no unordered container with hash-seed-sensitive elements reaches an order-
          preserving sink without sorted().
R-CANON   every mapping field of HelicityModel has a converter that returns, on every path, a new
          mapping filled in sorted order of its argument (``converter_result``: locals substituted,
          package helpers that receive the argument are followed).
"""

from __future__ import annotations

import ast
import re

from ..dataflow import MUTATORS, RD, Def
from ..loader import AnalysisError, FuncInfo, Tree, ancestors, unparse, walk_function
from ..report import Check

PID = "C06"
BUILDER = "ampform.helicity::HelicityAmplitudeBuilder"
FORMULATE = f"{BUILDER}.formulate"
MODEL = "ampform.helicity::HelicityModel"
MEMO = {"functools.cache", "functools.lru_cache"}
MUTABLE_ANN = re.compile(r"\b(dict|list|set|defaultdict|OrderedDict|MutableDenseMatrix|Matrix|MutableMapping|bytearray)\b")
COPIERS = {"dict", "list", "set", "tuple", "sorted", "frozenset", "OrderedDict", "copy", "deepcopy"}
CONTAINER_METHOD_NAMES = MUTATORS | {"items", "keys", "values", "get", "copy", "index", "count", "join", "split", "format", "startswith", "endswith", "xreplace", "subs", "doit", "evaluate"}


# --------------------------------------------------------------------------- helpers


def memoised_functions(tree: Tree) -> list[FuncInfo]:
    out = []
    for q, f in tree.funcs.items():
        if not q.startswith("ampform"):
            continue
        for d in f.node.decorator_list:
            target = d.func if isinstance(d, ast.Call) else d
            if tree.resolve(f.module, target, f) in MEMO:
                out.append(f)
    return out


def mutable_result(fn: FuncInfo) -> str | None:
    ann = unparse(fn.node.returns) if fn.node.returns is not None else ""
    if MUTABLE_ANN.search(ann):
        return ann
    for node in walk_function(fn.node, nested=False):
        if isinstance(node, ast.Return) and isinstance(node.value, (ast.Dict, ast.List, ast.Set, ast.DictComp, ast.ListComp, ast.SetComp)):
            return f"returns {type(node.value).__name__}"
    return None


def tuple_components(fn: FuncInfo) -> list[str] | None:
    """Component annotations of a ``tuple[A, B, ...]`` return annotation."""
    ann = fn.node.returns
    if isinstance(ann, ast.Subscript) and unparse(ann.value) in {"tuple", "Tuple"} and isinstance(ann.slice, ast.Tuple):
        return [unparse(e) for e in ann.slice.elts]
    return None


def cha_targets(tree: Tree, call: ast.Call, fn: FuncInfo) -> list[FuncInfo]:
    """Resolved callee, or - for an unresolvable ``x.method(...)`` - every repo method of
    that name (class-hierarchy approximation; container method names excluded)."""
    callee = tree.callee(call, fn)
    if callee in tree.funcs:
        out = [tree.funcs[callee]]
        f = out[0]
        if f.cls is not None:
            out += [sub.methods[f.name] for sub in tree.subclasses(f.cls) if f.name in sub.methods]
        return out
    unresolved = callee is None or (callee.startswith("ampform") and callee not in tree.classes)
    if unresolved and isinstance(call.func, ast.Attribute) and call.func.attr not in CONTAINER_METHOD_NAMES:
        return [f for q, f in tree.funcs.items() if q.startswith("ampform") and f.cls is not None and f.outer is None and f.name == call.func.attr]
    return []


def reach_from(tree: Tree, start: str) -> dict[str, FuncInfo]:
    seen: dict[str, FuncInfo] = {}
    todo = [tree.func(start)]
    while todo:
        f = todo.pop()
        if f.qual in seen:
            continue
        seen[f.qual] = f
        for call, callee in tree.calls_in(f, nested=True):
            for tgt in cha_targets(tree, call, tree.func_of(call) or f):
                if tgt.qual.startswith("ampform"):
                    todo.append(tgt)
            if callee in tree.classes:
                for name in ("__init__", "__new__", "__attrs_post_init__"):
                    m = tree.lookup_method(tree.classes[callee], name)
                    if m is not None:
                        todo.append(m)
                # attrs converters / validators / factories named in the class body run on construction
                for st in tree.classes[callee].node.body:
                    if isinstance(st, ast.AnnAssign) and isinstance(st.value, ast.Call):
                        for k in st.value.keywords:
                            if k.arg in {"converter", "factory", "validator"}:
                                tgt = tree.resolve(tree.classes[callee].module, k.value)
                                if tgt in tree.funcs:
                                    todo.append(tree.funcs[tgt])
            # subscription / call of a repo mapping object: self.dynamics[decay] -> __getitem__
        for node in walk_function(f.node, nested=True):
            if isinstance(node, ast.Subscript) and isinstance(node.ctx, ast.Load):
                base = tree.resolve(f.module, node.value, tree.func_of(node) or f)
                cls_q = tree._declared_type(base) if base else None
                if cls_q:
                    m = tree.lookup_method(tree.classes[cls_q], "__getitem__")
                    if m is not None:
                        todo.append(m)
        for inner in tree.funcs.values():
            if inner.outer is f:
                todo.append(inner)
    return seen


# --------------------------------------------------------------------------- call sites / freshness


def bind_argument(tree: Tree, call: ast.Call, g: FuncInfo, param: str) -> tuple[str, ast.AST | None]:
    """The expression a call site passes for parameter ``param`` of ``g``:
    ("expr", node) | ("default", None) - not passed, the default applies | ("unknown", None) - hidden
    behind ``*args`` / ``**kwargs``."""
    a = g.node.args
    positional = [x.arg for x in [*a.posonlyargs, *a.args]]
    is_static = any(unparse(d).split(".")[-1] == "staticmethod" for d in g.node.decorator_list)
    is_clsm = any(unparse(d).split(".")[-1] == "classmethod" for d in g.node.decorator_list)
    if g.cls is not None and not is_static and positional:
        bound = True
        if isinstance(call.func, ast.Attribute) and not is_clsm:
            recv = tree.resolve(call._module, call.func.value, tree.func_of(call))  # type: ignore[attr-defined]
            if recv in tree.classes:
                bound = False  # Class.method(obj, ...): the receiver is the first positional argument
        if g.name in {"__init__", "__new__", "__attrs_post_init__"} or bound:
            positional = positional[1:]
    for k in call.keywords:
        if k.arg == param:
            return "expr", k.value
    for i, arg in enumerate(call.args):
        if isinstance(arg, ast.Starred):
            return "unknown", None
        if i < len(positional) and positional[i] == param:
            return "expr", arg
    if a.vararg is not None and a.vararg.arg == param:
        return "unknown", None
    if any(k.arg is None for k in call.keywords):
        return "unknown", None
    return "default", None


class CallSites:
    """Who calls a function (resolved callee, overriding methods, or - for an unresolvable
    ``x.method()`` - every method of that name: the same approximation as the reach)."""

    def __init__(self, tree: Tree, scope: dict[str, FuncInfo]) -> None:
        self.sites: dict[str, list[tuple[FuncInfo, ast.Call]]] = {}
        seen: set[int] = set()
        for q, f in sorted(scope.items()):
            if not q.startswith("ampform"):
                continue
            for call, _ in tree.calls_in(f, nested=True):
                if id(call) in seen:
                    continue
                seen.add(id(call))
                owner = tree.func_of(call) or f
                for tgt in cha_targets(tree, call, owner):
                    self.sites.setdefault(tgt.qual, []).append((owner, call))
                callee = tree.callee(call, owner)
                if callee in tree.classes:
                    for name in ("__init__", "__new__", "__attrs_post_init__"):
                        m = tree.lookup_method(tree.classes[callee], name)
                        if m is not None:
                            self.sites.setdefault(m.qual, []).append((owner, call))

    def of(self, g: FuncInfo) -> list[tuple[FuncInfo, ast.Call]]:
        return self.sites.get(g.qual, [])


FRESH_BUILDERS = {"dict", "list", "set", "sorted", "OrderedDict", "defaultdict", "deepcopy", "copy", "bytearray", "deque", "Counter"}


class Freshness:
    """Does an expression evaluate to an object that was created during the current call (a
    display, a comprehension, a copy, a new instance, or the result of a package function that
    returns such an object on every path)?  A write to such an object cannot outlive formulate()
    unless the object itself is stored somewhere, which is a write of its own.  Everything that is
    not provably new - a parameter, an element of a container, an attribute, the result of a
    memoised or unknown function - is NOT fresh."""

    def __init__(self, tree: Tree) -> None:
        self.tree = tree
        self.memo = {f.qual for f in memoised_functions(tree)}
        self._rd: dict[str, RD] = {}
        self._ret: dict[str, bool | None] = {}

    def rd(self, fn: FuncInfo) -> RD:
        top = fn
        while top.outer is not None:
            top = top.outer
        if top.qual not in self._rd:
            self._rd[top.qual] = RD(top.node)
        return self._rd[top.qual]

    def fresh(self, expr: ast.AST, fn: FuncInfo, depth: int = 0, busy: set[int] | None = None) -> bool:
        if depth > 20:
            return False
        busy = busy if busy is not None else set()
        if isinstance(expr, (ast.Dict, ast.List, ast.Set, ast.DictComp, ast.ListComp, ast.SetComp, ast.GeneratorExp)):
            return True
        if isinstance(expr, ast.IfExp):
            return self.fresh(expr.body, fn, depth + 1, busy) and self.fresh(expr.orelse, fn, depth + 1, busy)
        if isinstance(expr, ast.NamedExpr):
            return self.fresh(expr.value, fn, depth + 1, busy)
        if isinstance(expr, ast.Call):
            f = expr.func
            name = f.id if isinstance(f, ast.Name) else f.attr if isinstance(f, ast.Attribute) else None
            callee = self.tree.callee(expr, fn)
            if callee in self.tree.classes:
                return True
            targets = cha_targets(self.tree, expr, fn)
            if targets:
                return all(self.returns_fresh(g, depth + 1) for g in targets)
            if name in FRESH_BUILDERS and (callee is None or "::" not in callee):
                return True
            return False
        if isinstance(expr, ast.Name) and isinstance(expr.ctx, ast.Load):
            defs = self.rd(fn).reaching(expr)
            return bool(defs) and all(self.def_fresh(d, fn, depth + 1, busy) for d in defs)
        return False

    def def_fresh(self, d: Def, fn: FuncInfo, depth: int, busy: set[int]) -> bool:
        if id(d) in busy:
            return True  # a cycle of in-place updates adds no new origin
        owner = self.tree.func_of(d.node) or fn
        if d.kind in {"assign", "with"} and d.value is not None and d.index is None and not isinstance(d.node, ast.AugAssign):
            return self.fresh(d.value, owner, depth, busy)
        if d.kind in {"store", "aug"}:
            # an object that is updated in place stays the object it was
            before = [dep for dep in d.deps if dep.name == d.name and dep is not d]
            return bool(before) and all(self.def_fresh(dep, fn, depth + 1, busy | {id(d)}) for dep in before)
        return False

    def returns_fresh(self, g: FuncInfo, depth: int = 0) -> bool:
        if g.qual in self._ret:
            return bool(self._ret[g.qual])  # None = in progress (recursion): not proven
        if g.qual in self.memo or any(isinstance(n, (ast.Yield, ast.YieldFrom)) for n in walk_function(g.node, nested=False)):
            self._ret[g.qual] = False
            return False
        self._ret[g.qual] = None
        returns = [n for n in walk_function(g.node, nested=False) if isinstance(n, ast.Return) and n.value is not None and not (isinstance(n.value, ast.Constant) and n.value.value is None)]
        if not returns:
            # an abstract method hands out nothing: its overriding methods are judged on their own
            ok = _is_abstract(g)
        else:
            ok = all(self.fresh(r.value, g, depth + 1) for r in returns)
        self._ret[g.qual] = ok
        return ok


def _is_abstract(g: FuncInfo) -> bool:
    if any(unparse(d).split(".")[-1] == "abstractmethod" for d in g.node.decorator_list):
        return True
    body = [s for s in g.node.body if not (isinstance(s, ast.Expr) and isinstance(s.value, ast.Constant))]
    return all(isinstance(s, ast.Pass) or (isinstance(s, ast.Raise) and "NotImplementedError" in unparse(s)) for s in body)


# --------------------------------------------------------------------------- R-CACHE


class AliasFlow:
    def __init__(self, tree: Tree, sources: dict[str, str]) -> None:
        self.tree = tree
        self.shared: dict[str, str] = dict(sources)  # qual -> origin description
        self._rd: dict[str, RD] = {}
        self._sites: CallSites | None = None
        self._param_memo: dict[tuple[str, str], str | None] = {}
        self._param_busy: set[tuple[str, str]] = set()

    def rd(self, fn: FuncInfo) -> RD:
        top = fn
        while top.outer is not None:
            top = top.outer
        if top.qual not in self._rd:
            self._rd[top.qual] = RD(top.node)
        return self._rd[top.qual]

    def origin(self, expr: ast.AST, fn: FuncInfo, depth: int = 0) -> str | None:
        """If ``expr`` may alias (the mutable part of) a shared object: its origin."""
        if depth > 12:
            return None
        if isinstance(expr, ast.Call):
            f = expr.func
            name = f.id if isinstance(f, ast.Name) else f.attr if isinstance(f, ast.Attribute) else None
            if name in COPIERS:
                return None
            for tgt in cha_targets(self.tree, expr, fn):
                if tgt.qual in self.shared:
                    return self.shared[tgt.qual]
            if isinstance(f, ast.Attribute) and f.attr in {"setdefault", "get", "pop"}:
                return self.origin(f.value, fn, depth + 1)
            return None
        if isinstance(expr, ast.Subscript):
            inner = self.origin(expr.value, fn, depth + 1)
            if inner and isinstance(expr.slice, ast.Constant) and isinstance(expr.slice.value, int) and self.immutable_component(expr.value, expr.slice.value, fn):
                return None
            return inner
        if isinstance(expr, ast.Starred):
            return self.origin(expr.value, fn, depth + 1)
        if isinstance(expr, ast.IfExp):
            return self.origin(expr.body, fn, depth + 1) or self.origin(expr.orelse, fn, depth + 1)
        if isinstance(expr, ast.Name) and isinstance(expr.ctx, (ast.Load, ast.Del, ast.Store)):
            rd = self.rd(fn)
            for d in rd.reaching(expr) if isinstance(expr.ctx, ast.Load) else ():
                o = self._def_origin(d, fn, depth + 1)
                if o:
                    return o
        return None

    def immutable_component(self, value: ast.AST, index: int, fn: FuncInfo) -> bool:
        """``value`` is (a local name for) the ``tuple[A, B, ...]`` result of a call: is component
        ``index`` - selected by ``[index]`` or by tuple unpacking - one of the immutable ones?  Only the
        mutable components of a shared tuple alias shared state."""
        if isinstance(value, ast.Name) and isinstance(value.ctx, ast.Load):
            defs = self.rd(fn).reaching(value)
            if len(defs) != 1:
                return False
            d = next(iter(defs))
            if d.kind != "assign" or d.value is None or d.index is not None or isinstance(d.node, ast.AugAssign):
                return False
            value = d.value
        if not isinstance(value, ast.Call):
            return False
        targets = cha_targets(self.tree, value, fn)
        if not targets:
            return False
        for tgt in targets:
            comps = tuple_components(tgt)
            if comps is None or not 0 <= index < len(comps) or MUTABLE_ANN.search(comps[index]):
                return False
        return True

    def _def_origin(self, d: Def, fn: FuncInfo, depth: int) -> str | None:
        if depth > 12:
            return None
        if d.kind in {"assign", "with"} and d.value is not None:
            o = self.origin(d.value, fn, depth)
            if o and d.index is not None and d.kind == "assign" and self._flat_unpacking(d) and self.immutable_component(d.value, d.index, fn):
                return None  # ``a, _ = cached()``: a is the immutable component
            return o
        if d.kind == "param" and d.name not in {"self", "cls"}:
            # the parameter of a helper is whatever its callers pass (a helper extracted from a
            # function that mutates a shared object mutates the same object)
            return self._param_origin(d, fn, depth)
        if d.kind == "store":
            # a mutated alias stays an alias of what it was before
            for dep in d.deps:
                if dep.name == d.name and dep is not d:
                    o = self._def_origin(dep, fn, depth + 1)
                    if o:
                        return o
        return None

    def _param_origin(self, d: Def, fn: FuncInfo, depth: int) -> str | None:
        owner = self.tree.func_of(d.node) or fn
        key = (owner.qual, d.name)
        if key in self._param_memo:
            return self._param_memo[key]
        if key in self._param_busy or depth > 10:
            return None
        if self._sites is None:
            self._sites = CallSites(self.tree, {q: f for q, f in self.tree.funcs.items() if q.startswith("ampform")})
        self._param_busy.add(key)
        found = None
        for caller, call in self._sites.of(owner):
            how, arg = bind_argument(self.tree, call, owner, d.name)
            if how == "expr" and arg is not None:
                o = self.origin(arg, caller, depth + 1)
                if o:
                    found = f"{o} -> passed to {owner.qual}({d.name})"
                    break
        self._param_busy.discard(key)
        if found is not None or depth <= 1:
            self._param_memo[key] = found
        return found

    @staticmethod
    def _flat_unpacking(d: Def) -> bool:
        """Was ``d`` created by ``a, b, ... = value`` with plain names only (so that ``d.index`` is
        the position in ``value``; no starred or nested targets)?"""
        if not isinstance(d.node, ast.Assign):
            return False
        return all(isinstance(t, (ast.Tuple, ast.List)) and all(isinstance(e, ast.Name) for e in t.elts) for t in d.node.targets)

    def fixpoint(self) -> None:
        changed = True
        rounds = 0
        while changed and rounds < 6:
            changed = False
            rounds += 1
            self._param_memo.clear()  # what callers pass depends on the shared set of this round
            for q, fn in self.tree.funcs.items():
                if not q.startswith("ampform") or q in self.shared:
                    continue
                for node in walk_function(fn.node, nested=False):
                    if isinstance(node, ast.Return) and node.value is not None:
                        values = node.value.elts if isinstance(node.value, ast.Tuple) else [node.value]
                        for v in values:
                            o = self.origin(v, fn)
                            if o:
                                self.shared[q] = f"{o} -> returned uncopied by {q}"
                                changed = True
                                break

    def mutations(self) -> list[tuple[FuncInfo, ast.AST, str]]:
        out = []
        self._param_memo.clear()
        for q, fn in self.tree.funcs.items():
            if not q.startswith("ampform"):
                continue
            top = fn
            for node in walk_function(fn.node, nested=False):
                target = None
                if isinstance(node, (ast.Assign, ast.AugAssign, ast.AnnAssign)):
                    tgts = node.targets if isinstance(node, ast.Assign) else [node.target]
                    for t in tgts:
                        if isinstance(t, (ast.Subscript, ast.Attribute)) and not (isinstance(t, ast.Attribute) and isinstance(t.value, ast.Name) and t.value.id in {"self", "cls"}):
                            target = t.value
                        if isinstance(node, ast.AugAssign) and isinstance(t, ast.Name) and isinstance(node.op, (ast.BitOr, ast.Add, ast.BitAnd, ast.Sub)):
                            load = ast.Name(id=t.id, ctx=ast.Load())
                            ast.copy_location(load, t)
                            # reaching defs of the name before the statement
                            rd = self.rd(fn)
                            defs = rd._reach.get(id(t), set())
                            for d in defs:
                                o = self._def_origin(d, fn, 0)
                                if o:
                                    out.append((fn, node, o))
                elif isinstance(node, ast.Delete):
                    for t in node.targets:
                        if isinstance(t, ast.Subscript):
                            target = t.value
                elif isinstance(node, ast.Call) and isinstance(node.func, ast.Attribute) and node.func.attr in MUTATORS:
                    target = node.func.value
                if target is not None:
                    o = self.origin(target, fn)
                    if o:
                        out.append((fn, node, o))
        return out


def check_cache(ctx: Check, tree: Tree, reach: dict[str, FuncInfo]) -> None:
    memo = memoised_functions(tree)
    ctx.stats["memoised_functions"] = len(memo)
    if len(memo) < 10:
        raise AnalysisError(f"only {len(memo)} memoised functions found (14 confirmed)")
    sources = {}
    for f in memo:
        why = mutable_result(f)
        if why:
            sources[f.qual] = f"memoised {f.qual} -> {why}"
        else:
            ctx.ok("R-CACHE", tree.loc(f.node), f"{f.qual}: memoised result is immutable ({unparse(f.node.returns) if f.node.returns else 'no annotation'})")
    flow = AliasFlow(tree, sources)
    flow.fixpoint()
    muts = flow.mutations()
    mutated_origins = set()
    for fn, node, origin in muts:
        root = origin.split(" -> ")[0]
        mutated_origins.add(root)
        # mutation inside the memoised function itself before returning is construction, not sharing
        if fn.qual in sources:
            continue
        in_reach = fn.qual in reach
        key = f"{fn.qual}::{unparse(node)[:70]}::mutates-cached"
        what = f"{fn.qual}: `{unparse(node)[:70]}` mutates an object that aliases a memoised result ({origin})"
        if in_reach:
            ctx.violation("R-CACHE", key, tree.loc(node), what,
                          "the object lives in a process-global functools cache: the next formulate() - of this or any other builder with the same reaction - sees the mutation (model depends on history)")
        else:
            ctx.advisory("R-CACHE", tree.loc(node), what + " (not reachable from HelicityAmplitudeBuilder.formulate)")
    for q, origin in sorted(flow.shared.items()):
        f = tree.funcs[q]
        if q in sources:
            root = sources[q]
            if root in mutated_origins:
                continue
            used = any(q in o for _, _, o in muts)
            if not used:
                public_escape = [e for e, o in flow.shared.items() if e != q and q in o and not tree.funcs[e].name.startswith("_")]
                if public_escape:
                    in_reach = [e for e in public_escape if e in reach]
                    txt = f"{q}: mutable memoised result handed out uncopied by {public_escape}"
                    if in_reach:
                        ctx.violation("R-CACHE", f"{q}::escapes::{in_reach[0]}", tree.loc(f.node), txt + " on the formulate path")
                    else:
                        ctx.advisory("R-CACHE", tree.loc(f.node), txt + " (outside formulate; see C10)")
                else:
                    ctx.ok("R-CACHE", tree.loc(f.node), f"{q}: mutable memoised result ({origin.split(' -> ')[-1]}) is neither mutated nor handed out by public API")


# --------------------------------------------------------------------------- R-EFFECT


def _new_container(v: ast.AST | None) -> bool:
    return isinstance(v, (ast.Dict, ast.List, ast.Set)) or (isinstance(v, ast.Call) and unparse(v.func) in {"dict", "list", "set", "OrderedDict", "collections.OrderedDict"})


def _setattr_on_self(st: ast.stmt) -> tuple[ast.AST, ast.AST] | None:
    """``setattr(self, <name>, <value>)`` as a statement -> (name expression, value)."""
    if isinstance(st, ast.Expr) and isinstance(st.value, ast.Call) and isinstance(st.value.func, ast.Name) and st.value.func.id == "setattr":
        c = st.value
        if len(c.args) == 3 and not c.keywords and isinstance(c.args[0], ast.Name) and c.args[0].id == "self":
            return c.args[1], c.args[2]
    return None


def reset_fresh_fields(tree: Tree, reset: FuncInfo, fields: list[str]) -> dict[str, bool]:
    """field -> is it bound to a container created by the statement itself.  Understood spellings:
    ``self.f = {}``, ``setattr(self, "f", {})``, and an unconditional ``setattr(self, a.name, {})`` /
    ``setattr(self, n, {})`` in the body of a loop over ``attrs.fields(type(self))`` (every field of the
    class) / over a display of field names; the value expression is evaluated once per field."""
    fresh: dict[str, bool] = {}
    for st in walk_function(reset.node):
        if isinstance(st, ast.Assign) and isinstance(st.targets[0], ast.Attribute) and unparse(st.targets[0].value) == "self":
            fresh[st.targets[0].attr] = _new_container(st.value)
        elif isinstance(st, ast.Expr):
            sa_ = _setattr_on_self(st)
            if sa_ is not None and isinstance(sa_[0], ast.Constant) and isinstance(sa_[0].value, str):
                fresh[sa_[0].value] = _new_container(sa_[1])
        elif isinstance(st, ast.For) and isinstance(st.target, ast.Name) and not st.orelse and st in reset.node.body:
            names, via_name_attr = None, False
            it = st.iter
            if isinstance(it, (ast.Tuple, ast.List)) and all(isinstance(e, ast.Constant) and isinstance(e.value, str) for e in it.elts):
                names = [e.value for e in it.elts]
            elif isinstance(it, ast.Call) and len(it.args) == 1 and not it.keywords and tree.resolve(reset.module, it.func, reset) in {"attrs.fields", "attr.fields"}:
                a = it.args[0]
                own = unparse(a) in {"type(self)", "self.__class__"} or (reset.cls is not None and tree.resolve(reset.module, a, reset) == reset.cls.qual)
                if own:
                    names, via_name_attr = list(fields), True
            if names is None:
                continue
            if any(isinstance(n, (ast.Break, ast.Continue, ast.Return)) for b in st.body for n in ast.walk(b)):
                continue  # the loop may stop early or skip a field
            if any(isinstance(n, ast.Name) and n.id == st.target.id and not isinstance(n.ctx, ast.Load) for b in st.body for n in ast.walk(b)):
                continue  # the loop variable is re-bound in the body
            for b in st.body:
                sa_ = _setattr_on_self(b)
                if sa_ is None:
                    continue
                key = sa_[0]
                if via_name_attr:
                    ok = isinstance(key, ast.Attribute) and key.attr == "name" and isinstance(key.value, ast.Name) and key.value.id == st.target.id
                else:
                    ok = isinstance(key, ast.Name) and key.id == st.target.id
                if ok:
                    for n in names:
                        fresh[n] = _new_container(sa_[1]) or (via_name_attr and _calls_own_factory(reset, sa_[1], st.target.id, n))
    return fresh


def _calls_own_factory(reset: FuncInfo, value: ast.AST, loop_var: str, field_name: str) -> bool:
    """``<attribute>.default.factory()`` in a loop over the attrs fields of the class: the call of the factory that the class
    body declares for this field (``field(factory=dict)`` / ``attrs.Factory(dict)`` as default).  True if that factory is a
    constructor of a builtin container (a new, empty one per call); False if the field declares no factory (the expression
    fails) ; a factory that is not read raises AnalysisError."""
    if not (isinstance(value, ast.Call) and not value.args and not value.keywords):
        return False
    f = value.func
    if not (isinstance(f, ast.Attribute) and f.attr == "factory" and isinstance(f.value, ast.Attribute) and f.value.attr == "default"
            and isinstance(f.value.value, ast.Name) and f.value.value.id == loop_var):
        return False
    if reset.cls is None:
        return False
    decl = next((st for st in reset.cls.node.body if isinstance(st, ast.AnnAssign) and isinstance(st.target, ast.Name) and st.target.id == field_name), None)
    if decl is None or not isinstance(decl.value, ast.Call):
        return False
    factory = next((k.value for k in decl.value.keywords if k.arg == "factory"), None)
    if factory is None:
        default = next((k.value for k in decl.value.keywords if k.arg == "default"), None)
        if isinstance(default, ast.Call) and unparse(default.func).split(".")[-1] == "Factory" and len(default.args) == 1 and not default.keywords:
            factory = default.args[0]
    if factory is None:
        return False
    if isinstance(factory, (ast.Name, ast.Attribute)):
        if unparse(factory) in {"dict", "list", "set", "OrderedDict", "collections.OrderedDict"}:
            return True
    if isinstance(factory, ast.Lambda) and not [*factory.args.args, *factory.args.posonlyargs, *factory.args.kwonlyargs] and factory.args.vararg is None and factory.args.kwarg is None:
        if _new_container(factory.body):
            return True
        if isinstance(factory.body, (ast.Name, ast.Attribute, ast.Constant)):
            return False  # hands out an object that exists already
    raise AnalysisError(f"R-EFFECT: {reset.qual} calls the declared factory of field `{field_name}` (`{unparse(factory)[:40]}`): cannot decide whether it returns a new container")


def fresh_instance_calls(tree: Tree, freshness: "Freshness", cls, e: ast.AST, fn: FuncInfo, depth: int = 0) -> list[tuple[ast.Call, FuncInfo]] | None:
    """``e`` (evaluated in ``fn``) is a NEW instance of ``cls`` on every path: the constructor calls that build it, else None.
    Understood: ``Cls(...)``; ``cls(...)`` inside a classmethod of the class; a call of a function / staticmethod / classmethod
    of the package (not memoised, no generator) every ``return`` of which hands back such an instance (also through a local)."""
    if depth > 6 or not isinstance(e, ast.Call):
        return None
    target = tree.resolve(fn.module, e.func, fn)
    if target == cls.qual:
        return [(e, fn)]
    if isinstance(e.func, ast.Name) and e.func.id == "cls" and fn.cls is not None and fn.outer is None and fn.params[:1] == ["cls"] \
            and any(unparse(d).split(".")[-1] == "classmethod" for d in fn.node.decorator_list) and (fn.cls.qual == cls.qual or fn.cls in tree.mro(cls)):
        return [(e, fn)]
    g = tree.funcs.get(target or "")
    if g is None or g.qual in freshness.memo or any(isinstance(n, (ast.Yield, ast.YieldFrom)) for n in walk_function(g.node, nested=False)):
        return None
    if g.cls is not None and (any(sub.methods.get(g.name) not in {None, g} for sub in tree.subclasses(g.cls))):
        return None  # an overriding method may be the one that runs
    returns = [n for n in walk_function(g.node, nested=False) if isinstance(n, ast.Return)]
    if not returns:
        return None
    out: list[tuple[ast.Call, FuncInfo]] = []
    rd = freshness.rd(g)
    for r in returns:
        values = [r.value]
        if isinstance(r.value, ast.Name):
            defs = rd.reaching(r.value)
            if not defs or any(d.kind != "assign" or d.value is None or d.index is not None or isinstance(d.node, ast.AugAssign) for d in defs):
                return None  # (a local that is updated after its creation is a `store` definition: not read here)
            values = [d.value for d in defs]
        for v in values:
            found = fresh_instance_calls(tree, freshness, cls, v, g, depth + 1) if v is not None else None
            if found is None:
                return None
            out += found
    return out


def constructor_arguments(tree: Tree, cls, fields: list[str], call: ast.Call, owner: FuncInfo) -> dict[str, ast.AST]:
    """field -> the expression that ``Cls(...)`` passes for it (generated constructor of an attrs class / dataclass / NamedTuple:
    the annotated fields in order of declaration, by position or by name)."""
    if not call.args and not call.keywords:
        return {}
    if any(tree.lookup_method(cls, name) is not None for name in ("__init__", "__new__")):
        raise AnalysisError(f"R-EFFECT: {cls.qual} has a hand-written constructor: what `{unparse(call)[:50]}` stores in its fields is not read")
    if any(isinstance(a, ast.Starred) for a in call.args) or any(k.arg is None for k in call.keywords):
        raise AnalysisError(f"R-EFFECT: `{unparse(call)[:50]}` in {owner.qual} passes */** arguments: what the fields receive is not read")
    init_fields = []
    for st in cls.node.body:
        if isinstance(st, ast.AnnAssign) and isinstance(st.target, ast.Name):
            no_init = isinstance(st.value, ast.Call) and any(k.arg == "init" and isinstance(k.value, ast.Constant) and k.value.value is False for k in st.value.keywords)
            if not no_init:
                init_fields.append(st.target.id)
    if len(call.args) > len(init_fields):
        raise AnalysisError(f"R-EFFECT: `{unparse(call)[:50]}` passes more arguments than {cls.qual} has fields")
    out: dict[str, ast.AST] = dict(zip(init_fields, call.args))
    for k in call.keywords:
        name = k.arg.lstrip("_") if k.arg not in init_fields else k.arg  # attrs strips the leading underscore of private fields
        match = [f for f in init_fields if f == k.arg or f.lstrip("_") == name]
        if len(match) != 1:
            raise AnalysisError(f"R-EFFECT: `{unparse(call)[:50]}`: keyword `{k.arg}` is not a field of {cls.qual}")
        out[match[0]] = k.value
    return out


def _names_existing_object(tree: Tree, freshness: "Freshness", name: ast.Name, fn: FuncInfo) -> bool:
    """The name is a parameter of the function, or a module-level object (positive evidence for an object that was not created
    by this statement)."""
    defs = freshness.rd(fn).reaching(name) if isinstance(name.ctx, ast.Load) else set()
    if defs:
        return all(d.kind == "param" for d in defs)
    target = tree.resolve(fn.module, name, fn)
    return bool(target) and name.id in fn.module.toplevel and not isinstance(fn.module.toplevel[name.id], (ast.FunctionDef, ast.ClassDef))


def check_effects(ctx: Check, tree: Tree, reach: dict[str, FuncInfo]) -> None:
    formulate = tree.func(FORMULATE)
    # 1. scratch state is reset first
    # The scratch attribute is the one that __init__ binds to an instance of the ingredients class.  It must be
    # re-initialised before formulate() touches anything else: either `self.X.reset()` (and reset re-creates every
    # field) or a re-binding `self.X = <IngredientsClass>()` (also through a local), whose fields are per-instance
    # factories.  Three-valued: a use of the scratch state before / without re-initialisation is a violation; a
    # first statement that is neither is "cannot decide".
    ing = tree.cls("ampform.helicity::_HelicityModelIngredients")
    fields = [st.target.id for st in ing.node.body if isinstance(st, ast.AnnAssign) and isinstance(st.target, ast.Name)]
    body = [s for s in formulate.node.body if not (isinstance(s, ast.Expr) and isinstance(s.value, ast.Constant))]
    frd = RD(formulate.node)

    freshness = Freshness(tree)
    constructions: list[tuple[ast.Call, FuncInfo]] = []  # the `_HelicityModelIngredients(...)` calls that build the fresh instance

    def is_fresh_instance(e) -> bool:
        if isinstance(e, ast.Name):
            defs = list(frd.reaching(e))
            return bool(defs) and all(d.value is not None and d.index is None and is_fresh_instance(d.value) for d in defs)
        found = fresh_instance_calls(tree, freshness, ing, e, formulate)
        if found is None:
            return False
        constructions.extend(c for c in found if all(c[0] is not k[0] for k in constructions))
        return True

    scratch, how, first = None, None, (body[0] if body else None)
    for st in body:
        if isinstance(st, ast.Expr) and isinstance(st.value, ast.Call) and isinstance(st.value.func, ast.Attribute) and st.value.func.attr == "reset" and unparse(st.value.func.value).startswith("self."):
            scratch, how = unparse(st.value.func.value), "reset"
            break
        if isinstance(st, ast.Assign) and len(st.targets) == 1 and isinstance(st.targets[0], ast.Attribute) and unparse(st.targets[0]).startswith("self.") and is_fresh_instance(st.value):
            scratch, how = unparse(st.targets[0]), "fresh"
            break
        if isinstance(st, ast.Assign) and len(st.targets) == 1 and isinstance(st.targets[0], ast.Name) and is_fresh_instance(st.value):
            continue  # `ingredients = _HelicityModelIngredients()`: creating the fresh object uses nothing
        break  # any other statement comes before the re-initialisation
    uses_self = any(isinstance(n, ast.Attribute) and isinstance(n.value, ast.Name) and n.value.id == "self" and "ingredients" in n.attr for st in body for n in ast.walk(st))
    if scratch is None and not uses_self:
        raise AnalysisError(f"{FORMULATE}: no use of a scratch attribute found - the shape of formulate() is not understood")
    ctx.verdict(scratch is not None, "R-EFFECT", f"{FORMULATE}::reset-first", tree.loc(formulate.node),
                f"formulate starts with `{unparse(first)[:50] if first is not None else ''}` (scratch state re-initialised before anything else: {how})",
                None if scratch else "the per-builder scratch state is not reset before it is used: the previous formulate() leaks into this one")
    scratch = scratch or "self.__ingredients"
    scratch_attr = scratch.split(".")[-1]
    # 2. the re-initialisation re-creates every field
    if how == "fresh":
        shared = []
        for call, owner in constructions:
            passed = constructor_arguments(tree, ing, fields, call, owner)
            for st in ing.node.body:
                if isinstance(st, ast.AnnAssign) and isinstance(st.target, ast.Name) and st.target.id not in shared:
                    if st.target.id in passed:
                        # the constructor call hands the field its value: a container created by the call itself, or an object that exists already
                        arg = passed[st.target.id]
                        if _new_container(arg) or freshness.fresh(arg, owner):
                            continue
                        if isinstance(arg, ast.Attribute) or (isinstance(arg, ast.Name) and _names_existing_object(tree, freshness, arg, owner)):
                            shared.append(st.target.id)
                            continue
                        raise AnalysisError(f"R-EFFECT: {owner.qual} builds the scratch state with `{st.target.id}={unparse(arg)[:40]}`: cannot decide whether that is a new container")
                    v = st.value
                    per_instance = isinstance(v, ast.Call) and any(k.arg in {"factory", "default_factory"} for k in v.keywords)
                    immutable_default = v is None or isinstance(v, ast.Constant)
                    if not (per_instance or immutable_default):
                        shared.append(st.target.id)
        ctx.verdict(not shared, "R-EFFECT", f"{ing.qual}.reset::all-fields", tree.loc(ing.node),
                    f"a fresh _HelicityModelIngredients() gives each of its {len(fields)} fields its own container (per-instance factories / new containers handed to the constructor)", shared or None)
    else:
        reset = ing.methods.get("reset")
        if reset is None:
            raise AnalysisError("vanished anchor: _HelicityModelIngredients.reset")
        fresh = reset_fresh_fields(tree, reset, fields)
        missing = [f for f in fields if not fresh.get(f)]
        ctx.verdict(not missing, "R-EFFECT", f"{ing.qual}.reset::all-fields", tree.loc(reset.node),
                    f"_HelicityModelIngredients.reset assigns a fresh container to each of its {len(fields)} fields", missing or None)
    # 3. writes reachable from formulate
    n_writes = 0
    n_through = 0
    sites = CallSites(tree, reach)
    survival = Survival(tree, sites, freshness, scratch_attr, reach)
    for q, fn in sorted(reach.items()):
        if not q.startswith("ampform"):
            continue
        params = set(fn.params) - {"self", "cls"}
        rd = None
        globals_declared = {n for node in walk_function(fn.node, nested=False) if isinstance(node, (ast.Global,)) for n in node.names}
        for node in walk_function(fn.node, nested=False):
            target, kind = None, None
            if isinstance(node, (ast.Assign, ast.AugAssign, ast.AnnAssign)):
                tgts = node.targets if isinstance(node, ast.Assign) else [node.target]
                for t in tgts:
                    if isinstance(t, ast.Attribute):
                        target, kind = t, "attr"
                    elif isinstance(t, ast.Subscript):
                        target, kind = t.value, "item"
                    elif isinstance(t, ast.Name) and t.id in globals_declared:
                        target, kind = t, "global"
            elif isinstance(node, ast.Delete):
                for t in node.targets:
                    if isinstance(t, ast.Subscript):
                        target, kind = t.value, "item"
            elif isinstance(node, ast.Call) and isinstance(node.func, ast.Attribute) and node.func.attr in MUTATORS:
                target, kind = node.func.value, "call"
            if target is None:
                continue
            n_writes += 1
            txt = unparse(target)
            base = txt.split(".")[0].split("[")[0]
            where = tree.loc(node)
            key = f"{q}::write {unparse(node)[:60]}"
            if kind == "global":
                ctx.violation("R-EFFECT", key, where, f"{q}: assignment to module global `{txt}` on the formulate path")
                continue
            if base in {"self", "cls"}:
                attr_path = txt.split(".")[1:] if kind != "attr" else txt.split(".")[1:]
                first_attr = attr_path[0].split("[")[0] if attr_path else ""
                if first_attr.lstrip("_").endswith(scratch_attr.lstrip("_")):
                    continue  # scratch state, reset first
                in_ctor = fn.name in {"__init__", "__new__", "__attrs_post_init__", "reset"}
                if in_ctor:
                    continue  # constructing a fresh object
                if fn.cls is not None and fn.cls.qual == "ampform.helicity.align.dpd::_DPDAlignmentWignerGenerator":
                    continue  # per-call generator object created inside the (memoised) aligned-amplitude function; see R-CACHE for its dict
                # a write to `self.<field>` is a write to the RECEIVER: it happens to whatever stands before the dot at the
                # call sites on the formulate path (the builder's methods are reached from formulate(), whose receiver is the
                # builder: that state survives; a method of the scratch-state class / of an object created during the call
                # is reached through `self.<scratch>.method()` / `<new object>.method()`)
                why = "the class object outlives the call" if base == "cls" else None
                if why is None:
                    top = fn
                    while top.outer is not None and "self" not in top.params:
                        top = top.outer
                    why = survival.param(top, "self", set()) if survival.is_receiver(top, "self") else "the receiver is not the first parameter of a method"
                if why is None:
                    n_through += 1
                    continue
                ctx.violation("R-EFFECT", key, where, f"{q}: `{unparse(node)[:60]}` writes object state that survives formulate()",
                              f"state outside the reset scratch area makes the next formulate() depend on this one ({why})")
                continue
            if base in params:
                if rd is None:
                    top = fn
                    while top.outer is not None:
                        top = top.outer
                    rd = RD(top.node)
                # a parameter that was re-bound to a fresh copy first is fine
                name_node = next((n for n in ast.walk(target) if isinstance(n, ast.Name) and n.id == base), None)
                defs = rd.reaching(name_node) if name_node is not None and isinstance(name_node.ctx, ast.Load) else set()
                if defs and all(d.kind != "param" for d in defs):
                    continue
                if fn.name in {"__init__", "__new__"}:
                    continue
                # the write happens to whatever the callers on the formulate path hand in: it is
                # harmless iff every one of them passes an object created during the call (or scratch state)
                why = survival.param(fn, base, set())
                if why is None:
                    n_through += 1
                    continue
                ctx.violation("R-EFFECT", key, where, f"{q}: `{unparse(node)[:60]}` mutates its argument `{base}` on the formulate path ({why})")
                continue
            mod = fn.module
            if base in mod.toplevel and not isinstance(mod.toplevel[base], (ast.FunctionDef, ast.ClassDef)):
                ctx.violation("R-EFFECT", key, where, f"{q}: `{unparse(node)[:60]}` mutates module-level `{base}`")
    ctx.stats["writes_on_formulate_path"] = n_writes
    ctx.stats["writes_to_arguments_that_are_fresh_at_every_call_site"] = n_through
    ctx.ok("R-EFFECT", tree.loc(formulate.node), f"{n_writes} write sites in {len(reach)} functions reachable from formulate: locals, constructor state or reset scratch state only")


class Survival:
    """Can the object that a parameter / an expression denotes outlive formulate()?

    ``param`` judges a parameter of ``g`` at the call sites on the formulate path; the RECEIVER of a
    method (its first parameter) is a parameter like any other: it is whatever stands before the
    dot at the call sites (``Class.method(obj)``: the first argument), and the receiver of
    formulate() itself is the builder, which does survive.  ``value`` judges an expression in the
    function that evaluates it: an object created during the call, the reset scratch state, state
    of an object under construction, a local that was bound to one of these, or the function's own
    parameter for which the same holds at its call sites."""

    def __init__(self, tree: Tree, sites: CallSites, freshness: Freshness, scratch_attr: str, reach: dict[str, FuncInfo]) -> None:
        self.tree, self.sites, self.freshness, self.scratch_attr, self.reach = tree, sites, freshness, scratch_attr, reach
        self._as_value: dict[str, str | None] = {}

    # ---------------------------------------------------------------- parameters
    @staticmethod
    def _decorated(g: FuncInfo, name: str) -> bool:
        return any(unparse(d).split(".")[-1] == name for d in g.node.decorator_list)

    def is_receiver(self, g: FuncInfo, param: str) -> bool:
        a = g.node.args
        positional = [x.arg for x in [*a.posonlyargs, *a.args]]
        return g.cls is not None and g.outer is None and not self._decorated(g, "staticmethod") and bool(positional) and positional[0] == param

    def taken_as_value(self, g: FuncInfo) -> str | None:
        """A place on the formulate path where ``<object>.<method>`` is read without being called (a bound
        method handed on): the receiver of the later call is not visible at any call site."""
        if g.qual not in self._as_value:
            found = None
            for q, f in sorted(self.reach.items()):
                if not q.startswith("ampform"):
                    continue
                for n in walk_function(f.node, nested=False):
                    if isinstance(n, ast.Attribute) and n.attr == g.name and isinstance(n.ctx, ast.Load):
                        par = getattr(n, "_parent", None)
                        if not (isinstance(par, ast.Call) and par.func is n):
                            found = f"{q} (line {getattr(n, 'lineno', '?')}): `{unparse(n)[:40]}`"
                            break
                if found:
                    break
            self._as_value[g.qual] = found
        return self._as_value[g.qual]

    def bind_receiver(self, call: ast.Call, g: FuncInfo) -> tuple[str, ast.AST | None]:
        f = call.func
        if not isinstance(f, ast.Attribute):
            return "unknown", None
        if isinstance(f.value, ast.Call) and isinstance(f.value.func, ast.Name) and f.value.func.id == "super":
            return "super", None
        recv = self.tree.resolve(call._module, f.value, self.tree.func_of(call))  # type: ignore[attr-defined]
        if recv in self.tree.classes:
            # Class.method(obj, ...): the receiver is the first positional argument
            if call.args and not isinstance(call.args[0], ast.Starred):
                return "expr", call.args[0]
            return "unknown", None
        return "expr", f.value

    def param(self, g: FuncInfo, param: str, busy: set[tuple[str, str]], depth: int = 0) -> str | None:
        """None if every call site on the formulate path passes an object that cannot outlive
        formulate(); otherwise the reason."""
        if (g.qual, param) in busy:
            return None
        if depth > 8:
            return "call chain too deep to follow"
        busy = busy | {(g.qual, param)}
        receiver = self.is_receiver(g, param)
        if receiver:
            if g.qual == FORMULATE:
                return "the receiver of formulate() is the builder itself, which outlives the call"
            if self._decorated(g, "classmethod"):
                return "the receiver of a classmethod is the class object, which outlives the call"
        callers = self.sites.of(g)
        if not callers:
            return "no call site on the formulate path was found for it, so what it receives is unknown"
        if receiver:
            handed_on = self.taken_as_value(g)
            if handed_on is not None:
                raise AnalysisError(f"R-EFFECT: {g.qual} writes to its receiver, and {handed_on} reads a method of that name without calling it: the receiver of that use is not visible at a call site")
        for caller, call in callers:
            how, arg = self.bind_receiver(call, g) if receiver else bind_argument(self.tree, call, g, param)
            if how == "default":
                continue  # a mutable default that is written to is R-SHARED's finding
            at = f"{caller.qual} (line {getattr(call, 'lineno', '?')})"
            if how == "super":
                top = caller
                while top.outer is not None and "self" not in top.params:
                    top = top.outer
                if caller.name in {"__init__", "__new__", "__attrs_post_init__"}:
                    continue
                inner = self.param(top, "self", busy, depth + 1) if "self" in top.params else "the receiver of the super() call is unknown"
                if inner is None:
                    continue
                return f"{at} passes its own receiver through super(): {inner}"
            if how == "unknown" or arg is None:
                return f"{at} passes it through */** arguments" if not receiver else f"{at} calls it in a form whose receiver is not visible"
            why = self.value(arg, caller, busy, depth)
            if why is not None:
                return f"{at} passes {why}"
        return None

    # ---------------------------------------------------------------- expressions
    def value(self, expr: ast.AST, caller: FuncInfo, busy: set[tuple[str, str]], depth: int = 0, seen: frozenset[int] = frozenset()) -> str | None:
        if self.freshness.fresh(expr, caller):
            return None
        txt = unparse(expr)
        head = txt.split(".")[0].split("[")[0]
        if head in {"self", "cls"} and isinstance(expr, (ast.Attribute, ast.Subscript)):
            first_attr = txt.split(".")[1].split("[")[0] if "." in txt else ""
            if first_attr.lstrip("_").endswith(self.scratch_attr.lstrip("_")):
                return None
            if caller.name in {"__init__", "__new__", "__attrs_post_init__", "reset"}:
                return None
            return f"`{txt[:40]}`, object state that survives formulate()"
        unproven = f"`{txt[:40]}`, which is not provably an object created during the call"
        if isinstance(expr, ast.Name) and isinstance(expr.ctx, ast.Load) and depth <= 8:
            defs = self.freshness.rd(caller).reaching(expr)
            if not defs:
                return unproven
            for d in sorted(defs, key=lambda d: (d.lineno, d.kind)):
                why = self._def(d, expr, caller, busy, depth, seen)
                if why is not None:
                    return why
            return None
        return unproven

    def _def(self, d: Def, expr: ast.Name, caller: FuncInfo, busy: set[tuple[str, str]], depth: int, seen: frozenset[int]) -> str | None:
        unproven = f"`{expr.id}`, which is not provably an object created during the call"
        if id(d) in seen:
            return None  # a cycle of in-place updates adds no new origin
        seen = seen | {id(d)}
        owner = self.tree.func_of(d.node) or caller
        if d.kind == "param":
            if d.name == "cls":
                return unproven
            if owner.name in {"__init__", "__new__"} or (d.name == "self" and owner.name == "__attrs_post_init__"):
                return None  # (state of) an object under construction
            top = owner
            while top.outer is not None and d.name not in top.params:
                top = top.outer
            if d.name == "self" and not self.is_receiver(top, "self"):
                return unproven
            inner = self.param(top, d.name, busy, depth + 1)
            if inner is None:
                return None
            return f"its own argument `{d.name}`: {inner}"
        if d.kind == "assign" and d.value is not None and d.index is None and not isinstance(d.node, ast.AugAssign):
            # a local name for an object: it is what it was bound to
            return self.value(d.value, owner, busy, depth + 1, seen)
        if d.kind in {"store", "aug"}:
            # an object that is updated in place stays the object it was
            before = [dep for dep in d.deps if dep.name == d.name and dep is not d]
            if not before:
                return unproven
            for dep in sorted(before, key=lambda x: (x.lineno, x.kind)):
                why = self._def(dep, expr, caller, busy, depth, seen)
                if why is not None:
                    return why
            return None
        return unproven


# --------------------------------------------------------------------------- R-SHARED


def check_shared_class_state(ctx: Check, tree: Tree) -> None:
    """A class-level attribute bound to a mutable container is ONE object shared by all
    instances (and all builders).  It must not be mutated through ``self``/``cls`` unless
    every instance re-binds the attribute to a fresh object first."""
    n_classes = 0
    n_attrs = 0
    for q, cls in sorted(tree.classes.items()):
        if not q.startswith("ampform"):
            continue
        n_classes += 1
        # a dataclass refuses a mutable default at class creation (ValueError: the module would not import); attrs does NOT:
        # `x: dict = {}` in an attrs class is ONE dict handed to every instance by the generated __init__ (attrs.Factory /
        # field(factory=...) is the per-instance spelling), so for attrs classes the default is shared state like any other
        is_attrs = any(t in {"dataclasses.dataclass"} for t, _ in cls.decorators)
        shared: dict[str, ast.AST] = {}
        for st in cls.node.body:
            target, value = None, None
            if isinstance(st, ast.Assign) and len(st.targets) == 1 and isinstance(st.targets[0], ast.Name):
                target, value = st.targets[0].id, st.value
            elif isinstance(st, ast.AnnAssign) and isinstance(st.target, ast.Name) and st.value is not None:
                target, value = st.target.id, st.value
            if target is None:
                continue
            mutable = isinstance(value, (ast.Dict, ast.List, ast.Set, ast.DictComp, ast.ListComp, ast.SetComp)) or (
                isinstance(value, ast.Call) and unparse(value.func).split(".")[-1] in {"dict", "list", "set", "defaultdict", "OrderedDict", "deque", "Counter"}
            )
            if not mutable and isinstance(value, ast.Call) and unparse(value.func).split(".")[-1] in {"field", "ib", "attrib"}:
                # attrs: field(default=<mutable>) is the same single object as `x: dict = {}` (field(factory=dict) /
                # default=Factory(dict) is the per-instance spelling)
                for kw in value.keywords:
                    if kw.arg == "default":
                        d = kw.value
                        mutable = isinstance(d, (ast.Dict, ast.List, ast.Set, ast.DictComp, ast.ListComp, ast.SetComp)) or (
                            isinstance(d, ast.Call) and unparse(d.func).split(".")[-1] in {"dict", "list", "set", "defaultdict", "OrderedDict", "deque", "Counter"}
                        )
            if mutable and not is_attrs:
                shared[target] = st
        if not shared:
            continue
        for attr, st in shared.items():
            n_attrs += 1
            mangled = {attr, f"_{cls.name.lstrip('_')}{attr}"} if attr.startswith("__") and not attr.endswith("__") else {attr}
            rebinds, mutations = [], []
            for c in [cls, *tree.subclasses(cls)]:
                for m in c.methods.values():
                    for node in walk_function(m.node):
                        if isinstance(node, (ast.Assign, ast.AnnAssign)):
                            tgts = node.targets if isinstance(node, ast.Assign) else [node.target]
                            for t in tgts:
                                if isinstance(t, ast.Attribute) and t.attr in mangled and isinstance(t.value, ast.Name) and t.value.id == "self" and getattr(node, "value", None) is not None:
                                    rebinds.append((m, node))
                                if isinstance(t, ast.Subscript) and isinstance(t.value, ast.Attribute) and t.value.attr in mangled and isinstance(t.value.value, ast.Name) and t.value.value.id in {"self", "cls"}:
                                    mutations.append((m, node))
                        if isinstance(node, ast.AugAssign) and isinstance(node.target, ast.Attribute) and node.target.attr in mangled:
                            mutations.append((m, node))
                        if isinstance(node, ast.Delete):
                            for t in node.targets:
                                if isinstance(t, ast.Subscript) and isinstance(t.value, ast.Attribute) and t.value.attr in mangled:
                                    mutations.append((m, node))
                        if isinstance(node, ast.Call) and isinstance(node.func, ast.Attribute) and node.func.attr in MUTATORS:
                            recv = node.func.value
                            if isinstance(recv, ast.Attribute) and recv.attr in mangled and isinstance(recv.value, ast.Name) and recv.value.id in {"self", "cls"}:
                                mutations.append((m, node))
            init_rebinds = [r for r in rebinds if r[0].name in {"__init__", "__new__", "__attrs_post_init__"}]
            key = f"{q}::class-level mutable `{attr}`"
            if mutations and not init_rebinds:
                m, node = mutations[0]
                ctx.violation("R-SHARED", key + "::mutated-through-self", tree.loc(node),
                              f"{q}: class-level `{attr} = {unparse(getattr(st, 'value', st))[:30]}` is one object shared by every instance, and {m.qual} mutates it with `{unparse(node)[:60]}`"
                              + ("" if not rebinds else " (it is only re-bound per instance outside the constructor)"),
                              "creating or re-configuring a second builder / name generator rewrites the state of the first: formulate() depends on what other objects did before")
            else:
                ctx.ok("R-SHARED", tree.loc(st), f"{q}: class-level mutable `{attr}` is {'re-bound per instance in the constructor' if init_rebinds else 'never mutated through self/cls'}")
    # mutable default arguments: one object per function, shared by all calls
    n_defaults = 0
    for q, fn in sorted(tree.funcs.items()):
        if not q.startswith("ampform"):
            continue
        a = fn.node.args
        pos = [*a.posonlyargs, *a.args]
        pairs = list(zip(pos[len(pos) - len(a.defaults):], a.defaults)) + [(p, d) for p, d in zip(a.kwonlyargs, a.kw_defaults) if d is not None]
        for param, default in pairs:
            mutable = isinstance(default, (ast.Dict, ast.List, ast.Set)) or (isinstance(default, ast.Call) and unparse(default.func).split(".")[-1] in {"dict", "list", "set", "defaultdict", "OrderedDict"})
            if not mutable:
                continue
            n_defaults += 1
            rd = RD(fn.node)
            bad = None
            for node in walk_function(fn.node, nested=False):
                base = None
                if isinstance(node, ast.Call) and isinstance(node.func, ast.Attribute) and node.func.attr in MUTATORS:
                    base = node.func.value
                elif isinstance(node, (ast.Assign, ast.AugAssign, ast.AnnAssign)):
                    for t in (node.targets if isinstance(node, ast.Assign) else [node.target]):
                        if isinstance(t, ast.Subscript):
                            base = t.value
                        # escaping into object state without a copy
                        if isinstance(t, ast.Attribute) and isinstance(node, (ast.Assign, ast.AnnAssign)) and isinstance(node.value, ast.Name) and node.value.id == param.arg \
                                and any(d.kind == "param" for d in rd.reaching(node.value)):
                            bad = node
                elif isinstance(node, ast.Return) and isinstance(node.value, ast.Name) and node.value.id == param.arg and any(d.kind == "param" for d in rd.reaching(node.value)):
                    bad = node
                if isinstance(base, ast.Name) and base.id == param.arg and any(d.kind == "param" for d in rd.reaching(base)):
                    bad = node
            if bad is not None:
                ctx.violation("R-SHARED", f"{q}::mutable-default `{param.arg}`", tree.loc(bad),
                              f"{q}: parameter `{param.arg}={unparse(default)}` has a mutable default that is mutated / kept (`{unparse(bad)[:60]}`): the default object is shared by all calls")
            else:
                ctx.ok("R-SHARED", tree.loc(fn.node), f"{q}: mutable default `{param.arg}={unparse(default)}` is neither mutated nor kept")
    ctx.stats["mutable_default_arguments"] = n_defaults
    ctx.stats["classes_scanned_for_shared_state"] = n_classes
    ctx.stats["class_level_mutable_attributes"] = n_attrs
    if n_classes < 60:
        raise AnalysisError(f"only {n_classes} classes scanned")
    if n_attrs == 0:
        ctx.ok("R-SHARED", "src/ampform", f"{n_classes} classes scanned: no class-level attribute is bound to a mutable container (rule armed; positive example in the self-test catalogue)")


# --------------------------------------------------------------------------- R-CANON


def _sorted_iteration(arg: ast.AST, param: str) -> bool:
    """Does ``arg`` enumerate (the keys / items of) ``param`` in sorted order: ``sorted(param...)`` or a
    comprehension whose outermost loop runs over it?"""
    if isinstance(arg, ast.Call) and isinstance(arg.func, ast.Name) and arg.func.id == "sorted" and arg.args:
        return any(isinstance(n, ast.Name) and n.id == param for n in ast.walk(arg.args[0]))
    if isinstance(arg, (ast.ListComp, ast.GeneratorExp, ast.DictComp)):
        return _sorted_iteration(arg.generators[0].iter, param)
    return False


def converter_result(tree: Tree, fn: FuncInfo, param: str | None = None, depth: int = 0) -> tuple[bool, bool, bool]:
    """What a converter hands back for its argument ``param``, on every return path:
    (a new mapping, filled in sorted order of the argument, wrapped in ParameterValues).
    Locals are substituted by their definitions; a call of a package function that receives the
    argument is followed into that function (a shared ordering helper is part of the converter)."""
    from ..inline import Inliner

    if param is None:
        positional = [p for p in fn.params if p not in {"self", "cls"}]
        if not positional:
            return False, False, False
        param = positional[0]
    returns = [n for n in walk_function(fn.node, nested=False) if isinstance(n, ast.Return)]
    if not returns or depth > 6:
        return False, False, False
    inl = Inliner(fn.node)
    new_all, sorted_all, wraps_any = True, True, False
    for r in returns:
        e = inl.expr(r.value, stop={param}) if r.value is not None else None
        new, srt = False, False
        if isinstance(e, ast.DictComp):
            new, srt = True, _sorted_iteration(e, param)
        elif isinstance(e, ast.Call):
            callee = tree.resolve(fn.module, e.func, fn)
            last = unparse(e.func).split(".")[-1]
            if callee in tree.funcs:
                g = tree.funcs[callee]
                passed = []
                for p in g.params:
                    how, arg = bind_argument(tree, e, g, p)
                    if how == "expr" and isinstance(arg, ast.Name) and arg.id == param:
                        passed.append(p)
                if len(passed) == 1:
                    new, srt, w = converter_result(tree, g, passed[0], depth + 1)
                    wraps_any = wraps_any or w
            elif last == "ParameterValues" and callee in tree.classes:
                new, wraps_any = True, True
            elif last in {"OrderedDict", "dict"} and (callee is None or "::" not in callee):
                new = True
                srt = bool(e.args) and _sorted_iteration(e.args[0], param)
        new_all, sorted_all = new_all and new, sorted_all and srt
    return new_all, sorted_all, wraps_any


def check_converters(ctx: Check, tree: Tree) -> None:
    cls = tree.cls(MODEL)
    n = 0
    for st in cls.node.body:
        if not (isinstance(st, ast.AnnAssign) and isinstance(st.target, ast.Name)):
            continue
        ann = unparse(st.annotation)
        name = st.target.id
        is_mapping = bool(re.search(r"Dict|dict|Mapping|ParameterValues", ann))
        if not is_mapping:
            continue
        n += 1
        conv = next((k.value for k in st.value.keywords if k.arg == "converter"), None) if isinstance(st.value, ast.Call) else None
        key = f"{MODEL}::{name}::converter"
        if conv is None:
            ctx.violation("R-CANON", key, tree.loc(st), f"HelicityModel.{name} has no converter: the model aliases the builder's scratch dictionary")
            continue
        target = tree.resolve(cls.module, conv)
        fn = tree.funcs.get(target or "")
        if fn is None:
            ctx.info("R-CANON", tree.loc(st), f"HelicityModel.{name}: converter {unparse(conv)} (external)")
            continue
        builds_new, sorts, wraps = converter_result(tree, fn)
        body = "ParameterValues" if wraps else ""
        if not builds_new:
            ctx.violation("R-CANON", key, tree.loc(st), f"HelicityModel.{name}: converter {fn.name} does not build a new mapping")
        elif not sorts:
            # ParameterValues copies with dict(); insertion order is deterministic once R-CACHE/R-ORDER hold
            copies = any("dict(" in unparse(m.node) for m in tree.classes.get("ampform.helicity::ParameterValues").methods.values()) if "ParameterValues" in body else False
            if copies:
                ctx.advisory("R-CANON", tree.loc(st), f"HelicityModel.{name}: converter {fn.name} copies but does not sort although the docstring promises natural-sort order")
                ctx.ok("R-CANON", tree.loc(st), f"HelicityModel.{name}: converter {fn.name} copies into a new mapping")
            else:
                ctx.violation("R-CANON", key, tree.loc(st), f"HelicityModel.{name}: converter {fn.name} neither sorts nor copies")
        else:
            ctx.ok("R-CANON", tree.loc(st), f"HelicityModel.{name}: converter {fn.name} builds a new mapping in sorted order")
    if n < 4:
        raise AnalysisError(f"only {n} mapping fields on HelicityModel (4 confirmed)")


FRESH_SOURCES = {
    "sympy.Dummy": "a SymPy Dummy (identity = process-global counter with a random base)",
    "sympy.core.symbol.Dummy": "a SymPy Dummy",
    "sympy.numbered_symbols": None,  # deterministic
    "uuid.uuid1": "a UUID", "uuid.uuid4": "a UUID", "os.getpid": "the process id", "os.urandom": "random bytes",
    "time.time": "the clock", "time.time_ns": "the clock", "time.monotonic": "the clock", "time.perf_counter": "the clock",
    "datetime.datetime.now": "the clock", "random.random": "a random number", "random.randint": "a random number",
    "random.choice": "a random choice", "random.shuffle": "a random order", "secrets.token_hex": "random bytes",
}  # fmt: skip


def check_fresh(ctx: Check, tree: Tree, reach: dict[str, FuncInfo]) -> None:
    """R-FRESH: nothing reachable from formulate() creates a value that is unique to the process
    or the moment (sp.Dummy, uuid, clock, random, id(), object()): such a value inside the model
    makes two formulate() calls in two processes - or a model and its pickle from another process -
    unequal although (reaction, configuration) are the same.  (Dummy symbols created inside
    evaluate()/printer methods appear only when an expression is unfolded or printed, not in the
    model, and are not on the formulate path.)"""
    n_calls = 0
    bad = 0
    for q, fn in sorted(reach.items()):
        for call, callee in tree.calls_in(fn, nested=True):
            n_calls += 1
            what = None
            if callee in FRESH_SOURCES:
                what = FRESH_SOURCES[callee]
            elif isinstance(call.func, ast.Name) and call.func.id in {"id", "object"} and callee in {None, "id", "object", "builtins.id", "builtins.object"}:
                if call.func.id == "object" and call.args:
                    continue
                what = "id() - a memory address" if call.func.id == "id" else "a fresh object() (identity only)"
            if what is None:
                continue
            bad += 1
            ctx.violation("R-FRESH", f"{q}::{unparse(call.func)}", tree.loc(call),
                          f"{q}: `{unparse(call)[:60]}` creates {what} on the formulate path",
                          "the model then differs between two processes (and from its own pickle loaded elsewhere) for the same reaction and configuration")
    if not bad:
        ctx.ok("R-FRESH", "src/ampform", f"{n_calls} calls in the {len(reach)} functions reachable from formulate(): none creates a process-unique value (Dummy, uuid, clock, random, id, object())")


LABELLED = ("StateTransition", "FrozenTransition", "Transition", "ReactionInfo", "Particle", "State", "StateWithID")


def _qrules_label_fields() -> list[str] | None:
    """Fields of qrules.particle.Particle that do not take part in ==/hash (read from the installed
    source, not imported)."""
    import importlib.util
    import pathlib

    try:
        spec = importlib.util.find_spec("qrules")
        if spec is None or not spec.submodule_search_locations:
            return None
        src = pathlib.Path(list(spec.submodule_search_locations)[0]) / "particle" / "__init__.py"
        mod = ast.parse(src.read_text())
    except Exception:  # noqa: BLE001
        return None
    for node in ast.walk(mod):
        if isinstance(node, ast.ClassDef) and node.name == "Particle":
            return [st.target.id for st in node.body if isinstance(st, ast.AnnAssign) and isinstance(st.target, ast.Name) and isinstance(st.value, ast.Call)
                    and any(k.arg == "eq" and isinstance(k.value, ast.Constant) and k.value.value is False for k in st.value.keywords)]
    return None


def check_cache_keys(ctx: Check, tree: Tree) -> None:
    """R-CACHEKEY: functools.cache keys by == / hash of the arguments.  qrules particles compare equal
    when their quantum numbers agree - name, pid and latex do not take part - so transitions / states /
    reactions that differ only in a label are ONE cache key.  A memoised function of such an argument may
    therefore only return something that does not carry the labels; returning an object that holds the
    particles (TwoBodyDecay, StateWithID) hands the first caller's labels to every later caller in the
    process (parameter names m_{...}, Gamma_{...} of another model)."""
    labels = _qrules_label_fields()
    if labels:
        ctx.info("R-CACHEKEY", "qrules/particle/__init__.py", f"qrules.particle.Particle: fields {labels} are declared eq=False (read from the installed source)")
    else:
        ctx.assumptions.append("qrules.particle.Particle compares without name / pid / latex (source not found; taken from the qrules documentation)")
    holders = set()
    for q, cls in tree.classes.items():
        if not q.startswith("ampform"):
            continue
        for st in cls.node.body:
            if isinstance(st, ast.AnnAssign) and any(t in unparse(st.annotation) for t in LABELLED):
                holders.add(cls.name)
    memo = memoised_functions(tree)
    n = 0
    for f in memo:
        params = [a for a in [*f.node.args.posonlyargs, *f.node.args.args, *f.node.args.kwonlyargs] if a.annotation is not None]
        lab = [a.arg for a in params if any(t in unparse(a.annotation).replace("'", "") for t in LABELLED)]
        if not lab:
            continue
        n += 1
        ret = unparse(f.node.returns).replace("'", "") if f.node.returns is not None else ""
        ctors = {unparse(r.value.func) for r in walk_function(f.node, nested=False) if isinstance(r, ast.Return) and isinstance(r.value, ast.Call)}
        carries = [h for h in holders | set(LABELLED) if h in ret or h in ctors or ("cls" in ctors and f.cls is not None and f.cls.name == h)]
        ctx.verdict(not carries, "R-CACHEKEY", f"{f.qual}::label-carrying-result", tree.loc(f.node),
                    f"memoised {f.qual}({', '.join(lab)}) returns `{ret or sorted(ctors)}`: nothing that carries particle labels",
                    None if not carries else f"the result holds {sorted(carries)} (particles with name / latex), but the cache key ignores these labels: a later model with relabelled particles gets the first model's objects")
    if n == 0:
        ctx.ok("R-CACHEKEY", "src/ampform", f"none of the {len(memo)} memoised functions takes a transition / state / particle / reaction and returns an object holding particles")


def run(ctx: Check, tree: Tree) -> None:
    from .c06_order import check_order

    ctx.decided += [
        "R-CACHE: no object that aliases the mutable part of a memoised result is mutated or handed out uncopied on the formulate path (alias flow through wrappers and polymorphic calls, to a fixed point)",
        "R-EFFECT: formulate resets its scratch state first; every other write reachable from it targets locals, objects under construction, or the scratch state",
        "R-ORDER: no unordered container with hash-seed-sensitive elements reaches an order-preserving sink (tuple/list/loop-with-append/sequence argument of an expression constructor) without sorted()",
        "R-CANON: every mapping field of HelicityModel is converted into a new mapping (sorted where promised)",
        "R-CACHEKEY: no memoised function keyed by transitions / states / particles (whose equality ignores name, pid, latex) returns an object that carries those labels",
        "R-FRESH: nothing reachable from formulate() creates a process-unique value (sp.Dummy, uuid, clock, random, id(), object())",
        "R-SHARED: no class-level mutable container of the package is mutated through self/cls without being re-bound per instance in the constructor",
    ]
    ctx.not_decided += ["equality in a fresh process beyond hash-seed effects (e.g. qrules' own determinism)", "thread interleavings (builders are not advertised as thread safe)"]
    ctx.assumptions += [
        "functools.cache keeps one process-global result object per argument tuple",
        "CPython: hash of small ints is the int (set order of int ids is seed independent); str / SymPy object hashes depend on PYTHONHASHSEED",
        "unresolvable attribute calls are resolved by method name over the repo classes (class-hierarchy approximation)",
    ]
    reach = reach_from(tree, FORMULATE)
    ctx.stats["functions_reachable_from_formulate"] = len(reach)
    if len(reach) < 60:
        raise AnalysisError(f"only {len(reach)} functions reachable from formulate (call-graph resolution degraded)")
    ctx.section(check_cache, ctx, tree, reach)
    ctx.section(check_effects, ctx, tree, reach)
    ctx.section(check_order, ctx, tree, reach)
    ctx.section(check_shared_class_state, ctx, tree)
    ctx.section(check_fresh, ctx, tree, reach)
    ctx.section(check_cache_keys, ctx, tree)
    ctx.section(check_converters, ctx, tree)
