"""C13 - dynamics attach to the right decay with the right variables and defaults.

R-TERM     the variable set of a node = (invariant mass of the decaying state, masses of its
           two daughters, helicity angles of children[0], L of that node when specified);
           lineshape builders feed M^2, the daughter masses and L of that pool.
R-DEFAULTS mass -> resonance.mass, width -> resonance.width, radius -> 1; duplicated symbol
           constructions agree.
R-DISPATCH assign() is implemented for {TwoBodyDecay, tuple, str, Particle}; every
           implementation ends in the single store; selection by name compares the parent.
R-SAMEDECAY the builder is looked up with the decay of the same (transition, node) whose
           variables it receives.

How the rules read the code (second robustness round): the variable set, the builders' pool wiring, defaults and
parameter names are decided on TERMS of the public behaviour (``RelativisticBreitWignerBuilder.__call__`` under its
flag combinations, symbols identified by name - see sa/props/c12.py); the selector (R-DISPATCH, R-ONESTORE,
R-DYNDOMAIN) and ``__formulate_dynamics`` (R-SAMEDECAY) are executed symbolically (sa/symex.py, ``MethodRun``) and
judged on their EFFECTS: which (key, value) pairs reach the store for which ranges under which conditions, which
value is returned on which path (singledispatch overloads or an isinstance chain, loops / comprehensions / generator
helpers / ``filter`` / ``dict.fromkeys``, ``in`` / ``try: .. except KeyError`` / ``.get(..) is None``, keyword /
starred calls).  Three-valued verdicts: only a completely followed value that breaks the condition is a VIOLATION.
"""

from __future__ import annotations

import ast

from ..loader import AnalysisError, Tree, unparse, walk_function
from ..poly import RF, D, equal, sym
from ..report import Check
from ..rules import symbol_sites
from ..symex import (SymEx, alternatives, as_number, calls_of, cases, contains, expand_ranges, flatten_each, free_eaches, func_name, not_followed, show, show_pc, subterms,
                     unwrap)
from ..terms import DictV, Opaque, TermEval, Tup
from .c02 import same_self as _same_self
from .c02 import mentions, whole_collection
from .c12 import BUILDER, builder_env, builder_pair, builder_results, resonance_symbols, the_resonance_symbols

PID = "C13"
HEL = "ampform.helicity"
BLD = "ampform.dynamics.builder"


VARIABLE_SET = f"{BLD}::TwoBodyKinematicVariableSet"


def _record_fields(tree: Tree, cls_qual: str) -> list[str]:
    return [st.target.id for st in tree.cls(cls_qual).node.body if isinstance(st, ast.AnnAssign) and isinstance(st.target, ast.Name)]


def _paths(v, conds: tuple = ()):
    """(value, path conditions) for every path of a forked evaluation."""
    from ..terms import PW

    if isinstance(v, PW):
        for val, cond in v.branches:
            yield from _paths(val, (*conds, cond))
    else:
        yield v, conds


def _holds_is_none(k, subject) -> bool:
    """Does the truth of the condition (given by its canonical key) entail `subject is None`?"""
    if not (isinstance(k, tuple) and k):
        return False
    if k[0] == "tup":
        return any(_holds_is_none(x, subject) for x in k[1])
    if k[0] == "rel" and k[1] in {"is", "=="}:
        return {k[2], k[3]} == {subject, ("opaque", None)}
    if k[0] == "opaque" and isinstance(k[1], tuple) and k[1]:
        tag = k[1][0]
        if tag == "and":
            return any(_holds_is_none(x, subject) for x in k[1][1])
        if tag in {"else-of", "not"}:
            return _fails_is_none(k[1][1], subject)
    return False


def _fails_is_none(k, subject) -> bool:
    """Does the falsity of the condition entail `subject is None`?"""
    if not (isinstance(k, tuple) and k):
        return False
    if k[0] == "rel" and k[1] in {"is not", "!="}:
        return {k[2], k[3]} == {subject, ("opaque", None)}
    if k[0] == "opaque" and isinstance(k[1], tuple) and k[1]:
        tag = k[1][0]
        if tag == "or":
            return any(_fails_is_none(x, subject) for x in k[1][1])
        if tag in {"else-of", "not"}:
            return _holds_is_none(k[1][1], subject)
    return False


def check_variable_set(ctx: Check, tree: Tree) -> None:
    """The variable set of (transition, node) is evaluated as a term over the abstract decay of that node
    (sa/props/c02.py decay_evaluator): helpers, unpacking of decay.children, keyword arguments and the
    way the symbols are fetched do not matter - only which symbol ends up in which role, on every path."""
    from ..rules import falsy_zero_hazards
    from ..terms import vkey
    from .c02 import NODE_ID, TRANSITION, decay_evaluator, decay_value

    # R-FALSYZERO: L = 0 (an S-wave) is a value, None is "not specified": only `is None` tells them apart
    hazards, reads = falsy_zero_hazards(tree, "ampform.helicity")
    if reads < 2:
        raise AnalysisError(f"R-FALSYZERO: only {reads} reads of the optional quantum numbers of an interaction found in ampform.helicity (5 confirmed)")
    for hfn, node, src in hazards:
        ctx.violation("R-FALSYZERO", f"{hfn.qual}::truth-test::{src}", tree.loc(node), f"`{unparse(node)[:60]}` is tested for truth, but it is `{src}`: 0 (S-wave / spin 0) is a value and must not be treated like None",
                      "use `is None`; with a truth test an L = 0 node gets the fallback angular momentum in its form factor")
    if not hazards:
        ctx.ok("R-FALSYZERO", tree.loc(tree.func(f"{HEL}::_generate_kinematic_variable_set").node), f"no truth test of an optional quantum number ({reads} reads of l/s magnitude and projection in ampform.helicity judged)")

    D.reset()
    te = decay_evaluator(tree)
    te.fork = True  # every path is judged: the L fallback is a branch
    fn = tree.func(f"{HEL}::_generate_kinematic_variable_set")
    fields = _record_fields(tree, VARIABLE_SET)
    res = te.eval_function(fn, [TRANSITION, NODE_ID])
    sets = []
    for val, conds in _paths(res):
        atom = te.single_atom(val) if isinstance(val, RF) else None
        info = te.apps.get(atom) if atom is not None else None
        if info is None or info.cls != "TwoBodyKinematicVariableSet" or tree.resolve(fn.module, ast.Name(id="TwoBodyKinematicVariableSet", ctx=ast.Load()), fn) != VARIABLE_SET:
            raise AnalysisError("_generate_kinematic_variable_set does not return a TwoBodyKinematicVariableSet(...)")
        if len(info.args) > len(fields):
            raise AnalysisError("TwoBodyKinematicVariableSet: more positional arguments than fields")
        sets.append(({**dict(zip(fields, info.args)), **info.kwargs}, conds))
    want = {
        "incoming_state_mass": sym("MASS"),
        "helicity_phi": sym("PHI"),
        "helicity_theta": sym("THETA"),
        "outgoing_state_mass1": sym("MASS1"),
        "outgoing_state_mass2": sym("MASS2"),
    }
    names = {"MASS": "invariant mass symbol of decay.parent", "MASS1": "invariant mass symbol of decay.children[0]", "MASS2": "invariant mass symbol of decay.children[1]",
             "PHI": "phi of decay.children[0]", "THETA": "theta of decay.children[0]"}

    def same(got, w) -> bool:
        """Three-valued: equal / a term that differs (or no such role at all) - a value that is no scalar term is undecided."""
        if got is None:
            return False
        try:
            term = te._rf(got)
        except AnalysisError as exc:
            raise AnalysisError(f"a role of the variable set does not evaluate to a scalar term ({got!r:.80}): {exc}") from None
        return equal(term, w)

    problems = []
    for roles, _ in sets:
        for k, w in want.items():
            if not same(roles.get(k), w):
                msg = f"{k} = {roles.get(k)!r} (expected the {names[te.single_atom(w)]})"
                if msg not in problems:
                    problems.append(msg)
    call = next((c for r in walk_function(fn.node) if isinstance(r, ast.Return) and r.value is not None for c in ast.walk(r.value) if isinstance(c, ast.Call)), fn.node)
    ctx.verdict(not problems, "R-TERM", f"{fn.qual}::roles", tree.loc(call),
                "variable set: incoming mass = invariant-mass symbol of decay.parent, angles = those of decay.children[0], daughter masses = invariant-mass symbols of children[0], children[1] of the same decay", problems or None)
    g = tree.func(f"{HEL}::_generate_kinematic_variables")
    gval = te.eval_function(g, [TRANSITION, NODE_ID])
    gpaths = list(_paths(gval))
    def triple(v):
        """the three items the value IS when read positionally (a tuple, or a NamedTuple record); None if it is no such value"""
        if isinstance(v, Tup):
            return list(v.items)
        try:
            return te._sequence(v, "returned value")
        except AnalysisError:
            return None

    triples = [triple(v) for v, _ in gpaths]
    if not gpaths or any(t is None or len(t) != 3 for t in triples):
        raise AnalysisError(f"{g.qual}: does not return a triple (mass, phi, theta) the rule can read: {[repr(v)[:80] for v, _ in gpaths]}")
    ok = all(all(same(x, sym(w)) for x, w in zip(t, ("MASS", "PHI", "THETA"))) for t in triples)
    gret = next((r for r in walk_function(g.node) if isinstance(r, ast.Return)), g.node)
    ctx.verdict(ok, "R-TERM", f"{g.qual}::roles", tree.loc(gret), "(mass, phi, theta) = (invariant mass of decay.parent, angle symbols of decay.children[0])", None if ok else [repr(v)[:200] for v, _ in gpaths])
    # angular momentum: on every path either the node's L, or the path is only taken when the node specifies none
    lmag = vkey(te.ev(ast.parse("decay.interaction.l_magnitude", mode="eval").body, {"decay": decay_value(te, tree)}))
    problems = []
    n_own = 0
    for roles, conds in sets:
        if "angular_momentum" not in roles:
            problems.append("angular_momentum is not passed")
            continue
        for lval, lconds in _paths(roles["angular_momentum"], conds):
            if vkey(lval) == lmag:
                n_own += 1
                continue
            if any(_holds_is_none(vkey(c), lmag) for c in lconds):
                continue  # a fallback for a node without L
            problems.append(f"a path passes {lval!r} although the transition specifies an L for the node (path conditions: {[repr(c)[:80] for c in lconds]})")
    if not n_own:
        problems.append("no path passes decay.interaction.l_magnitude")
    ctx.verdict(not problems, "R-TERM", f"{fn.qual}::angular-momentum", tree.loc(call),
                "angular_momentum = L of that node whenever the transition specifies one (fallbacks only under `is None`)", problems or None)


def check_builders_use_pool(ctx: Check, tree: Tree) -> None:
    """The library builders are read through their public behaviour: ``RelativisticBreitWignerBuilder.__call__`` under
    the flag combinations (form factor only / energy dependent width only / plain) and ``create_non_dynamic_with_ff``;
    the instance keys keep the names of the private helpers that produce these parts today."""
    D.reset()
    te = TermEval(tree)
    pool, resonance, self_struct = builder_env(te)
    M, m1, m2, L = pool["incoming_state_mass"], pool["outgoing_state_mass1"], pool["outgoing_state_mass2"], pool["angular_momentum"]
    cls = tree.cls(BUILDER)
    results = builder_results(te, tree, self_struct, resonance, pool)
    res_mass, res_width, radius = the_resonance_symbols(te, results)
    nd_ff = tree.func(f"{BLD}::create_non_dynamic_with_ff")
    nd_val = builder_pair(te.eval_function(nd_ff, [resonance, pool]), "create_non_dynamic_with_ff(resonance, variable_pool)")

    def loc(name: str) -> str:
        return tree.loc((cls.methods.get(name) or cls.methods["__call__"]).node)

    ff_roles = {"s": M**2, "m1": m1, "m2": m2, "angular_momentum": L}
    edw_roles = {"s": M**2, "m_a": m1, "m_b": m2, "angular_momentum": L}
    cases = [
        (nd_ff.qual, tree.loc(nd_ff.node), nd_val, "FormFactor", ff_roles),
        (f"{cls.qual}.__create_form_factor", loc("__create_form_factor"), results[False, True], "FormFactor", ff_roles),
        (f"{cls.qual}.__energy_dependent_breit_wigner", loc("__energy_dependent_breit_wigner"), results[True, False], "EnergyDependentWidth", edw_roles),
    ]
    for qual, where, (expr, defaults), cls_name, roles in cases:
        apps = [a for a in _deep_app_atoms(te, expr) if te.apps[a].cls.endswith(f"::{cls_name}")]
        problems = []
        if len(apps) != 1:
            problems.append(f"{len(apps)} applications of {cls_name}")
        else:
            info = te.apps[apps[0]]
            ecls = te.classes[info.cls]
            got = dict(zip([f.name for f in ecls.sympy_fields], info.args))
            for role, want in roles.items():
                if role not in got:
                    raise AnalysisError(f"vanished anchor: {cls_name} has no field `{role}`")
                if not equal(te._rf(got[role]), want):
                    problems.append(f"{role} = {got.get(role)!r} instead of {want!r}")
        ctx.verdict(not problems, "R-TERM", f"{qual}::pool-wiring", where,
                    f"{qual.split('::')[-1]}: {cls_name} receives s = incoming_state_mass^2, the two outgoing masses and variable_pool.angular_momentum", problems or None)
        check_defaults(ctx, tree, te, qual, where, defaults, res_mass, res_width, radius)
    check_defaults(ctx, tree, te, f"{cls.qual}.__simple_breit_wigner", loc("__simple_breit_wigner"), results[False, False][1], res_mass, res_width, radius)
    nd_fn = tree.func(f"{BLD}::create_non_dynamic")
    nd_expr, nd_defaults = builder_pair(te.eval_function(nd_fn, [resonance, pool]), "create_non_dynamic(resonance, variable_pool)")
    if not isinstance(nd_expr, (RF, int)):
        raise AnalysisError(f"create_non_dynamic: the expression evaluates to {type(nd_expr).__name__}")
    ok = equal(te._rf(nd_expr), RF.const(1)) and not nd_defaults.items
    ctx.verdict(ok, "R-TERM", f"{BLD}::create_non_dynamic", tree.loc(nd_fn.node), "create_non_dynamic returns (1, {}) - unassigned nodes leave the amplitude untouched",
                None if ok else repr((nd_expr, nd_defaults))[:200])


def _deep_app_atoms(te: TermEval, v) -> set:
    from ..terms import deep_atoms

    return {a for a in deep_atoms(te, v) if te.is_app(a) and a in te.apps}


def check_defaults(ctx: Check, tree: Tree, te: TermEval, qual: str, where: str, defaults: DictV, res_mass, res_width, radius) -> None:
    want = {
        repr(te._rf(res_mass).key()): ("mass", Opaque(("attr", ("resonance",), "mass"))),
        repr(te._rf(res_width).key()): ("width", Opaque(("attr", ("resonance",), "width"))),
        repr(te._rf(radius).key()): ("radius", RF.const(1)),
    }
    problems = []
    for k, v in defaults.items:
        kk = repr(te._rf(k).key())
        if kk not in want:
            problems.append(f"unexpected parameter {k!r}")
            continue
        role, w = want[kk]
        same = (isinstance(w, RF) and isinstance(v, RF) and equal(v, w)) or (isinstance(w, Opaque) and isinstance(v, Opaque) and v.key == w.key)
        if not same:
            problems.append(f"default of the {role} parameter is {v!r}, not {'resonance.' + role if role != 'radius' else '1'}")
    ctx.verdict(not problems, "R-DEFAULTS", f"{qual}::defaults", where,
                f"{qual.split('::')[-1]}: parameter defaults {{m_res: resonance.mass, Gamma_res: resonance.width, d_res: 1}} ({len(defaults.items)} entries)", problems or None)


def check_symbol_duplicates(ctx: Check, tree: Tree) -> None:
    sites = symbol_sites(tree, [BLD])
    groups: dict[str, list[dict]] = {}
    for s in sites:
        if s["skeleton"] is not None:
            groups.setdefault(s["skeleton"], []).append(s)
    # anchor: the three parameter symbols of a resonance (mass, width, meson radius) are constructed somewhere in
    # the module.  HOW OFTEN is not an anchor: a module that builds each of them at one site has no duplicates
    # that could disagree, which is the best case of this rule
    if len(groups) < 3:
        raise AnalysisError(f"only {len(groups)} distinct parameter symbols are constructed in dynamics/builder.py (mass, width, meson radius confirmed; {len(sites)} sites)")
    for skel, members in sorted(groups.items()):
        by_site = {id(m["node"]): m for m in members}  # (one entry per alternative name of a site)
        if len(by_site) < 2:
            continue
        unread = sorted({u for m in members for u in m.get("unread", [])})
        if unread:
            raise AnalysisError(f"symbol `{skel}`: the assumptions of a construction site could not be read ({unread[:3]})")
        sigs = {(m["kind"], tuple(sorted(m["assumptions"].items()))) for m in members}
        ctx.verdict(len(sigs) == 1, "R-DEFAULTS", f"{BLD}::symbol `{skel}`", tree.loc(members[0]["node"]),
                    f"symbol `{skel}`: {len(by_site)} construction sites in builder.py agree in kind and assumptions (equal-named parameters are one parameter)",
                    None if len(sigs) == 1 else [{"fn": m["fn"], "assumptions": m["assumptions"]} for m in members])
    # every builder names the parameters of a resonance the same way: over all public builders there is ONE mass symbol,
    # ONE width symbol and ONE meson-radius symbol (the names are read off the terms the builders produce, so helpers,
    # temporaries and the way the identifier is spliced into the name do not matter); two constructions of one name
    # that were evaluated agree in constructor and assumptions
    D.reset()
    te = TermEval(tree)
    pool, resonance, self_struct = builder_env(te)
    values = [x for pair in builder_results(te, tree, self_struct, resonance, pool).values() for x in pair]
    mod = tree.module(BLD)
    for name, st in mod.toplevel.items():
        if isinstance(st, ast.FunctionDef) and not name.startswith("_") and [a.arg for a in st.args.args] == ["resonance", "variable_pool"]:
            values += list(builder_pair(te.eval_function(tree.func(f"{BLD}::{name}"), [resonance, pool]), f"{name}(resonance, variable_pool)"))
    found = resonance_symbols(te, *values)
    several = {role: names for role, names in found.items() if len(names) > 1}
    disagree = {n: made for names in found.values() for n in names for made in [te.symbol_constructions.get(n, [])] if len({(k, tuple(sorted(a.items()))) for k, a in made}) > 1}
    ok = not several and not disagree
    ctx.verdict(ok, "R-DEFAULTS", f"{BLD}::identifier", BLD.replace(".", "/"),
                f"the resonance identifier is built the same way in every builder: {sorted(n for names in found.values() for n in names)}",
                None if ok else {"several symbols for one role": several, "constructions that disagree": {k: [a for _, a in v] for k, v in disagree.items()}})


# --------------------------------------------------------------------------- the selector, read by symbolic execution
# DynamicsSelector and HelicityAmplitudeBuilder.__formulate_dynamics are executed symbolically (sa/symex.py): helper
# methods and module-level generator functions are inlined, comprehensions / loops / `map` / `dict.fromkeys` give the
# same values, and the rules read the EFFECTS - which (key, value) pairs reach the store under which ranges and
# conditions, which value is returned on which path.  A fully followed value that breaks the condition is a
# VIOLATION; anything the execution or this reading cannot interpret is an ANALYSIS-ERROR.

SELECTOR = f"{HEL}::DynamicsSelector"
SEL_ATOMS = frozenset({"assign", "TwoBodyDecay.create", "create", "from_transition", "_perform_combinatorics", "_freeze", "_generate_kinematic_variable_set"})
SEL_KNOWN = ("assign", "TwoBodyDecay.create", "TwoBodyDecay.from_transition", "_perform_combinatorics", "_freeze", "_generate_kinematic_variable_set", "create_non_dynamic")
SELF = ("param", "self")


def _norm(v):
    """``_same_self`` + collected iterations flattened (``symex.flatten_each``)."""
    return flatten_each(_same_self(v))


def _self_attr(v) -> str | None:
    """``"__choices"`` for the value of ``self.__choices``."""
    return v[2] if isinstance(v, tuple) and len(v) == 3 and v[0] == "attr" and v[1] == SELF else None


def _view_of(v) -> str | None:
    """The attribute of ``self`` whose keys ``v`` enumerates completely: ``self.S``, ``self.S.keys()``, ``list(self.S)`` ..."""
    while isinstance(v, tuple) and v and v[0] == "call":
        f = v[1]
        if f[0] == "builtin" and f[1] in {"list", "tuple", "iter", "sorted", "set", "frozenset"} and len(v[2]) == 1:
            v = v[2][0]
        elif f[0] == "attr" and f[2] in {"keys", "copy"} and not v[2]:
            v = f[1]
        else:
            return None
    return _self_attr(v)


class Effect:
    """One write into a mapping attribute of ``self``: ``self.<store>[key] = value`` for all ``ranges`` under ``pc``."""

    def __init__(self, store, key, value, pc, ranges, loops, text) -> None:
        self.store, self.key, self.value, self.pc, self.ranges, self.loops, self.text = store, key, value, pc, ranges, loops, text


class MethodRun:
    """The symbolic execution of one method of the selector: writes, delegations to ``assign``, returned value."""

    def __init__(self, tree: Tree, fn, atoms=SEL_ATOMS) -> None:
        self.fn = fn
        sx = SymEx(tree, atoms=atoms, inline_depth=6)
        ret, final = sx.run(fn)
        self.sx = sx
        self.ret = _norm(ret)
        self.raises = final.status == "raise"
        self.effects: list[Effect] = []
        self.rebinds: list[tuple] = []  # (attribute, value) of `self.attr = value`
        self.mutations: list[str] = []  # other in-place modifications of attributes of self: (attribute, text)
        self.delegations: list[tuple] = []  # (pc, loops, call value) of self.assign(...)
        by_uid = {info.uid: info for info in sx.loops.values()}
        for ev in sx.events:
            kind, pc, ctx_loops = ev[0], _norm(ev[1]) if ev[1] else (), ev[-1]
            infos = [by_uid.get(u) for u in ctx_loops]
            if kind == "store":
                target, value = _norm(ev[2]), _norm(ev[3])
                if target[0] == "sub" and _self_mapping_path(target[1]):
                    self._add(_path_name(target[1]), target[2], value, pc, infos, show(target)[:80], mapping=target[1])
                elif _self_attr(target):
                    self.rebinds.append((_self_attr(target), value))
                    if value[0] == "dictcomp" and all(unwrap(x)[2][0] == "tuple" and len(unwrap(x)[2][1]) == 2 for x in value[1]):
                        for item in value[1]:
                            eaches, pcs, pair = unwrap(item)
                            self._add(_self_attr(target), pair[1][0], pair[1][1], pc + pcs, infos, show(target)[:80], extra=eaches)
                    elif value[0] == "dict":
                        for k, x in value[1]:
                            if k[0] == "star":
                                self.mutations.append((_self_attr(target), f"`{show(value)[:60]}`"))
                                continue
                            eaches, pcs, key = unwrap(k)
                            self._add(_self_attr(target), key, x, pc + pcs, infos, show(target)[:80], extra=eaches)
                    elif not (value[0] == "call" and value[1] in {("builtin", "dict")} and not value[2]):
                        self.mutations.append((_self_attr(target), f"`{show(target)[:40]} = {show(value)[:60]}`"))
            elif kind == "call":
                v = _norm(ev[2])
                f = v[1]
                if f[0] == "method" and f[1].endswith(".assign"):
                    self.delegations.append((pc, infos, v))
                elif f[0] == "attr" and _self_attr(f[1]) and f[2] in {"update", "setdefault", "pop", "clear", "popitem", "__setitem__", "__delitem__"}:
                    attr = _self_attr(f[1])
                    arg = v[2][0] if len(v[2]) == 1 and not v[3] else None
                    if f[2] == "update" and isinstance(arg, tuple) and arg and arg[0] == "dict" and not any(k[0] == "star" for k, _ in arg[1]):
                        for k, x in arg[1]:
                            eaches, pcs, key = unwrap(k)
                            self._add(attr, key, x, pc + pcs, infos, show(v)[:80], extra=eaches)
                    elif f[2] == "update" and isinstance(arg, tuple) and arg and arg[0] in {"list", "tuple"} and arg[1] and all(
                            unwrap(x)[2][0] == "tuple" and len(unwrap(x)[2][1]) == 2 for x in arg[1]):
                        # `m.update((k, v) for ...)`: the entries of the pairs
                        for item in arg[1]:
                            eaches, pcs, pair = unwrap(item)
                            self._add(attr, pair[1][0], pair[1][1], pc + pcs, infos, show(v)[:80], extra=eaches)
                    elif f[2] == "__setitem__" and len(v[2]) == 2:
                        self._add(attr, v[2][0], v[2][1], pc, infos, show(v)[:80])
                    else:
                        self.mutations.append((attr, f"`{show(v)[:80]}`"))
        for x in subterms(self.ret):
            if x[0] == "call" and x[1][0] == "method" and x[1][1].endswith(".assign"):
                self.delegations.append(((), [], x))

    def _add(self, store, key, value, pc, infos, text, extra=(), mapping=None) -> None:
        if any(i is None or i.each is None for i in infos):
            self.mutations.append((store, f"{text} inside a `while` loop"))
            return
        raw = [_same_self(i.each) for i in infos] + [_same_self(e) for e in extra]
        ranges, conds = expand_ranges(raw)
        key, value = _norm(key), _norm(value)
        # "the collection is not empty" is implied by an iteration over that very collection
        implied = {_norm(e[1]) for e in raw}
        pc = tuple((t, o) for t, o in pc if not (o is True and t in implied)) + conds
        for e in free_eaches(("tuple", (key, value, pc))):
            if e not in ranges:
                ranges += (e,)
        eff = Effect(store, key, value, pc, ranges, [i for i in infos], text)
        eff.mapping = mapping if mapping is not None else ("attr", SELF, store)
        self.effects.append(eff)

    def leaves_loops_early(self) -> list[str]:
        """`break` / `return` statements inside the loops that carry a write (a match stops the iteration)."""
        from .c02 import early_exits

        eaches = [r for eff in self.effects for r in eff.ranges] + [_same_self(i.each) for eff in self.effects for i in eff.loops]
        return early_exits(self.sx, eaches)


def selector_overloads(tree: Tree, cls) -> tuple:
    """(base method, {type name: FuncInfo}) of the singledispatchmethod ``assign``: registrations by argument
    (``@assign.register(T)``) or by the annotation of the first parameter (``@assign.register``)."""
    base = None
    impls: dict[str, object] = {}
    for st in cls.node.body:
        if not isinstance(st, ast.FunctionDef):
            continue
        for dec in st.decorator_list:
            target = dec.func if isinstance(dec, ast.Call) else dec
            resolved = tree.resolve(cls.module, target) or unparse(target)
            if st.name == "assign" and resolved.split(".")[-1] == "singledispatchmethod":
                base = st
            if isinstance(target, ast.Attribute) and target.attr == "register" and isinstance(target.value, ast.Name) and target.value.id == "assign":
                types = list(dec.args) if isinstance(dec, ast.Call) else []
                if not types:
                    params = [a for a in st.args.args[1:2] if a.annotation is not None]
                    types = [params[0].annotation] if params else []
                    if types and isinstance(types[0], ast.Constant) and isinstance(types[0].value, str):
                        types = [ast.parse(types[0].value, mode="eval").body]
                if not types:
                    raise AnalysisError(f"DynamicsSelector: `{unparse(dec)}` registers an overload whose type cannot be read")
                for t in types:
                    for alt in (t.elts if isinstance(t, ast.Tuple) else [t.left, t.right] if isinstance(t, ast.BinOp) and isinstance(t.op, ast.BitOr) else [t]):
                        impls[unparse(alt).split(".")[-1]] = tree.func_of(st)
    return base, impls


def _isinstance_types(t, sel):
    """The type names of ``isinstance(<sel>, T)`` / ``isinstance(<sel>, (T1, T2))`` if ``t`` is such a test, else None."""
    if not (isinstance(t, tuple) and t and t[0] == "call" and t[1] == ("builtin", "isinstance") and len(t[2]) == 2 and t[2][0] == sel and not t[3]):
        return None
    spec = t[2][1]
    names = []
    for x in (spec[1] if spec[0] == "tuple" else (spec,)):
        if x[0] in {"global", "builtin"} and isinstance(x[1], str):
            names.append(x[1].split("::")[-1].split(".")[-1])
        else:
            return None
    return names


class TypedRun:
    """The part of one run of ``assign(self, selection, builder)`` that applies when ``selection`` is an instance of ONE of
    the (pairwise unrelated) selection types - an isinstance chain instead of singledispatch: the writes and delegations
    whose path condition is consistent with that type, without the isinstance tests."""

    def __init__(self, run: MethodRun, sel, type_name: str | None) -> None:
        self.fn, self.sx, self.rebinds, self.mutations, self.ret = run.fn, run.sx, run.rebinds, run.mutations, run.ret
        self.raises = False
        self.tested = False
        self._sel, self._type = sel, type_name
        self.effects = []
        for e in run.effects:
            pc = self.strip(e.pc)
            if pc is not None:
                eff = Effect(e.store, e.key, e.value, pc, e.ranges, e.loops, e.text)
                eff.mapping = e.mapping
                self.effects.append(eff)
        self.delegations = [(pc2, loops, d) for pc, loops, d in run.delegations for pc2 in [self.strip(pc)] if pc2 is not None]
        self._run = run

    def strip(self, pc):
        out = []
        for t, o in pc:
            names = _isinstance_types(t, self._sel)
            if names is None:
                out.append((t, o))
                continue
            self.tested = True
            if (self._type in names) != o:
                return None
        return tuple(out)

    def leaves_loops_early(self) -> list[str]:
        from .c02 import early_exits

        return early_exits(self.sx, [r for eff in self.effects for r in eff.ranges] + [_same_self(i.each) for eff in self.effects for i in eff.loops])


def _isinstance_overloads(tree: Tree, cls, want: set) -> tuple:
    """(method, {type: TypedRun}, fallback raises?) for an ``assign`` that dispatches by an isinstance chain."""
    m = cls.methods.get("assign")
    if m is None or len(m.params) < 3:
        raise AnalysisError("vanished anchor: DynamicsSelector.assign(self, selection, builder)")
    run = MethodRun(tree, m)
    sel = ("param", m.params[1])
    tests = {tuple(names) for ev in run.sx.events for t, _ in _norm(ev[1]) for names in [_isinstance_types(t, sel)] if names}
    tests |= {tuple(names) for e in run.effects for t, _ in e.pc for names in [_isinstance_types(t, sel)] if names}
    tests |= {tuple(names) for pc, _, _ in run.delegations for t, _ in pc for names in [_isinstance_types(t, sel)] if names}
    if not tests:
        raise AnalysisError("vanished anchor: DynamicsSelector.assign is neither a singledispatchmethod nor an isinstance chain over its selection")
    typed = {}
    for t in sorted({n for names in tests for n in names}):
        view = TypedRun(run, sel, t)
        raised = any(ev[0] == "raise" and view.strip(_norm(ev[1])) is not None for ev in run.sx.events)
        if (view.effects or view.delegations) and not raised:
            typed[t] = view
    other = TypedRun(run, sel, None)  # a selection of none of the tested types
    fallback = any(ev[0] == "raise" and other.strip(_norm(ev[1])) == () for ev in run.sx.events) and not other.effects and not other.delegations
    return m, typed, fallback


def _store_name(tree: Tree, cls) -> str:
    """The mapping attribute that ``__getitem__`` reads (the store of the selector)."""
    getitem = cls.methods.get("__getitem__")
    if getitem is None:
        raise AnalysisError("vanished anchor: DynamicsSelector.__getitem__")
    run = MethodRun(tree, getitem)
    names = {_self_attr(v[1]) for _, v in alternatives(run.ret) if v[0] == "sub" and _self_attr(v[1])}
    if len(names) != 1:
        raise AnalysisError(f"DynamicsSelector.__getitem__ does not read one mapping attribute of self (found {sorted(n for n in names if n)})")
    return next(iter(names))


def _problem_or_undecided(value, known, message: str, problems: list) -> None:
    why = not_followed(value, known)
    if why:
        raise AnalysisError(f"{message}: cannot decide ({why})")
    problems.append(message)


def check_dispatch(ctx: Check, tree: Tree) -> None:
    cls = tree.cls(SELECTOR)
    base, impls = selector_overloads(tree, cls)
    want = {"TwoBodyDecay", "tuple", "str", "Particle"}
    if base is None:
        # no singledispatch: one method that tells the selection types apart with isinstance - read per type
        method, runs, fallback = _isinstance_overloads(tree, cls, want)
        base = method.node
        impls = {t: method for t in runs}
        fallback_imprecise = method and not fallback and runs and next(iter(runs.values())).sx.imprecise
    else:
        base_run = MethodRun(tree, tree.func_of(base))
        fallback, fallback_imprecise = base_run.raises, base_run.sx.imprecise
        runs = {t: MethodRun(tree, fn) for t, fn in impls.items()}
    missing = sorted(want - set(impls))
    ctx.verdict(not missing, "R-DISPATCH", f"{cls.qual}.assign::registry", tree.loc(base), f"assign() is registered for {sorted(impls)}", None if not missing else f"not registered: {missing}")
    if not fallback and fallback_imprecise:
        raise AnalysisError(f"DynamicsSelector.assign (fallback): {fallback_imprecise[0]}")
    ctx.verdict(fallback, "R-DISPATCH", f"{cls.qual}.assign::fallback-raises", tree.loc(base), "unsupported selection types raise instead of being ignored")
    store = _store_name(tree, cls)
    for t, fn in impls.items():
        run = runs[t]
        params = fn.params
        if len(params) < 3:
            raise AnalysisError(f"assign[{t}] does not have the parameters (self, selection, builder)")
        sel, builder = ("param", params[1]), ("param", params[2])
        effects = [e for e in run.effects if e.store == store]
        problems: list[str] = []
        unread = [m for a, m in run.mutations if a == store]
        if unread:
            raise AnalysisError(f"assign[{t}] modifies the store in a way the rule cannot read: {unread[0]}")
        if not effects and not run.delegations:
            if run.sx.imprecise:
                raise AnalysisError(f"assign[{t}]: {run.sx.imprecise[0]}")
            problems.append("neither stores into the choices nor delegates to another implementation")
        for e in effects:
            if e.value != builder:
                _problem_or_undecided(e.value, SEL_KNOWN, f"stores `{show(e.value)[:60]}` instead of the given builder", problems)
        for pc, loops, d in run.delegations:
            args = d[2]
            if len(args) != 2 or args[1] != builder:
                _problem_or_undecided(d, SEL_KNOWN, f"delegation `{show(d)[:80]}` does not pass the builder on", problems)
        if t == "TwoBodyDecay":
            # "one specific decay": exactly the given key is written - no search over the registered keys
            exact = [e for e in effects if e.key == sel and not e.ranges and not e.pc]
            if len(effects) != 1 or len(exact) != 1:
                if run.delegations and not effects:
                    raise AnalysisError("assign[TwoBodyDecay] delegates instead of storing: not read")
                for e in effects:
                    if e.ranges:
                        problems.append(f"searches the registered decays (`{e.text}` for every element of `{show(e.ranges[0][1])[:50]}`): a selection of ONE decay can then change several nodes (e.g. all helicity combinations of the node)")
                    elif e.key != sel:
                        _problem_or_undecided(e.key, SEL_KNOWN, f"does not store under exactly the given decay `{params[1]}` but under `{show(e.key)[:60]}`", problems)
                    elif e.pc:
                        problems.append(f"stores the builder only when `{show_pc(e.pc)[:80]}`")
                if not problems:
                    problems.append(f"does not store under exactly the given decay `{params[1]}` ({[e.text for e in effects]})")
        ctx.verdict(not problems, "R-DISPATCH", f"{cls.qual}.assign[{t}]::reaches-store", tree.loc(fn.node),
                    f"assign[{t}] ends in the single store of the given builder ({'direct' if effects else 'delegating'})", sorted(set(problems)) or None)
    # by name: every registered decay whose parent particle has that name gets the builder - and no other
    if "str" in impls:
        fn, run = impls["str"], runs["str"]
        problems = _selection_by_name(run, store, ("param", fn.params[1]))
        ctx.verdict(not problems, "R-DISPATCH", f"{cls.qual}.assign[str]::by-parent-name", tree.loc(fn.node), "assign[str]: every decay whose parent particle has that name gets the builder", problems or None)
    if "Particle" in impls:
        fn, run = impls["Particle"], runs["Particle"]
        sel = ("param", fn.params[1])
        by_name = [d for _, _, d in run.delegations if d[2] and d[2][0] == ("attr", sel, "name")]
        ok = len(by_name) == 1 and len(run.delegations) == 1 and not run.delegations[0][0]
        if not ok:
            direct = _selection_by_name(run, store, ("attr", sel, "name")) if [e for e in run.effects if e.store == store] else None
            if direct == []:
                ok = True
            elif run.delegations and not_followed(("tuple", tuple(d for _, _, d in run.delegations)), SEL_KNOWN):
                raise AnalysisError("assign[Particle]: the delegation is not read")
        ctx.verdict(ok, "R-DISPATCH", f"{cls.qual}.assign[Particle]::by-name", tree.loc(fn.node), "assign[Particle] selects by the particle's name",
                    None if ok else [show(d)[:80] for _, _, d in run.delegations])
    if "tuple" in impls:
        fn, run = impls["tuple"], runs["tuple"]
        sel = ("param", fn.params[1])

        def is_decay_of(v) -> bool:
            if v[0] != "call":
                return False
            name = func_name(v)
            if name.endswith("TwoBodyDecay.create") and v[2] == (sel,):
                return True
            return name.endswith("from_transition") and (v[2] == (("star", sel),) or v[2] == (("item", sel, 0), ("item", sel, 1)) or v[2] == (("sub", sel, ("const", 0)), ("sub", sel, ("const", 1))))

        targets = [d[2][0] for _, _, d in run.delegations if d[2]] + [e.key for e in run.effects if e.store == store]
        ok = bool(targets) and all(is_decay_of(x) for x in targets)
        if not ok and (not targets or any(not_followed(x, SEL_KNOWN) for x in targets)):
            raise AnalysisError("assign[tuple]: the selection that is stored / delegated is not read")
        ctx.verdict(ok, "R-DISPATCH", f"{cls.qual}.assign[tuple]::creates-decay", tree.loc(fn.node), "assign[(transition, node)] converts to the TwoBodyDecay of exactly that node",
                    None if ok else [show(x)[:80] for x in targets])
    # __init__ registers every node of every transition with the neutral builder
    init = cls.methods.get("__init__")
    if init is None:
        raise AnalysisError("vanished anchor: DynamicsSelector.__init__")
    run = MethodRun(tree, init)
    why = _registers_all_nodes(run, store, init)
    ctx.verdict(not why, "R-DISPATCH", f"{cls.qual}.__init__::all-nodes", tree.loc(init.node), "every node of every (also permuted) transition starts with create_non_dynamic", why or None)


def _registrations(run: MethodRun, store: str) -> list:
    """The writes of ``__init__`` that register ``create_non_dynamic`` under a decay key."""
    unread = [m for a, m in run.mutations if a == store]
    if unread:
        raise AnalysisError(f"DynamicsSelector.__init__ fills the store in a way the rule cannot read: {unread[0]}")
    return [e for e in run.effects if e.store == store and e.value[0] == "global" and e.value[1].endswith("create_non_dynamic")]


def _registers_all_nodes(run: MethodRun, store: str, init) -> list[str]:
    regs = _registrations(run, store)
    if not regs:
        if run.sx.imprecise or [e for e in run.effects if e.store == store]:
            raise AnalysisError("DynamicsSelector.__init__: no registration of create_non_dynamic under a decay key was read")
        return ["no decay is registered with create_non_dynamic"]
    source = ("param", init.params[1]) if len(init.params) > 1 else None
    why: list[str] = []
    good = 0
    for e in regs:
        here: list[str] = []
        key = e.key
        if not (key[0] == "call" and func_name(key).endswith("from_transition") and len(key[2]) == 2 and not key[3]):
            w = not_followed(key, SEL_KNOWN)
            if w:
                raise AnalysisError(f"DynamicsSelector.__init__: the registered key is not read ({w})")
            here.append(f"key `{show(key)[:60]}` is not TwoBodyDecay.from_transition(transition, node)")
            why += here
            continue
        t_arg, n_arg = key[2]
        node_range = next((r for r in e.ranges if r == n_arg), None)
        if node_range is None:
            here.append(f"the node `{show(n_arg)[:40]}` does not range over the nodes of the transition")
        else:
            base = node_range[1]
            while (base[0] == "call" and base[1][0] == "builtin" and base[1][1] in {"list", "tuple", "sorted", "iter", "reversed"} and base[2]) or (base[0] == "sub" and base[2][0] == "slice"):
                base = base[2][0] if base[0] == "call" else base[1]
            if base != ("attr", ("attr", t_arg, "topology"), "nodes"):
                w = not_followed(base, SEL_KNOWN)
                if w:
                    raise AnalysisError(f"DynamicsSelector.__init__: the range of the node is not read ({w})")
                here.append(f"the node ranges over `{show(base)[:60]}`, not over all nodes of that transition's topology")
        for r in e.ranges:
            ok, w = whole_collection(r[1])
            if ok is False:
                here.append(f"the registration does not run for every element: {w}")
            elif ok is None:
                raise AnalysisError(f"DynamicsSelector.__init__: cannot decide whether the registration runs over a whole collection: {w}")
        if e.pc:
            here.append(f"the registration is conditional (`{show_pc(e.pc)[:80]}`)")
        if source is not None and not contains(t_arg, source):
            here.append("the registered transition does not derive from the constructor argument")
        early = [x for x in run.leaves_loops_early()]
        if early:
            here.append(f"the registration loop is left early ({early[0]})")
        for info in e.loops:
            if any(isinstance(n, ast.Continue) for n in ast.walk(info.node)) and not e.pc:
                raise AnalysisError("DynamicsSelector.__init__: `continue` inside the registration loop is not read")
        if not here:
            good += 1
        why += here
    return [] if good and not why else sorted(set(why)) or ["no complete registration"]


def _selection_by_name(run: MethodRun, store: str, name_value) -> list[str]:
    """assign[str]: the decays that get the builder are exactly {d in store : d.parent.particle.name == <name>}:
    one write, for every registered decay d, under the key d, on exactly that condition."""
    effects = [e for e in run.effects if e.store == store]
    if len(effects) != 1:
        if run.sx.imprecise:
            raise AnalysisError(f"assign[str]: {run.sx.imprecise[0]}")
        return [f"{len(effects)} stores into the choices (one expected)"]
    e = effects[0]
    problems: list[str] = []
    decays = [r for r in e.ranges if _view_of(r[1]) == store or _view_of(_strip_partial(r[1])) == store]
    if len(decays) != 1 or len(e.ranges) != 1:
        if not e.ranges:
            return ["does not iterate all registered decays"]
        other = [r for r in e.ranges if r not in decays]
        w = not_followed(("tuple", tuple(r[1] for r in other)), SEL_KNOWN) if other else None
        if w or len(decays) > 1:
            raise AnalysisError(f"assign[str]: the range of the selection is not read ({w or 'several ranges over the store'})")
        if not decays:
            return ["does not iterate all registered decays"]
        problems.append("the store sits in a nested loop")
    d = decays[0]
    ok, w = whole_collection(d[1])
    if ok is False:
        problems.append(f"does not iterate all registered decays: {w}")
    elif ok is None:
        raise AnalysisError(f"assign[str]: cannot decide whether all registered decays are visited: {w}")
    if e.key != d:
        if contains(e.key, d) or not_followed(e.key, SEL_KNOWN) is None:
            problems.append("stores under a key other than the iterated decay")
        else:
            raise AnalysisError("assign[str]: the key of the store is not read")
    early = run.leaves_loops_early()
    if early:
        problems.append(f"stops at the first match (other chains with the same resonance keep their old builder): {early[0]}")
    want = ("attr", ("attr", ("attr", d, "parent"), "particle"), "name")
    n_name = 0
    if not e.pc:
        problems.append("no name comparison")
    for t, outcome in e.pc:
        atoms = [(t, outcome)]
        if t[0] == "and" and outcome:
            atoms = [normal_test(x) for x in t[1]]
        for a, o in atoms:
            sides = (a[2], a[3]) if a[0] == "cmp" and a[1] == "==" else None
            if sides and set(sides) == {want, name_value}:
                if o:
                    n_name += 1
                else:
                    problems.append(f"condition `{show(a)[:80]}` must NOT hold: the decays with another parent are selected")
                continue
            w = not_followed(a, SEL_KNOWN)
            if w:
                raise AnalysisError(f"assign[str]: a condition of the selection is not read ({w})")
            if any(x[0] == "attr" and x[2] == "children" and contains(x, d) for x in subterms(a)):
                problems.append("selection looks at the children")
            problems.append(f"condition `{show(a)[:80]}` ({'must hold' if o else 'must not hold'}): selection is not by the parent particle's name alone")
    if e.pc and not n_name and not any("selection is not by" in p or "must NOT hold" in p for p in problems):
        problems.append("no name comparison")
    return sorted(set(problems))


def _strip_partial(v):
    while isinstance(v, tuple) and v and v[0] == "sub" and isinstance(v[2], tuple) and v[2] and v[2][0] == "slice":
        v = v[1]
    return v


def normal_test(t):
    from ..symex import normal

    return normal(t)


def check_same_decay(ctx: Check, tree: Tree) -> None:
    fn = tree.func(f"{HEL}::HelicityAmplitudeBuilder.__formulate_dynamics")
    if len(fn.params) < 3:
        raise AnalysisError("__formulate_dynamics does not have the parameters (self, transition, node_id)")
    run = MethodRun(tree, fn)
    t_par, n_par = ("param", fn.params[1]), ("param", fn.params[2])
    key = fn.qual

    def is_decay(v) -> bool:
        """The TwoBodyDecay of (transition, node_id) - or the pair itself, which the selector converts."""
        if v == ("tuple", (t_par, n_par)):
            return True
        if v[0] == "call" and func_name(v).endswith("from_transition") and v[2] == (t_par, n_par) and not v[3]:
            return True
        return v[0] == "call" and func_name(v).endswith("TwoBodyDecay.create") and v[2] == (("tuple", (t_par, n_par)),)

    def is_selector(v) -> bool:
        return isinstance(v, tuple) and len(v) == 3 and v[0] == "attr" and v[1] == SELF and "dynamics" in v[2]

    def lookup_key(v):
        """The key if ``v`` is the builder looked up in the selector (``self.dynamics[k]`` / ``.get(k[, default])``)."""
        if v[0] == "sub" and is_selector(v[1]):
            return v[2]
        if v[0] == "call" and v[1][0] == "attr" and v[1][2] == "get" and is_selector(v[1][1]) and 1 <= len(v[2]) <= 2:
            return v[2][0]
        return None

    def builder_call(v):
        """The call ``<builder from the selector>(...)`` whose first element ``v`` is."""
        c = None
        if v[0] == "item" and v[2] == 0:
            c = v[1]
        elif v[0] == "sub" and v[2] == ("const", 0):
            c = v[1]
        if c is not None and c[0] == "call" and lookup_key(c[1]) is not None:
            return c
        return None

    def feasible(v):
        """The phi-free cases of a value, without those that call None (a builder that was not found)."""
        return [(p, x) for p, x in cases(v) if not any(y[0] == "call" and y[1] == ("const", None) for y in subterms(x))]

    alts = [(pc + p, x) for pc, v in alternatives(run.ret) for p, x in feasible(v)]
    calls, neutral, memo, other = [], [], [], []
    for pc, v in alts:
        if as_number(v) == 1:
            neutral.append((pc, v))
        elif builder_call(v) is not None:
            calls.append((pc, builder_call(v)))
        elif v[0] in {"item", "sub"} and v[1][0] == "sub" and _self_mapping_path(v[1][1]) and (v[2] == 0 or v[2] == ("const", 0)):
            memo.append((pc, v[1]))
        elif v[0] == "sub" and _self_mapping_path(v[1]):
            memo.append((pc, v))
        else:
            other.append((pc, v))
    # every builder call anywhere in the function (also those that only fill a memo)
    all_calls = [c for c in {x for src in [run.ret, *[e.value for e in run.effects]] for _, val in feasible(src) for x in subterms(val) if x[0] == "call" and lookup_key(x[1]) is not None}]
    if not all_calls:
        w = not_followed(run.ret, SEL_KNOWN) or (run.sx.imprecise[0] if run.sx.imprecise else None)
        raise AnalysisError("__formulate_dynamics: expected one call of the builder looked up in self.dynamics[...]" + (f" ({w})" if w else ""))
    # ---- the neutral result 1 is only returned for a decay the selector does not know
    lookups = {lookup_key(c[1]) for c in all_calls}
    for pc, v in neutral:
        ok_g = _unknown_decay_guard(pc, is_decay, is_selector, fn)
        if not ok_g:
            w = not_followed(("tuple", tuple(t for t, _ in pc)), SEL_KNOWN)
            if w:
                raise AnalysisError(f"__formulate_dynamics: the condition of `return 1` is not read ({w})")
        ctx.verdict(ok_g, "R-SAMEDECAY", f"{key}::neutral-only-for-unknown-decay", tree.loc(fn.node),
                    "`return 1` (no dynamics) is only reached when the decay is not a key of the selector",
                    None if ok_g else {"guards": show_pc(pc)[:200]})
    # ---- must-pass-through: every path that returns a lineshape executes the call of THIS node's builder,
    # unless the value comes out of a memo whose key determines the call and that is part of the per-call scratch state
    skipped = []
    for pc, entry in memo:
        mapping, mkey = entry[1], entry[2]
        elements = list(mkey[1]) if mkey[0] == "tuple" else [mkey]
        filled = [e for e in run.effects if e.mapping == mapping]
        fills = [e for e in filled if e.key == mkey and (e.value in all_calls or builder_call(e.value) is not None or (e.value[0] == "item" and e.value[1] in all_calls))]
        if not fills:
            w = not_followed(entry, SEL_KNOWN)
            if w or filled:
                raise AnalysisError(f"__formulate_dynamics: the memo `{show(mapping)[:50]}` is filled in a way the rule cannot read")
            skipped.append(f"`{show(entry)[:80]}` is returned without calling the builder")
            continue
        call = fills[0].value if fills[0].value in all_calls else (builder_call(fills[0].value) or fills[0].value[1])
        by_decay = any(is_decay(x) for x in elements)
        by_call = call[1] in elements and all(a in elements for a in call[2])
        if not (by_decay or by_call):
            skipped.append(f"the memo key `{show(mkey)[:100]}` does not determine the call `{show(call)[:80]}`: a lineshape formulated for another decay / by another builder is reused")
        elif not _reset_clears(tree, mapping[2]):
            skipped.append(f"the memo `{show(mapping)[:50]}` is not re-initialised by reset(): lineshapes of an earlier formulate() call are reused")
    for pc, v in other:
        w = not_followed(v, SEL_KNOWN)
        if w:
            raise AnalysisError(f"__formulate_dynamics: a returned value is not read ({w})")
    ctx.verdict(not skipped, "R-SAMEDECAY", f"{key}::builder-called-on-every-path", tree.loc(fn.node),
                "every path of __formulate_dynamics that returns a lineshape calls the builder assigned to THIS decay (or reads a memo keyed by that builder / decay)",
                skipped or None)
    # ---- builder = dynamics[decay(transition, node)], called with that decay's parent particle and the variable set of the same node
    problems = []
    for c in all_calls:
        k = lookup_key(c[1])
        if not is_decay(k):
            _problem_or_undecided(k, SEL_KNOWN, f"builder looked up with {show(k)[:80]}", problems)
        args = list(c[2])
        kw = dict(c[3])
        if len(args) + len(kw) != 2 or any(a[0] == "star" for a in args):
            spread = args[0][1] if len(args) == 1 and args[0][0] == "star" and args[0][1][0] == "tuple" and len(args[0][1][1]) == 2 else None
            if spread is None:
                raise AnalysisError(f"__formulate_dynamics: builder call `{show(c)[:80]}` does not pass (resonance, variable set) in a form the rule reads")
            args = list(spread[1])
        names = iter([n for n in ("resonance", "variable_pool") if n in kw])
        res = args[0] if args else kw.get("resonance")
        var = args[1] if len(args) > 1 else kw.get("variable_pool")
        if res is None or var is None:
            raise AnalysisError(f"__formulate_dynamics: builder call `{show(c)[:80]}`: arguments are not read")
        if not (res[0] == "attr" and res[2] == "particle" and res[1][0] == "attr" and res[1][2] == "parent" and is_decay(res[1][1]) and res[1][1][0] == "call"):
            _problem_or_undecided(res, SEL_KNOWN, f"resonance argument is {show(res)[:80]}", problems)
        if not (var[0] == "call" and func_name(var).endswith("_generate_kinematic_variable_set") and var[2] == (t_par, n_par) and not var[3]):
            _problem_or_undecided(var, SEL_KNOWN, f"variable set is {show(var)[:80]}", problems)
    ctx.verdict(not problems, "R-SAMEDECAY", f"{key}::same-node", tree.loc(fn.node),
                "__formulate_dynamics: builder = dynamics[decay(transition, node)], called with that decay's parent particle and the variable set of the same (transition, node)", sorted(set(problems)) or None)
    kinds = []
    for pc, v in other:
        kinds.append(show(v)[:80])
    if not neutral and not calls and not memo:
        kinds.append("no path returns the builder's expression")
    ok = not kinds and bool(calls or memo)
    ctx.verdict(ok, "R-SAMEDECAY", f"{key}::returns", tree.loc(fn.node), "returns the builder's expression (or 1 for an unknown decay)", None if ok else kinds)
    # the expression multiplies the Wigner-D of the same node
    pd = tree.func(f"{HEL}::HelicityAmplitudeBuilder._formulate_partial_decay")
    prun = MethodRun(tree, pd, atoms=frozenset({"formulate_isobar_wigner_d", "__formulate_dynamics", "__generate_helicity_coupling"}))
    mine = tuple(("param", p) for p in pd.params[1:3])
    bad = []
    for pc, v in alternatives(prun.ret):
        for name in ("formulate_isobar_wigner_d", "__formulate_dynamics"):
            hits = calls_of(v, name)
            if not hits:
                w = not_followed(v, (*SEL_KNOWN, "formulate_isobar_wigner_d", "__formulate_dynamics", "__generate_helicity_coupling"))
                if w:
                    raise AnalysisError(f"_formulate_partial_decay: the returned value is not read ({w})")
                bad.append(f"`{show(v)[:80]}` does not contain {name}(transition, node_id)")
            elif any(tuple(h[2][:2]) != mine or h[3] for h in hits):
                bad.append(f"`{show(hits[0])[:80]}` is not formulated for the (transition, node) of the call")
    ctx.verdict(not bad, "R-SAMEDECAY", f"{pd.qual}::same-node", tree.loc(pd.node), "the dynamics of (transition, node) multiply the Wigner-D of the same (transition, node)", bad or None)


def _self_mapping_path(v) -> bool:
    """An attribute path on ``self`` (``self.__ingredients.lineshapes``)."""
    root = v
    n = 0
    while isinstance(root, tuple) and len(root) == 3 and root[0] == "attr":
        root = root[1]
        n += 1
    return n >= 1 and root == SELF


def _path_name(v) -> str:
    """``"__choices"`` for ``self.__choices``, ``"__ingredients.lineshapes"`` for the nested path."""
    parts = []
    while isinstance(v, tuple) and len(v) == 3 and v[0] == "attr":
        parts.append(v[2])
        v = v[1]
    return ".".join(reversed(parts))


def _reset_clears(tree: Tree, attr: str) -> bool:
    """Is ``self.<attr>`` re-bound by a ``reset`` method of the helicity module (the per-formulate scratch state)?"""
    for q, f in tree.funcs.items():
        if q.startswith(f"{HEL}::") and f.name == "reset" and f.cls is not None:
            for n in ast.walk(f.node):
                if isinstance(n, (ast.Assign, ast.AnnAssign)):
                    targets = n.targets if isinstance(n, ast.Assign) else [n.target]
                    if any(isinstance(t, ast.Attribute) and isinstance(t.value, ast.Name) and t.value.id == "self" and t.attr == attr for t in targets):
                        return True
                if isinstance(n, ast.Call) and unparse(n.func) in {"attrs.fields", "fields"}:
                    return True  # reset() that loops over all declared fields
    return False


def _unknown_decay_guard(pc, is_decay, is_selector, fn) -> bool:
    """Does the path condition say "the decay of this node is not a key of the selector"?"""
    for t, o in pc:
        if t[0] == "cmp" and t[1] == "in" and o is False and is_decay(t[2]):
            view = t[3]
            while view[0] == "call" and ((view[1][0] == "attr" and view[1][2] == "keys" and not view[2]) or (view[1][0] == "builtin" and view[1][1] in {"list", "tuple", "set", "frozenset"} and len(view[2]) == 1)):
                view = view[1][1] if view[1][0] == "attr" else view[2][0]
            if is_selector(view):
                return True
        if t[0] == "raises" and o is True and t[1].split(".")[-1] in {"KeyError", "LookupError"}:
            # `try: <lookup in the selector> except KeyError:` - the try body must be that lookup alone
            for tr in [n for n in ast.walk(fn.node) if isinstance(n, ast.Try)]:
                handled = any(h.type is not None and unparse(h.type).split(".")[-1] in {"KeyError", "LookupError"} for h in tr.handlers)
                body_calls = [n for st in tr.body for n in ast.walk(st) if isinstance(n, ast.Call)]
                subs = [n for st in tr.body for n in ast.walk(st) if isinstance(n, ast.Subscript) and isinstance(n.ctx, ast.Load)]
                if handled and len(tr.body) == 1 and not body_calls and len(subs) == 1 and "dynamics" in unparse(subs[0].value):
                    return True
        if t[0] == "cmp" and t[1] == "is" and o is True:
            for got, sentinel in ((t[2], t[3]), (t[3], t[2])):
                if got[0] == "phi" and sentinel == ("const", None):
                    # a helper that returns the builder or None: None exactly on its "unknown decay" paths
                    none_paths = [p for p, x in alternatives(got) if x == sentinel]
                    found_paths = [x for p, x in alternatives(got) if x != sentinel]
                    if none_paths and all(_unknown_decay_guard(p, is_decay, is_selector, fn) for p in none_paths) and all(
                            (x[0] == "sub" and is_selector(x[1]) and is_decay(x[2])) for x in found_paths):
                        return True
                if got[0] == "call" and got[1][0] == "attr" and got[1][2] == "get" and is_selector(got[1][1]) and got[2] and is_decay(got[2][0]):
                    default = got[2][1] if len(got[2]) == 2 else ("const", None)
                    if sentinel == default:
                        return True
    return False


def check_selector_store(ctx: Check, tree: Tree) -> None:
    """R-ONESTORE: DynamicsSelector is a mapping over ONE store.  What __getitem__ returns for a
    decay (used by __formulate_dynamics) is what the last assign() that denotes that decay wrote,
    and what items()/values() show: every assign overload writes only that store, __getitem__
    reads only that store with its key, the views expose that store."""
    cls = tree.cls(SELECTOR)
    getitem = cls.methods.get("__getitem__")
    if getitem is None:
        raise AnalysisError("vanished anchor: DynamicsSelector.__getitem__ / its store")
    grun = MethodRun(tree, getitem)
    key_param = ("param", getitem.params[1]) if len(getitem.params) > 1 else None
    problems = []
    mains = []
    for pc, v in alternatives(grun.ret):
        if v[0] == "sub" and _self_attr(v[1]) and (v[2] == key_param or (v[2][0] == "call" and func_name(v[2]).endswith("TwoBodyDecay.create") and v[2][2] == (key_param,))):
            mains.append(_self_attr(v[1]))
            continue
        w = not_followed(v, SEL_KNOWN)
        if w:
            raise AnalysisError(f"DynamicsSelector.__getitem__: a returned value is not read ({w})")
        problems.append(f"__getitem__ also returns `{show(v)[:80]}` (a second source can shadow the store)")
    if not mains:
        if grun.sx.imprecise:
            raise AnalysisError(f"DynamicsSelector.__getitem__: {grun.sx.imprecise[0]}")
        problems.append("__getitem__ does not return self.<store>[key]")
    if len(set(mains)) > 1:
        problems.append(f"__getitem__ reads several stores {sorted(set(mains))}")
    main = mains[0] if mains else None
    if main is not None:
        reads = sorted({_self_attr(x) for x in subterms(("tuple", (grun.ret, *[t for e in grun.sx.events for t in [e[1]]]))) if _self_attr(x)} - {main})
        if reads:
            problems.append(f"__getitem__ also consults {reads}")
        written: dict[str, set[str]] = {}
        for st in cls.node.body:
            if not isinstance(st, ast.FunctionDef):
                continue
            f = tree.func_of(st)
            r = grun if f is getitem else MethodRun(tree, f)
            label = st.name if st.name != "_" else f"assign[{', '.join(unparse(a) for d in st.decorator_list if isinstance(d, ast.Call) for a in d.args)}]"
            for e in r.effects:
                written.setdefault(e.store, set()).add(label)
            for a, _ in r.mutations:
                written.setdefault(a, set()).add(label)
            if st.name != "__init__":
                for a, _ in r.rebinds:
                    written.setdefault(a, set()).add(label)
        if not written:
            raise AnalysisError("vanished anchor: DynamicsSelector.__getitem__ / its store")
        others = sorted(a for a in written if a != main)
        if others:
            problems.append(f"assign() also writes {others} ({sorted(set().union(*[written[a] for a in others]))})")
        for view in ("items", "keys", "values", "__iter__", "__len__"):
            m = cls.methods.get(view)
            if m is not None:
                vr = MethodRun(tree, m)
                attrs = {_self_attr(x) for x in subterms(vr.ret) if _self_attr(x)}
                if attrs != {main}:
                    w = not_followed(vr.ret, SEL_KNOWN)
                    if w:
                        raise AnalysisError(f"DynamicsSelector.{view}: the returned value is not read ({w})")
                    problems.append(f"{view}() exposes {sorted(attrs)}, not the store `{main}`")
    ctx.verdict(not problems, "R-ONESTORE", f"{cls.qual}::single-store", tree.loc(getitem.node),
                f"DynamicsSelector: assign overloads, __getitem__ and the mapping views all operate on the one store `{main}`", problems or None)


def check_key_identity(ctx: Check, tree: Tree) -> None:
    """R-KEYIDENTITY: TwoBodyDecay is the key of the selector; two nodes that differ in parent,
    children or interaction (LS coupling) are different keys: no field is excluded from equality /
    hash.  A hand-written __eq__ / __hash__ is not read (ANALYSIS-ERROR, not a violation)."""
    cls = tree.cls("ampform.helicity.decay::TwoBodyDecay")
    problems = []
    decs = [unparse(d) for _, d in cls.decorators] if cls.decorators else []
    for _, d in cls.decorators:
        if isinstance(d, ast.Call):
            for k in d.keywords:
                if k.arg is None:
                    raise AnalysisError(f"TwoBodyDecay: class decorator `{unparse(d)[:60]}` takes **options that are not read")
                if k.arg in {"eq", "hash"} and isinstance(k.value, ast.Constant) and k.value.value is False:
                    problems.append(f"class decorator `{unparse(d)}` switches {k.arg} off")
                elif k.arg in {"eq", "hash", "unsafe_hash"} and not isinstance(k.value, ast.Constant):
                    raise AnalysisError(f"TwoBodyDecay: `{k.arg}={unparse(k.value)}` in the class decorator is not a literal")
    fields = []
    for st in cls.node.body:
        if isinstance(st, ast.AnnAssign) and isinstance(st.target, ast.Name):
            fields.append(st.target.id)
            if isinstance(st.value, ast.Call):
                for k in st.value.keywords:
                    if k.arg is None:
                        raise AnalysisError(f"TwoBodyDecay.{st.target.id}: field options `{unparse(st.value)[:60]}` are not read")
                    if k.arg in {"eq", "hash", "compare"}:
                        if isinstance(k.value, ast.Constant) and k.value.value is False:
                            problems.append(f"field `{st.target.id}` is excluded from {k.arg} ({unparse(st.value)})")
                        elif not (isinstance(k.value, ast.Constant) and k.value.value in {True, None}):
                            raise AnalysisError(f"TwoBodyDecay.{st.target.id}: `{k.arg}={unparse(k.value)[:40]}` is not a literal (a key function is not read)")
    own = [name for name in ("__eq__", "__hash__") if name in cls.methods]
    if own and not problems:
        raise AnalysisError(f"TwoBodyDecay defines {own} by hand: whether all fields take part in equality / hash is not read")
    if not {"parent", "children", "interaction"} <= set(fields):
        raise AnalysisError(f"vanished anchor: the fields of TwoBodyDecay are {fields} (parent, children, interaction confirmed)")
    ctx.verdict(not problems, "R-KEYIDENTITY", f"{cls.qual}::equality", tree.loc(cls.node),
                f"TwoBodyDecay ({', '.join(decs)}) compares and hashes over all of its fields {fields}", problems or None)


def check_dynamics_domain(ctx: Check, tree: Tree) -> None:
    """R-DYNDOMAIN: a selection by resonance name denotes every node whose parent is that resonance
    in every chain that is formulated.  The builder also formulates the identical-particle
    permutations of each transition (`_perform_combinatorics`); the decays of those permuted
    transitions have other state ids, hence are other keys.  Either the selector registers them as
    well, or the lookup normalises the permuted decay to a registered one - otherwise
    `if decay not in self.dynamics: return 1` silently drops the lineshape of the permuted terms.
    Both sides are read from the symbolic execution: the chains the builder sums (sa/props/c02.py ChainModel) and
    the keys __init__ registers - through whatever helpers / generators the loops are written."""
    from .c02 import chain_model, coherent_sum

    builder = tree.cls(f"{HEL}::HelicityAmplitudeBuilder")
    model = chain_model(tree)
    stores, terms = coherent_sum(model)
    if len(stores) != 1 or not terms:
        raise AnalysisError("R-DYNDOMAIN: the coherent sum of the builder was not read (see R-FOLD)")
    permutes = any(mentions(e[1], "_perform_combinatorics") for eaches, _, _ in terms for e in eaches)
    if not permutes:
        ctx.info("R-DYNDOMAIN", tree.loc(builder.node), "the builder does not formulate identical-particle permutations itself")
        return
    sel = tree.cls(SELECTOR)
    init = sel.methods.get("__init__")
    if init is None:
        raise AnalysisError("vanished anchor: DynamicsSelector.__init__")
    run = MethodRun(tree, init)
    store = _store_name(tree, sel)
    regs = _registrations(run, store)
    if not regs:
        raise AnalysisError("DynamicsSelector.__init__: no registration of decays found")
    covered = any(mentions(r[1], "_perform_combinatorics") for e in regs for r in e.ranges)
    if not covered:
        for e in regs:
            w = not_followed(("tuple", (e.key, *[r[1] for r in e.ranges])), SEL_KNOWN)
            if w:
                raise AnalysisError(f"R-DYNDOMAIN: the registered decays are not read ({w})")
    ctx.verdict(covered, "R-DYNDOMAIN", f"{sel.qual}::permuted-decays-not-registered", tree.loc(init.node),
                "DynamicsSelector registers the decays of every graph of `_perform_combinatorics(transition)`, the chains that the builder formulates",
                None if covered else {
                    "why": "the builder sums the chains of `_perform_combinatorics(transition)`; TwoBodyDecay.from_transition of a permuted graph is not a key of the selector and __formulate_dynamics returns 1 for an unknown decay",
                    "observed": "J/psi -> gamma pi0 pi0 via omega(782), dynamics.assign('omega(782)', create_relativistic_breit_wigner): 8 of the 16 chain terms (those with the pi0 exchanged, angles phi_01) carry no Breit-Wigner - the amplitude is not symmetric under the exchange of the identical particles",
                })


def check_defaults_cover_expression(ctx: Check, tree: Tree) -> None:
    """R-DEFAULTS (coverage): whatever the flags, every parameter symbol of the resonance (mass, width,
    meson radius) that occurs in the expression a library builder returns is a key of the parameter
    defaults it returns - otherwise the model contains a symbol that is neither a parameter nor a
    kinematic variable."""
    from ..terms import deep_atoms

    D.reset()
    te = TermEval(tree)
    pool, resonance, self_struct = builder_env(te)
    cls = tree.cls(BUILDER)
    results = builder_results(te, tree, self_struct, resonance, pool)
    names = dict(zip(("mass", "width", "meson radius"), the_resonance_symbols(te, results)))
    atoms_of = {n: te.single_atom(te._rf(v)) for n, v in names.items()}
    call_m = cls.methods["__call__"]
    cases = [(f"RelativisticBreitWignerBuilder(energy_dependent_width={edw}, form_factor={ff})", call_m, results[edw, ff]) for edw in (False, True) for ff in (False, True)]
    nd_ff = tree.func(f"{BLD}::create_non_dynamic_with_ff")
    cases.append(("create_non_dynamic_with_ff", nd_ff, builder_pair(te.eval_function(nd_ff, [resonance, pool]), "create_non_dynamic_with_ff(resonance, variable_pool)")))
    for label, fn, (expr, defaults) in cases:
        present = deep_atoms(te, expr)
        keys = {te.single_atom(te._rf(k)) for k, _ in defaults.items}
        missing = [n for n, a in atoms_of.items() if a in present and a not in keys]
        unused = [n for n, a in atoms_of.items() if a in keys and a not in present]
        ctx.verdict(not missing, "R-DEFAULTS", f"{fn.qual}::covers::{label}", tree.loc(fn.node),
                    f"{label}: every resonance parameter in the expression has a default ({len(defaults.items)} entries)",
                    None if not missing else f"the {', '.join(missing)} symbol occurs in the expression but not in the returned parameter defaults")
        if unused:
            ctx.advisory("R-DEFAULTS", tree.loc(fn.node), f"{label}: default for the {', '.join(unused)} although the expression does not contain it")


def run(ctx: Check, tree: Tree) -> None:
    ctx.decided += [
        "R-TERM: _generate_kinematic_variable_set wires parent mass / daughter masses / angles of children[0] / L of the node; the three lineshape builders feed M^2, the daughter masses and the pool's L into FormFactor / EnergyDependentWidth",
        "R-DEFAULTS: m -> resonance.mass, Gamma -> resonance.width, d -> 1 in every builder; duplicated symbol constructions agree",
        "R-DISPATCH: assign() registry {TwoBodyDecay, tuple, str, Particle}, each implementation reaches the single store, selection by parent particle name over all decays",
        "R-DYNDOMAIN: the selector's keys cover the decays of the identical-particle permutations that the builder formulates",
        "R-ONESTORE: assign overloads, __getitem__ and the views of DynamicsSelector operate on one store; R-KEYIDENTITY: TwoBodyDecay compares/hashes over parent, children and interaction",
        "R-SAMEDECAY: builder lookup, resonance argument, variable set and Wigner-D all refer to the same (transition, node)",
    ]
    ctx.not_decided += ["commutation of re-assignments in any order (last writer wins on a dict - a history property)", "custom builders"]
    ctx.assumptions += ["functools.singledispatchmethod dispatches on the type of the first argument"]
    ctx.section(check_variable_set, ctx, tree)
    ctx.section(check_builders_use_pool, ctx, tree)
    ctx.section(check_defaults_cover_expression, ctx, tree)
    ctx.section(check_symbol_duplicates, ctx, tree)
    ctx.section(check_dispatch, ctx, tree)
    ctx.section(check_same_decay, ctx, tree)
    ctx.section(check_selector_store, ctx, tree)
    ctx.section(check_key_identity, ctx, tree)
    ctx.section(check_dynamics_domain, ctx, tree)
