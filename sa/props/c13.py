"""C13 - dynamics attach to the right decay with the right variables and defaults.

R-TERM     the variable set of a node = (invariant mass of the decaying state, masses of its
           two daughters, helicity angles of children[0], L of that node when specified);
           lineshape builders feed M^2, the daughter masses and L of that pool.
R-DEFAULTS mass -> resonance.mass, width -> resonance.width, radius -> 1; duplicated symbol
           constructions agree.
R-DISPATCH assign() is implemented for {TwoBodyDecay, tuple, str, Particle}; every
           implementation ends in the single store; selection by name compares the parent.
R-SAMEDECAY the builder is looked up with the decay of the same (transition, node) whose
           variables it receives.
"""

from __future__ import annotations

import ast

from ..dataflow import RD
from ..inline import Inliner
from ..loader import AnalysisError, Tree, ancestors, unparse, walk_function
from ..poly import RF, D, equal, sym
from ..report import Check
from ..rules import symbol_sites
from ..terms import DictV, Opaque, TermEval, Tup
from .c12 import builder_env

PID = "C13"
HEL = "ampform.helicity"
BLD = "ampform.dynamics.builder"


VARIABLE_SET = f"{BLD}::TwoBodyKinematicVariableSet"


def _record_fields(tree: Tree, cls_qual: str) -> list[str]:
    return [st.target.id for st in tree.cls(cls_qual).node.body if isinstance(st, ast.AnnAssign) and isinstance(st.target, ast.Name)]


def _paths(v, conds: tuple = ()):
    """(value, path conditions) for every path of a forked evaluation."""
    from ..terms import PW

    if isinstance(v, PW):
        for val, cond in v.branches:
            yield from _paths(val, (*conds, cond))
    else:
        yield v, conds


def _holds_is_none(k, subject) -> bool:
    """Does the truth of the condition (given by its canonical key) entail `subject is None`?"""
    if not (isinstance(k, tuple) and k):
        return False
    if k[0] == "tup":
        return any(_holds_is_none(x, subject) for x in k[1])
    if k[0] == "rel" and k[1] in {"is", "=="}:
        return {k[2], k[3]} == {subject, ("opaque", None)}
    if k[0] == "opaque" and isinstance(k[1], tuple) and k[1]:
        tag = k[1][0]
        if tag == "and":
            return any(_holds_is_none(x, subject) for x in k[1][1])
        if tag in {"else-of", "not"}:
            return _fails_is_none(k[1][1], subject)
    return False


def _fails_is_none(k, subject) -> bool:
    """Does the falsity of the condition entail `subject is None`?"""
    if not (isinstance(k, tuple) and k):
        return False
    if k[0] == "rel" and k[1] in {"is not", "!="}:
        return {k[2], k[3]} == {subject, ("opaque", None)}
    if k[0] == "opaque" and isinstance(k[1], tuple) and k[1]:
        tag = k[1][0]
        if tag == "or":
            return any(_fails_is_none(x, subject) for x in k[1][1])
        if tag in {"else-of", "not"}:
            return _holds_is_none(k[1][1], subject)
    return False


def check_variable_set(ctx: Check, tree: Tree) -> None:
    """The variable set of (transition, node) is evaluated as a term over the abstract decay of that node
    (sa/props/c02.py decay_evaluator): helpers, unpacking of decay.children, keyword arguments and the
    way the symbols are fetched do not matter - only which symbol ends up in which role, on every path."""
    from ..terms import vkey
    from .c02 import NODE_ID, TRANSITION, decay_evaluator, decay_value

    D.reset()
    te = decay_evaluator(tree)
    te.fork = True  # every path is judged: the L fallback is a branch
    fn = tree.func(f"{HEL}::_generate_kinematic_variable_set")
    fields = _record_fields(tree, VARIABLE_SET)
    res = te.eval_function(fn, [TRANSITION, NODE_ID])
    sets = []
    for val, conds in _paths(res):
        atom = te.single_atom(val) if isinstance(val, RF) else None
        info = te.apps.get(atom) if atom is not None else None
        if info is None or info.cls != "TwoBodyKinematicVariableSet" or tree.resolve(fn.module, ast.Name(id="TwoBodyKinematicVariableSet", ctx=ast.Load()), fn) != VARIABLE_SET:
            raise AnalysisError("_generate_kinematic_variable_set does not return a TwoBodyKinematicVariableSet(...)")
        if len(info.args) > len(fields):
            raise AnalysisError("TwoBodyKinematicVariableSet: more positional arguments than fields")
        sets.append(({**dict(zip(fields, info.args)), **info.kwargs}, conds))
    want = {
        "incoming_state_mass": sym("MASS"),
        "helicity_phi": sym("PHI"),
        "helicity_theta": sym("THETA"),
        "outgoing_state_mass1": sym("MASS1"),
        "outgoing_state_mass2": sym("MASS2"),
    }
    names = {"MASS": "invariant mass symbol of decay.parent", "MASS1": "invariant mass symbol of decay.children[0]", "MASS2": "invariant mass symbol of decay.children[1]",
             "PHI": "phi of decay.children[0]", "THETA": "theta of decay.children[0]"}

    def same(got, w) -> bool:
        try:
            return got is not None and equal(te._rf(got), w)
        except AnalysisError:
            return False

    problems = []
    for roles, _ in sets:
        for k, w in want.items():
            if not same(roles.get(k), w):
                msg = f"{k} = {roles.get(k)!r} (expected the {names[te.single_atom(w)]})"
                if msg not in problems:
                    problems.append(msg)
    call = next((c for r in walk_function(fn.node) if isinstance(r, ast.Return) and r.value is not None for c in ast.walk(r.value) if isinstance(c, ast.Call)), fn.node)
    ctx.verdict(not problems, "R-TERM", f"{fn.qual}::roles", tree.loc(call),
                "variable set: incoming mass = invariant-mass symbol of decay.parent, angles = those of decay.children[0], daughter masses = invariant-mass symbols of children[0], children[1] of the same decay", problems or None)
    g = tree.func(f"{HEL}::_generate_kinematic_variables")
    gval = te.eval_function(g, [TRANSITION, NODE_ID])
    gpaths = list(_paths(gval))
    ok = bool(gpaths) and all(isinstance(v, Tup) and len(v.items) == 3 and all(same(x, sym(w)) for x, w in zip(v.items, ("MASS", "PHI", "THETA"))) for v, _ in gpaths)
    gret = next((r for r in walk_function(g.node) if isinstance(r, ast.Return)), g.node)
    ctx.verdict(ok, "R-TERM", f"{g.qual}::roles", tree.loc(gret), "(mass, phi, theta) = (invariant mass of decay.parent, angle symbols of decay.children[0])", None if ok else [repr(v)[:200] for v, _ in gpaths])
    # angular momentum: on every path either the node's L, or the path is only taken when the node specifies none
    lmag = vkey(te.ev(ast.parse("decay.interaction.l_magnitude", mode="eval").body, {"decay": decay_value(te, tree)}))
    problems = []
    n_own = 0
    for roles, conds in sets:
        if "angular_momentum" not in roles:
            problems.append("angular_momentum is not passed")
            continue
        for lval, lconds in _paths(roles["angular_momentum"], conds):
            if vkey(lval) == lmag:
                n_own += 1
                continue
            if any(_holds_is_none(vkey(c), lmag) for c in lconds):
                continue  # a fallback for a node without L
            problems.append(f"a path passes {lval!r} although the transition specifies an L for the node (path conditions: {[repr(c)[:80] for c in lconds]})")
    if not n_own:
        problems.append("no path passes decay.interaction.l_magnitude")
    ctx.verdict(not problems, "R-TERM", f"{fn.qual}::angular-momentum", tree.loc(call),
                "angular_momentum = L of that node whenever the transition specifies one (fallbacks only under `is None`)", problems or None)


def check_builders_use_pool(ctx: Check, tree: Tree) -> None:
    D.reset()
    te = TermEval(tree)
    pool, resonance, self_struct = builder_env(te)
    M, m1, m2, L = pool["incoming_state_mass"], pool["outgoing_state_mass1"], pool["outgoing_state_mass2"], pool["angular_momentum"]
    cls = tree.cls(f"{BLD}::RelativisticBreitWignerBuilder")
    symbols = te.eval_function(cls.methods["__create_symbols"], [resonance])
    res_mass, res_width, radius = symbols.items
    cases = [
        (tree.func(f"{BLD}::create_non_dynamic_with_ff"), [resonance, pool], "FormFactor", {"s": M**2, "m1": m1, "m2": m2, "angular_momentum": L}),
        (cls.methods["__create_form_factor"], [self_struct, resonance, pool], "FormFactor", {"s": M**2, "m1": m1, "m2": m2, "angular_momentum": L}),
        (cls.methods["__energy_dependent_breit_wigner"], [self_struct, resonance, pool], "EnergyDependentWidth", {"s": M**2, "m_a": m1, "m_b": m2, "angular_momentum": L}),
    ]
    for fn, args, cls_name, roles in cases:
        val = te.eval_function(fn, args)
        expr = val.items[0] if isinstance(val, Tup) else val
        apps = [a for a in _deep_app_atoms(te, expr) if te.apps[a].cls.endswith(f"::{cls_name}")]
        problems = []
        if len(apps) != 1:
            problems.append(f"{len(apps)} applications of {cls_name}")
        else:
            info = te.apps[apps[0]]
            ecls = te.classes[info.cls]
            got = dict(zip([f.name for f in ecls.sympy_fields], info.args))
            for role, want in roles.items():
                if role not in got or not equal(te._rf(got[role]), want):
                    problems.append(f"{role} = {got.get(role)!r} instead of {want!r}")
        ctx.verdict(not problems, "R-TERM", f"{fn.qual}::pool-wiring", tree.loc(fn.node),
                    f"{fn.qual.split('::')[-1]}: {cls_name} receives s = incoming_state_mass^2, the two outgoing masses and variable_pool.angular_momentum", problems or None)
        # defaults
        if isinstance(val, Tup) and isinstance(val.items[1], DictV):
            check_defaults(ctx, tree, te, fn, val.items[1], res_mass, res_width, radius)
    simple = te.eval_function(cls.methods["__simple_breit_wigner"], [resonance, pool])
    if isinstance(simple, Tup) and isinstance(simple.items[1], DictV):
        check_defaults(ctx, tree, te, cls.methods["__simple_breit_wigner"], simple.items[1], res_mass, res_width, radius)
    nd = te.eval_function(tree.func(f"{BLD}::create_non_dynamic"), [resonance, pool])
    ok = isinstance(nd, Tup) and isinstance(nd.items[0], RF) and equal(nd.items[0], RF.const(1)) and isinstance(nd.items[1], DictV) and not nd.items[1].items
    ctx.verdict(ok, "R-TERM", f"{BLD}::create_non_dynamic", tree.loc(tree.func(f"{BLD}::create_non_dynamic").node), "create_non_dynamic returns (1, {}) - unassigned nodes leave the amplitude untouched")


def _deep_app_atoms(te: TermEval, v) -> set:
    from ..terms import deep_atoms

    return {a for a in deep_atoms(te, v) if te.is_app(a) and a in te.apps}


def check_defaults(ctx: Check, tree: Tree, te: TermEval, fn, defaults: DictV, res_mass, res_width, radius) -> None:
    want = {
        repr(te._rf(res_mass).key()): ("mass", Opaque(("attr", ("resonance",), "mass"))),
        repr(te._rf(res_width).key()): ("width", Opaque(("attr", ("resonance",), "width"))),
        repr(te._rf(radius).key()): ("radius", RF.const(1)),
    }
    problems = []
    for k, v in defaults.items:
        kk = repr(te._rf(k).key())
        if kk not in want:
            problems.append(f"unexpected parameter {k!r}")
            continue
        role, w = want[kk]
        same = (isinstance(w, RF) and isinstance(v, RF) and equal(v, w)) or (isinstance(w, Opaque) and isinstance(v, Opaque) and v.key == w.key)
        if not same:
            problems.append(f"default of the {role} parameter is {v!r}, not {'resonance.' + role if role != 'radius' else '1'}")
    ctx.verdict(not problems, "R-DEFAULTS", f"{fn.qual}::defaults", tree.loc(fn.node),
                f"{fn.qual.split('::')[-1]}: parameter defaults {{m_res: resonance.mass, Gamma_res: resonance.width, d_res: 1}} ({len(defaults.items)} entries)", problems or None)


def check_symbol_duplicates(ctx: Check, tree: Tree) -> None:
    sites = symbol_sites(tree, [BLD])
    groups: dict[str, list[dict]] = {}
    for s in sites:
        if s["skeleton"] is not None:
            groups.setdefault(s["skeleton"], []).append(s)
    # anchor: the three parameter symbols of a resonance (mass, width, meson radius) are constructed somewhere in
    # the module.  HOW OFTEN is not an anchor: a module that builds each of them at one site has no duplicates
    # that could disagree, which is the best case of this rule
    if len(groups) < 3:
        raise AnalysisError(f"only {len(groups)} distinct parameter symbols are constructed in dynamics/builder.py (mass, width, meson radius confirmed; {len(sites)} sites)")
    for skel, members in sorted(groups.items()):
        if len(members) < 2:
            continue
        sigs = {(m["kind"], tuple(sorted(m["assumptions"].items()))) for m in members}
        ctx.verdict(len(sigs) == 1, "R-DEFAULTS", f"{BLD}::symbol `{skel}`", tree.loc(members[0]["node"]),
                    f"symbol `{skel}`: {len(members)} construction sites in builder.py agree in kind and assumptions (equal-named parameters are one parameter)",
                    None if len(sigs) == 1 else [{"fn": m["fn"], "assumptions": m["assumptions"]} for m in members])
    # every site builds the identifier the same way: the placeholder of each symbol name
    idents = set()
    for m_ in sites:
        fn = tree.funcs[m_["fn"]]
        rd = RD(fn.node)
        name_node = m_["node"].args[0]
        for ph in [v.value for v in ast.walk(name_node) if isinstance(v, ast.FormattedValue)]:
            if isinstance(ph, ast.Name):
                vals = {unparse(d.value) for d in rd.reaching(ph) if d.value is not None}
                idents |= vals or {ph.id}
            else:
                idents.add(unparse(ph))
    ctx.verdict(len(idents) == 1, "R-DEFAULTS", f"{BLD}::identifier", BLD.replace(".", "/"), f"the resonance identifier is built the same way at every site: {sorted(idents)}")


def _is_store_view(e: ast.AST) -> bool:
    """`self.__choices`, `self.__choices.keys()`, `list(self.__choices)`, `tuple(...)`: all registered decays."""
    while True:
        if isinstance(e, ast.Call) and isinstance(e.func, ast.Name) and e.func.id in {"list", "tuple", "iter"} and len(e.args) == 1 and not e.keywords:
            e = e.args[0]
        elif isinstance(e, ast.Call) and isinstance(e.func, ast.Attribute) and e.func.attr == "keys" and not e.args and not e.keywords:
            e = e.func.value
        else:
            break
    return isinstance(e, ast.Attribute) and "__choices" in e.attr and isinstance(e.value, ast.Name) and e.value.id == "self"


def _selection_by_name(fn: ast.FunctionDef) -> list[str]:
    """assign[str]: the decays that get the builder are exactly {d in store : d.parent.particle.name == <name>}.
    The selection may be spelled as a guarded store inside a loop over the store, with `continue` guards, or as
    a filtered comprehension over the store that a second loop applies: the rule collects, for the one store
    `store[d] = builder`, where d ranges (all registered decays) and every condition between the range and the
    store, in whatever clause it is written."""
    rd = RD(fn)
    sel_param = fn.args.args[1].arg if len(fn.args.args) > 1 else None
    stores = [n for n in ast.walk(fn) if isinstance(n, ast.Assign) and isinstance(n.targets[0], ast.Subscript) and "__choices" in unparse(n.targets[0].value)]
    if len(stores) != 1:
        return [f"{len(stores)} stores into the choices (one expected)"]
    store = stores[0]
    key = store.targets[0].slice
    loop = next((a for a in ancestors(store) if isinstance(a, ast.For) and isinstance(a.target, ast.Name) and isinstance(key, ast.Name) and a.target.id == key.id), None)
    if loop is None:
        if any(isinstance(a, ast.For) for a in ancestors(store)):
            return ["stores under a key other than the iterated decay"]
        return ["does not iterate all registered decays"]
    problems: list[str] = []
    conds: list[tuple[ast.AST, bool, str]] = []  # (test, required outcome, name of the decay variable)
    # conditions inside the loop: enclosing ifs, and `if c: continue` guards in front of the store
    node = store
    for a in ancestors(store):
        if a is loop:
            break
        if isinstance(a, ast.If):
            conds.append((a.test, any(node is b or any(node is x for x in ast.walk(b)) for b in a.body), loop.target.id))
        elif isinstance(a, (ast.For, ast.While)):
            problems.append("the store sits in a nested loop")
        node = a
    for st in loop.body:
        if st is node:
            break
        if isinstance(st, ast.If) and st.body and all(isinstance(b, ast.Continue) for b in st.body) and not st.orelse:
            conds.append((st.test, False, loop.target.id))
    # the range of the loop: the store itself, or a local holding a filtered comprehension over the store
    it = loop.iter
    if not _is_store_view(it):
        src = None
        if isinstance(it, ast.Name):
            defs = list(rd.reaching(it))
            if len(defs) == 1 and defs[0].kind == "assign" and defs[0].index is None and defs[0].value is not None:
                src = defs[0].value
        elif isinstance(it, (ast.ListComp, ast.GeneratorExp)):
            src = it
        while isinstance(src, ast.Call) and isinstance(src.func, ast.Name) and src.func.id in {"list", "tuple"} and len(src.args) == 1 and not src.keywords:
            src = src.args[0]
        if (isinstance(src, (ast.ListComp, ast.GeneratorExp)) and len(src.generators) == 1 and isinstance(src.generators[0].target, ast.Name)
                and isinstance(src.elt, ast.Name) and src.elt.id == src.generators[0].target.id and _is_store_view(src.generators[0].iter)):
            conds += [(c, True, src.generators[0].target.id) for c in src.generators[0].ifs]
        else:
            problems.append("does not iterate all registered decays")
    if any(isinstance(n, (ast.Break, ast.Return)) for n in ast.walk(loop)):
        problems.append("stops at the first match (other chains with the same resonance keep their old builder)")
    if not conds:
        problems.append("no name comparison")
    n_name = 0
    for test, outcome, var in conds:
        t, out = test, outcome
        while isinstance(t, ast.UnaryOp) and isinstance(t.op, ast.Not):
            t, out = t.operand, not out
        sides = []
        if isinstance(t, ast.Compare) and len(t.ops) == 1 and isinstance(t.ops[0], (ast.Eq, ast.NotEq)) and isinstance(t.ops[0], ast.Eq) == out:
            for side in (t.left, t.comparators[0]):
                txt = unparse(side)
                for d in rd.closure(rd.uses(side)):
                    if d.value is not None:
                        txt += " <- " + unparse(d.value)
                sides.append(txt)
        joined = " | ".join(sides)
        if f"{var}.children" in joined:
            problems.append("selection looks at the children")
        if f"{var}.parent.particle" in joined and ".name" in joined and (sel_param is None or any(sel_param in s_ and f"{var}.parent" not in s_ for s_ in sides)):
            n_name += 1
        else:
            problems.append(f"condition `{unparse(test)}` ({'must hold' if outcome else 'must not hold'}): selection is not by the parent particle's name alone")
    if conds and not n_name and not any("selection is not by" in p_ for p_ in problems):
        problems.append("no name comparison")
    return problems


def check_dispatch(ctx: Check, tree: Tree) -> None:
    cls = tree.cls(f"{HEL}::DynamicsSelector")
    impls: dict[str, ast.FunctionDef] = {}
    base = None
    for st in cls.node.body:
        if isinstance(st, ast.FunctionDef):
            for dec in st.decorator_list:
                if isinstance(dec, ast.Call) and unparse(dec.func) == "assign.register" and dec.args:
                    impls[unparse(dec.args[0])] = st
                if unparse(dec) == "singledispatchmethod" and st.name == "assign":
                    base = st
    if base is None:
        raise AnalysisError("vanished anchor: DynamicsSelector.assign is not a singledispatchmethod")
    want = {"TwoBodyDecay", "tuple", "str", "Particle"}
    ctx.verdict(set(impls) == want, "R-DISPATCH", f"{cls.qual}.assign::registry", tree.loc(base), f"assign() is registered for {sorted(impls)}", None if set(impls) == want else f"expected {sorted(want)}")
    base_raises = any(isinstance(n, ast.Raise) for n in ast.walk(base))
    ctx.verdict(base_raises, "R-DISPATCH", f"{cls.qual}.assign::fallback-raises", tree.loc(base), "unsupported selection types raise instead of being ignored")
    # every implementation reaches the store self.__choices[<decay>] = builder (directly or by delegating)
    stores_direct = {}
    for t, fn in impls.items():
        stores = [n for n in ast.walk(fn) if isinstance(n, ast.Assign) and isinstance(n.targets[0], ast.Subscript) and "__choices" in unparse(n.targets[0].value)]
        delegates = [n for n in ast.walk(fn) if isinstance(n, ast.Call) and unparse(n.func) == "self.assign"]
        stores_direct[t] = (stores, delegates)
        builder_param = fn.args.args[2].arg if len(fn.args.args) > 2 else None
        problems = []
        if not stores and not delegates:
            problems.append("neither stores into the choices nor delegates to another implementation")
        for s in stores:
            if unparse(s.value) != builder_param:
                problems.append(f"stores `{unparse(s.value)}` instead of the given builder")
        for d in delegates:
            if len(d.args) != 2 or unparse(d.args[1]) != builder_param:
                problems.append(f"delegation `{unparse(d)}` does not pass the builder on")
        if t == "TwoBodyDecay":
            # "one specific decay": exactly the given key is written - no search over the registered keys
            sel_param = fn.args.args[1].arg if len(fn.args.args) > 1 else None
            if len(stores) != 1 or unparse(stores[0].targets[0].slice) != sel_param:
                problems.append(f"does not store under exactly the given decay `{sel_param}` ({[unparse(s_.targets[0]) for s_ in stores]})")
            if any(isinstance(n, (ast.For, ast.While, ast.ListComp, ast.SetComp, ast.GeneratorExp, ast.DictComp)) for n in ast.walk(fn)):
                problems.append("searches the registered decays: a selection of ONE decay can then change several nodes (e.g. all helicity combinations of the node)")
        ctx.verdict(not problems, "R-DISPATCH", f"{cls.qual}.assign[{t}]::reaches-store", tree.loc(fn), f"assign[{t}] ends in the single store of the given builder ({'direct' if stores else 'delegating'})", problems or None)
    # by name: compares the parent particle's name, iterates all keys, stores under the iterated key
    fn = impls.get("str")
    if fn is not None:
        problems = _selection_by_name(fn)
        ctx.verdict(not problems, "R-DISPATCH", f"{cls.qual}.assign[str]::by-parent-name", tree.loc(fn), "assign[str]: every decay whose parent particle has that name gets the builder", problems or None)
    fn = impls.get("Particle")
    if fn is not None:
        d = [n for n in ast.walk(fn) if isinstance(n, ast.Call) and unparse(n.func) == "self.assign"]
        ok = len(d) == 1 and unparse(d[0].args[0]).endswith(".name")
        ctx.verdict(ok, "R-DISPATCH", f"{cls.qual}.assign[Particle]::by-name", tree.loc(fn), "assign[Particle] selects by the particle's name")
    fn = impls.get("tuple")
    if fn is not None:
        ok = "TwoBodyDecay.create(" in unparse(fn)
        ctx.verdict(ok, "R-DISPATCH", f"{cls.qual}.assign[tuple]::creates-decay", tree.loc(fn), "assign[(transition, node)] converts to the TwoBodyDecay of exactly that node")
    # __init__ registers every node of every transition with the neutral builder
    init = cls.methods["__init__"]
    ird = RD(init.node)
    ok = False
    why = []
    for st in [n for n in walk_function(init.node) if isinstance(n, ast.Assign) and isinstance(n.targets[0], ast.Subscript) and unparse(n.value) == "create_non_dynamic"]:
        key = st.targets[0].slice
        kdefs = [d for d in ird.reaching(key)] if isinstance(key, ast.Name) else []
        calls = [d.value for d in kdefs if isinstance(d.value, ast.Call) and unparse(d.value.func) == "TwoBodyDecay.from_transition" and len(d.value.args) == 2]
        if len(calls) != 1 or len(kdefs) != 1:
            why.append("key is not TwoBodyDecay.from_transition(transition, node)")
            continue
        t_arg, n_arg = calls[0].args
        loops = [a for a in ancestors(st) if isinstance(a, ast.For)]
        node_loop = next((l for l in loops if isinstance(l.target, ast.Name) and isinstance(n_arg, ast.Name) and l.target.id == n_arg.id), None)
        if node_loop is None or unparse(node_loop.iter) != f"{unparse(t_arg)}.topology.nodes":
            why.append("the node does not range over all nodes of that transition's topology")
            continue
        tdeps = ird.closure(ird.uses(t_arg))
        from_param = any(d.kind == "param" and d.name == init.params[1] for d in tdeps) if len(init.params) > 1 else False
        jumps = any(isinstance(n, (ast.Continue, ast.Break)) for l in loops for n in ast.walk(l))
        guarded = any(isinstance(a, ast.If) for a in ancestors(st) if a is not init.node and not isinstance(a, (ast.For, ast.FunctionDef, ast.ClassDef, ast.Module)))
        if from_param and not jumps and not guarded:
            ok = True
        else:
            why.append("registration is conditional / leaves loops early / does not derive from the constructor argument")
    ctx.verdict(ok, "R-DISPATCH", f"{cls.qual}.__init__::all-nodes", tree.loc(init.node), "every node of every (also permuted) transition starts with create_non_dynamic", None if ok else why)


def check_same_decay(ctx: Check, tree: Tree) -> None:
    from ..paths import PathWalker

    fn = tree.func(f"{HEL}::HelicityAmplitudeBuilder.__formulate_dynamics")
    inl = Inliner(fn.node)
    frd = RD(fn.node)
    # the builder call: a call of a local that was looked up in self.dynamics[...]
    calls = []
    for c in walk_function(fn.node):
        if isinstance(c, ast.Call) and isinstance(c.func, ast.Name):
            defs = frd.reaching(c.func)
            if defs and all(d.value is not None and unparse(d.value).startswith("self.dynamics[") for d in defs):
                calls.append(c)
    if len(calls) != 1:
        raise AnalysisError("__formulate_dynamics: expected one call of the builder looked up in self.dynamics[...]")
    c = calls[0]
    # positional arguments, looking through a starred local tuple
    pos = []
    for a in c.args:
        if isinstance(a, ast.Starred):
            v = inl.expr(a.value)
            if isinstance(v, ast.Tuple):
                pos.extend(v.elts)
            else:
                raise AnalysisError(f"__formulate_dynamics: builder called with *{unparse(a.value)} which is not a local tuple")
        else:
            pos.append(inl.expr(a))
    if len(pos) < 2:
        raise AnalysisError("__formulate_dynamics: builder call has fewer than two positional arguments")
    a0 = unparse(inl.expr(pos[0])).replace(" ", "")
    a1 = unparse(inl.expr(pos[1])).replace(" ", "")
    decay = "TwoBodyDecay.from_transition(transition,node_id)"
    b = next(iter(frd.reaching(c.func)))
    lookup = unparse(inl.expr(b.value)).replace(" ", "")
    # must-pass-through: every path that returns a lineshape executes the call of THIS node's builder,
    # unless the value comes out of a memo whose key derives from the builder or the decay
    walker = PathWalker(tree)
    skipped = []
    for path in walker.paths(fn):
        if path.exit != "return" or path.exit_node is None or unparse(path.exit_node.value) == "sp.S.One":
            continue
        executed = any(ev[0] == "stmt" and any(n is c for n in ast.walk(ev[1])) for ev in path.events)
        if executed:
            continue
        # memo lookups on this path
        keyed_ok = False
        ret_defs = {d.node for d in frd.closure(frd.uses(path.exit_node.value))}
        for ev in path.events:
            if ev[0] == "stmt" and isinstance(ev[1], ast.Assign) and isinstance(ev[1].value, ast.Subscript) and ev[1] in ret_defs and ev[1] is not b.node:
                key_expr = inl.expr(ev[1].value.slice)
                elements = key_expr.elts if isinstance(key_expr, ast.Tuple) else [key_expr]
                lookup_key = unparse(inl.expr(b.value.slice)) if isinstance(b.value, ast.Subscript) else None
                for el in elements:
                    # the builder object itself, or the very decay the builder was looked up with
                    if isinstance(el, ast.Name) and b in frd.reaching(ev[1].value.slice if isinstance(ev[1].value.slice, ast.Name) else el):
                        keyed_ok = True
                    if unparse(el) in {lookup_key, unparse(b.value)}:
                        keyed_ok = True
        if not keyed_ok:
            skipped.append(path)
    # the neutral result 1 is only returned for a decay the selector does not know
    for r in [r for r in walk_function(fn.node, nested=False) if isinstance(r, ast.Return) and r.value is not None and unparse(r.value) in {"sp.S.One", "1", "sp.Integer(1)"}]:
        guards = [a for a in ancestors(r) if isinstance(a, ast.If)]
        ok_g = any(isinstance(g.test, ast.Compare) and len(g.test.ops) == 1 and isinstance(g.test.ops[0], ast.NotIn) and "dynamics" in unparse(g.test.comparators[0])
                   and any(r is n for b_ in g.body for n in ast.walk(b_)) for g in guards)
        ctx.verdict(ok_g, "R-SAMEDECAY", f"{fn.qual}::neutral-only-for-unknown-decay", tree.loc(r),
                    "`return 1` (no dynamics) is only reached when the decay is not a key of the selector",
                    None if ok_g else {"guards": [unparse(g.test) for g in guards]})
    ctx.verdict(not skipped, "R-SAMEDECAY", f"{fn.qual}::builder-called-on-every-path", tree.loc(c),
                "every path of __formulate_dynamics that returns a lineshape calls the builder assigned to THIS decay (or reads a memo keyed by that builder / decay)",
                None if not skipped else f"{len(skipped)} path(s) return an expression without calling `{unparse(c.func)}`: a lineshape formulated for another decay / by another builder is reused")
    problems = []
    if a0 != f"{decay}.parent.particle":
        problems.append(f"resonance argument is {a0}")
    if a1 != "_generate_kinematic_variable_set(transition,node_id)":
        problems.append(f"variable set is {a1}")
    if lookup != f"self.dynamics[{decay}]":
        problems.append(f"builder looked up with {lookup}")
    ctx.verdict(not problems, "R-SAMEDECAY", f"{fn.qual}::same-node", tree.loc(c),
                "__formulate_dynamics: builder = dynamics[decay(transition, node)], called with that decay's parent particle and the variable set of the same (transition, node)", problems or None)
    rets = [r for r in walk_function(fn.node) if isinstance(r, ast.Return)]
    kinds = set()
    for r in rets:
        if unparse(r.value) == "sp.S.One":
            kinds.add("one")
        elif isinstance(r.value, ast.Name) and any(d.index == 0 and d.value is c for d in frd.reaching(r.value)):
            kinds.add("expression")
        else:
            kinds.add(unparse(r.value))
    ok = kinds == {"one", "expression"}
    rets = sorted(kinds)
    ctx.verdict(ok, "R-SAMEDECAY", f"{fn.qual}::returns", tree.loc(fn.node), "returns the builder's expression (or 1 for an unknown decay)", None if ok else rets)
    # the expression multiplies the Wigner-D of the same node
    pd = tree.func(f"{HEL}::HelicityAmplitudeBuilder._formulate_partial_decay")
    t = unparse(pd.node)
    ok = "formulate_isobar_wigner_d(transition, node_id)" in t and "self.__formulate_dynamics(transition, node_id)" in t
    ctx.verdict(ok, "R-SAMEDECAY", f"{pd.qual}::same-node", tree.loc(pd.node), "the dynamics of (transition, node) multiply the Wigner-D of the same (transition, node)")


def check_selector_store(ctx: Check, tree: Tree) -> None:
    """R-ONESTORE: DynamicsSelector is a mapping over ONE store.  What __getitem__ returns for a
    decay (used by __formulate_dynamics) is what the last assign() that denotes that decay wrote,
    and what items()/values() show: every assign overload writes only that store, __getitem__
    reads only that store with its key, the views expose that store."""
    cls = tree.cls(f"{HEL}::DynamicsSelector")
    def self_attrs(fn, ctx_type):
        out = set()
        for n in walk_function(fn.node):
            if isinstance(n, ast.Attribute) and isinstance(n.value, ast.Name) and n.value.id == "self" and isinstance(n.ctx, ast.Load):
                par = getattr(n, "_parent", None)
                out.add(n.attr)
        return out

    written: dict[str, set[str]] = {}
    for name, m in cls.methods.items():
        for n in walk_function(m.node):
            tgt = None
            if isinstance(n, ast.Assign) and isinstance(n.targets[0], ast.Subscript):
                tgt = n.targets[0].value
            elif isinstance(n, ast.Call) and isinstance(n.func, ast.Attribute) and n.func.attr in {"update", "setdefault", "pop", "clear", "__setitem__"}:
                tgt = n.func.value
            elif isinstance(n, ast.Delete):
                for t in n.targets:
                    if isinstance(t, ast.Subscript):
                        tgt = t.value
            if isinstance(tgt, ast.Attribute) and isinstance(tgt.value, ast.Name) and tgt.value.id == "self":
                written.setdefault(tgt.attr, set()).add(name)
    stores = sorted(written)
    getitem = cls.methods.get("__getitem__")
    if getitem is None or not stores:
        raise AnalysisError("vanished anchor: DynamicsSelector.__getitem__ / its store")
    key = getitem.params[1] if len(getitem.params) > 1 else None
    reads = sorted({n.attr for n in walk_function(getitem.node) if isinstance(n, ast.Attribute) and isinstance(n.value, ast.Name) and n.value.id == "self"})
    rets = [r for r in walk_function(getitem.node) if isinstance(r, ast.Return) and r.value is not None]
    main = None
    for r in rets:
        v = r.value
        if isinstance(v, ast.Subscript) and isinstance(v.value, ast.Attribute) and isinstance(v.value.value, ast.Name) and v.value.value.id == "self" and unparse(v.slice) == key:
            main = v.value.attr
    problems = []
    if main is None:
        problems.append("__getitem__ does not return self.<store>[key]")
    if len(rets) != 1:
        problems.append(f"__getitem__ has {len(rets)} return paths (a second source can shadow the store)")
    if main is not None and [a for a in reads if a != main]:
        problems.append(f"__getitem__ also consults {[a for a in reads if a != main]}")
    if main is not None and [st for st in stores if st != main]:
        problems.append(f"assign() also writes {[st for st in stores if st != main]} ({sorted(set().union(*[written[st] for st in stores if st != main]))})")
    for view in ("items", "keys", "values", "__iter__", "__len__"):
        m = cls.methods.get(view)
        if m is not None and main is not None:
            attrs = {n.attr for n in walk_function(m.node) if isinstance(n, ast.Attribute) and isinstance(n.value, ast.Name) and n.value.id == "self"}
            if attrs != {main}:
                problems.append(f"{view}() exposes {sorted(attrs)}, not the store `{main}`")
    ctx.verdict(not problems, "R-ONESTORE", f"{cls.qual}::single-store", tree.loc(getitem.node),
                f"DynamicsSelector: assign overloads, __getitem__ and the mapping views all operate on the one store `{main}`", problems or None)


def check_key_identity(ctx: Check, tree: Tree) -> None:
    """R-KEYIDENTITY: TwoBodyDecay is the key of the selector; two nodes that differ in parent,
    children or interaction (LS coupling) are different keys: no field is excluded from equality /
    hash, no hand-written __eq__/__hash__."""
    cls = tree.cls("ampform.helicity.decay::TwoBodyDecay")
    problems = []
    decs = [unparse(d) for _, d in cls.decorators] if cls.decorators else []
    for _, d in cls.decorators:
        if isinstance(d, ast.Call):
            for k in d.keywords:
                if k.arg in {"eq", "hash", "unsafe_hash", "order"} and isinstance(k.value, ast.Constant) and k.value.value is False and k.arg in {"eq", "hash"}:
                    problems.append(f"class decorator `{unparse(d)}` switches {k.arg} off")
    fields = []
    for st in cls.node.body:
        if isinstance(st, ast.AnnAssign) and isinstance(st.target, ast.Name):
            fields.append(st.target.id)
            if isinstance(st.value, ast.Call):
                for k in st.value.keywords:
                    if k.arg in {"eq", "hash", "compare"} and isinstance(k.value, ast.Constant) and k.value.value is False:
                        problems.append(f"field `{st.target.id}` is excluded from {k.arg} ({unparse(st.value)})")
    for name in ("__eq__", "__hash__"):
        if name in cls.methods:
            problems.append(f"hand-written {name}")
    if not {"parent", "children", "interaction"} <= set(fields):
        problems.append(f"fields are {fields}, expected parent, children, interaction")
    ctx.verdict(not problems, "R-KEYIDENTITY", f"{cls.qual}::equality", tree.loc(cls.node),
                f"TwoBodyDecay ({', '.join(decs)}) compares and hashes over all of its fields {fields}", problems or None)


def check_dynamics_domain(ctx: Check, tree: Tree) -> None:
    """R-DYNDOMAIN: a selection by resonance name denotes every node whose parent is that resonance
    in every chain that is formulated.  The builder also formulates the identical-particle
    permutations of each transition (`_perform_combinatorics`); the decays of those permuted
    transitions have other state ids, hence are other keys.  Either the selector registers them as
    well, or the lookup normalises the permuted decay to a registered one - otherwise
    `if decay not in self.dynamics: return 1` silently drops the lineshape of the permuted terms."""
    builder = tree.cls(f"{HEL}::HelicityAmplitudeBuilder")
    comb = "ampform.helicity::_perform_combinatorics"
    users = [(m, call) for m in builder.methods.values() for call, callee in tree.calls_in(m, nested=True) if callee == comb
             and m.name != "__init__"]
    if not users:
        ctx.info("R-DYNDOMAIN", tree.loc(builder.node), "the builder does not formulate identical-particle permutations itself")
        return
    sel = tree.cls(f"{HEL}::DynamicsSelector")
    init = sel.methods.get("__init__")
    if init is None:
        raise AnalysisError("vanished anchor: DynamicsSelector.__init__")
    rd = RD(init.node)
    registers = [n for n in walk_function(init.node) if isinstance(n, ast.Assign) and isinstance(n.targets[0], ast.Subscript)]
    if not registers:
        raise AnalysisError("DynamicsSelector.__init__: no registration of decays found")
    covered = False
    for n in registers:
        key = n.targets[0].slice
        texts = [unparse(key)] + [unparse(d.value) for d in rd.closure(rd.uses(key)) if isinstance(d.value, ast.AST)]
        loops = [a for a in ancestors(n) if isinstance(a, ast.For)]
        texts += [unparse(l.iter) for l in loops]
        for l in loops:
            texts += [unparse(d.value) for d in rd.closure(rd.uses(l.iter)) if isinstance(d.value, ast.AST)]
        if any("_perform_combinatorics(" in t for t in texts):
            covered = True
    # alternatively the lookup site normalises the decay
    fd = builder.methods.get("__formulate_dynamics")
    tolerant = fd is not None and any(isinstance(n, ast.Compare) and isinstance(n.ops[0], ast.NotIn) and "dynamics" in unparse(n.comparators[0]) for n in walk_function(fd.node))
    m0, call0 = users[0]
    ctx.verdict(covered, "R-DYNDOMAIN", f"{sel.qual}::permuted-decays-not-registered", tree.loc(init.node),
                f"DynamicsSelector registers the decays of every graph of `_perform_combinatorics(transition)`, the chains that {m0.name} formulates",
                None if covered else {
                    "why": f"{m0.qual} formulates `{unparse(call0)}`; TwoBodyDecay.from_transition of a permuted graph is not a key of the selector" + (" and __formulate_dynamics returns 1 for an unknown decay" if tolerant else ""),
                    "observed": "J/psi -> gamma pi0 pi0 via omega(782), dynamics.assign('omega(782)', create_relativistic_breit_wigner): 8 of the 16 chain terms (those with the pi0 exchanged, angles phi_01) carry no Breit-Wigner - the amplitude is not symmetric under the exchange of the identical particles",
                })


def check_defaults_cover_expression(ctx: Check, tree: Tree) -> None:
    """R-DEFAULTS (coverage): whatever the flags, every parameter symbol of the resonance (mass, width,
    meson radius) that occurs in the expression a library builder returns is a key of the parameter
    defaults it returns - otherwise the model contains a symbol that is neither a parameter nor a
    kinematic variable."""
    from ..terms import deep_atoms

    D.reset()
    te = TermEval(tree)
    pool, resonance, self_struct = builder_env(te)
    cls = tree.cls(f"{BLD}::RelativisticBreitWignerBuilder")
    symbols = te.eval_function(cls.methods["__create_symbols"], [resonance])
    names = dict(zip(("mass", "width", "meson radius"), symbols.items))
    atoms_of = {n: te.single_atom(te._rf(v)) for n, v in names.items()}
    call_m = cls.methods["__call__"]
    cases = []
    for edw in (False, True):
        for ff in (False, True):
            struct = {**self_struct, "energy_dependent_width": Opaque(edw), "form_factor": Opaque(ff)}
            cases.append((f"RelativisticBreitWignerBuilder(energy_dependent_width={edw}, form_factor={ff})", call_m, [struct, resonance, pool]))
    cases.append(("create_non_dynamic_with_ff", tree.func(f"{BLD}::create_non_dynamic_with_ff"), [resonance, pool]))
    for label, fn, args in cases:
        val = te.eval_function(fn, args)
        if not (isinstance(val, Tup) and len(val.items) == 2 and isinstance(val.items[1], DictV)):
            raise AnalysisError(f"{fn.qual}: does not return (expression, {{parameter: default}})")
        expr, defaults = val.items
        present = deep_atoms(te, expr)
        keys = {te.single_atom(te._rf(k)) for k, _ in defaults.items}
        missing = [n for n, a in atoms_of.items() if a in present and a not in keys]
        unused = [n for n, a in atoms_of.items() if a in keys and a not in present]
        ctx.verdict(not missing, "R-DEFAULTS", f"{fn.qual}::covers::{label}", tree.loc(fn.node),
                    f"{label}: every resonance parameter in the expression has a default ({len(defaults.items)} entries)",
                    None if not missing else f"the {', '.join(missing)} symbol occurs in the expression but not in the returned parameter defaults")
        if unused:
            ctx.advisory("R-DEFAULTS", tree.loc(fn.node), f"{label}: default for the {', '.join(unused)} although the expression does not contain it")


def run(ctx: Check, tree: Tree) -> None:
    ctx.decided += [
        "R-TERM: _generate_kinematic_variable_set wires parent mass / daughter masses / angles of children[0] / L of the node; the three lineshape builders feed M^2, the daughter masses and the pool's L into FormFactor / EnergyDependentWidth",
        "R-DEFAULTS: m -> resonance.mass, Gamma -> resonance.width, d -> 1 in every builder; duplicated symbol constructions agree",
        "R-DISPATCH: assign() registry {TwoBodyDecay, tuple, str, Particle}, each implementation reaches the single store, selection by parent particle name over all decays",
        "R-DYNDOMAIN: the selector's keys cover the decays of the identical-particle permutations that the builder formulates",
        "R-ONESTORE: assign overloads, __getitem__ and the views of DynamicsSelector operate on one store; R-KEYIDENTITY: TwoBodyDecay compares/hashes over parent, children and interaction",
        "R-SAMEDECAY: builder lookup, resonance argument, variable set and Wigner-D all refer to the same (transition, node)",
    ]
    ctx.not_decided += ["commutation of re-assignments in any order (last writer wins on a dict - a history property)", "custom builders"]
    ctx.assumptions += ["functools.singledispatchmethod dispatches on the type of the first argument"]
    ctx.section(check_variable_set, ctx, tree)
    ctx.section(check_builders_use_pool, ctx, tree)
    ctx.section(check_defaults_cover_expression, ctx, tree)
    ctx.section(check_symbol_duplicates, ctx, tree)
    ctx.section(check_dispatch, ctx, tree)
    ctx.section(check_same_decay, ctx, tree)
    ctx.section(check_selector_store, ctx, tree)
    ctx.section(check_key_identity, ctx, tree)
    ctx.section(check_dynamics_domain, ctx, tree)
