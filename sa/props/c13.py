"""C13 - dynamics attach to the right decay with the right variables and defaults.

R-TERM     the variable set of a node = (invariant mass of the decaying state, masses of its
           two daughters, helicity angles of children[0], L of that node when specified);
           lineshape builders feed M^2, the daughter masses and L of that pool.
R-DEFAULTS mass -> resonance.mass, width -> resonance.width, radius -> 1; duplicated symbol
           constructions agree.
R-DISPATCH assign() is implemented for {TwoBodyDecay, tuple, str, Particle}; every
           implementation ends in the single store; selection by name compares the parent.
R-SAMEDECAY the builder is looked up with the decay of the same (transition, node) whose
           variables it receives.
"""

from __future__ import annotations

import ast

from ..dataflow import RD
from ..inline import Inliner
from ..loader import AnalysisError, Tree, ancestors, unparse, walk_function
from ..poly import RF, D, equal, sym
from ..report import Check
from ..rules import symbol_sites
from ..terms import DictV, Opaque, TermEval, Tup
from .c12 import builder_env

PID = "C13"
HEL = "ampform.helicity"
BLD = "ampform.dynamics.builder"


def check_variable_set(ctx: Check, tree: Tree) -> None:
    fn = tree.func(f"{HEL}::_generate_kinematic_variable_set")
    inl = Inliner(fn.node)
    ret = next(r for r in walk_function(fn.node) if isinstance(r, ast.Return))
    call = ret.value
    if not (isinstance(call, ast.Call) and unparse(call.func) == "TwoBodyKinematicVariableSet"):
        raise AnalysisError("_generate_kinematic_variable_set does not return a TwoBodyKinematicVariableSet(...)")
    kw = {k.arg: unparse(inl.expr(k.value)).replace(" ", "") for k in call.keywords}
    decay = "TwoBodyDecay.from_transition(transition,node_id)"
    gk = "_generate_kinematic_variables(transition,node_id)"
    want = {
        "incoming_state_mass": f"{gk}[0]",
        "helicity_phi": f"{gk}[1]",
        "helicity_theta": f"{gk}[2]",
        "outgoing_state_mass1": f"get_invariant_mass_symbol(transition.topology,{decay}.children[0].id)",
        "outgoing_state_mass2": f"get_invariant_mass_symbol(transition.topology,{decay}.children[1].id)",
    }
    problems = [f"{k} = {kw.get(k)} (expected {v})" for k, v in want.items() if kw.get(k) != v]
    ctx.verdict(not problems, "R-TERM", f"{fn.qual}::roles", tree.loc(call),
                "variable set: incoming mass / angles from _generate_kinematic_variables, daughter masses = invariant-mass symbols of children[0], children[1] of the same decay", problems or None)
    g = tree.func(f"{HEL}::_generate_kinematic_variables")
    ginl = Inliner(g.node)
    gret = next(r for r in walk_function(g.node) if isinstance(r, ast.Return))
    elts = [unparse(ginl.expr(e)).replace(" ", "") for e in gret.value.elts] if isinstance(gret.value, ast.Tuple) else []
    ok = len(elts) == 3 and elts[0] == f"get_invariant_mass_symbol(transition.topology,{decay}.parent.id)" and elts[1] == f"get_helicity_angle_symbols(transition.topology,{decay}.children[0].id)[0]" and elts[2] == f"get_helicity_angle_symbols(transition.topology,{decay}.children[0].id)[1]"
    ctx.verdict(ok, "R-TERM", f"{g.qual}::roles", tree.loc(gret), "(mass, phi, theta) = (invariant mass of decay.parent, angle symbols of decay.children[0])", None if ok else elts)
    # angular momentum: first definition is the node's L; every other definition is under `is None` of the same variable
    rd = RD(fn.node)
    am_arg = next(k.value for k in call.keywords if k.arg == "angular_momentum")
    defs = sorted(rd.reaching(am_arg), key=lambda d: d.lineno) if isinstance(am_arg, ast.Name) else []
    problems = []
    if not defs:
        problems.append("angular_momentum is not a local variable")
    else:
        first = defs[0]
        if first.value is None or unparse(inl.expr(first.value)).replace(" ", "") != f"{decay}.interaction.l_magnitude":
            problems.append(f"first definition is `{unparse(first.value) if first.value is not None else None}`, not decay.interaction.l_magnitude")
        for d in defs[1:]:
            from ..loader import ancestors

            guards = [a for a in ancestors(d.node) if isinstance(a, ast.If)]
            ok_guard = any(f"{am_arg.id} is None" in unparse(a.test) for a in guards)
            if not ok_guard:
                problems.append(f"`{unparse(d.node)[:60]}` overrides L although the transition specifies one")
    ctx.verdict(not problems, "R-TERM", f"{fn.qual}::angular-momentum", tree.loc(call),
                "angular_momentum = L of that node whenever the transition specifies one (fallbacks only under `is None`)", problems or None)


def check_builders_use_pool(ctx: Check, tree: Tree) -> None:
    D.reset()
    te = TermEval(tree)
    pool, resonance, self_struct = builder_env(te)
    M, m1, m2, L = pool["incoming_state_mass"], pool["outgoing_state_mass1"], pool["outgoing_state_mass2"], pool["angular_momentum"]
    cls = tree.cls(f"{BLD}::RelativisticBreitWignerBuilder")
    symbols = te.eval_function(cls.methods["__create_symbols"], [resonance])
    res_mass, res_width, radius = symbols.items
    cases = [
        (tree.func(f"{BLD}::create_non_dynamic_with_ff"), [resonance, pool], "FormFactor", {"s": M**2, "m1": m1, "m2": m2, "angular_momentum": L}),
        (cls.methods["__create_form_factor"], [self_struct, resonance, pool], "FormFactor", {"s": M**2, "m1": m1, "m2": m2, "angular_momentum": L}),
        (cls.methods["__energy_dependent_breit_wigner"], [self_struct, resonance, pool], "EnergyDependentWidth", {"s": M**2, "m_a": m1, "m_b": m2, "angular_momentum": L}),
    ]
    for fn, args, cls_name, roles in cases:
        val = te.eval_function(fn, args)
        expr = val.items[0] if isinstance(val, Tup) else val
        apps = [a for a in _deep_app_atoms(te, expr) if te.apps[a].cls.endswith(f"::{cls_name}")]
        problems = []
        if len(apps) != 1:
            problems.append(f"{len(apps)} applications of {cls_name}")
        else:
            info = te.apps[apps[0]]
            ecls = te.classes[info.cls]
            got = dict(zip([f.name for f in ecls.sympy_fields], info.args))
            for role, want in roles.items():
                if role not in got or not equal(te._rf(got[role]), want):
                    problems.append(f"{role} = {got.get(role)!r} instead of {want!r}")
        ctx.verdict(not problems, "R-TERM", f"{fn.qual}::pool-wiring", tree.loc(fn.node),
                    f"{fn.qual.split('::')[-1]}: {cls_name} receives s = incoming_state_mass^2, the two outgoing masses and variable_pool.angular_momentum", problems or None)
        # defaults
        if isinstance(val, Tup) and isinstance(val.items[1], DictV):
            check_defaults(ctx, tree, te, fn, val.items[1], res_mass, res_width, radius)
    simple = te.eval_function(cls.methods["__simple_breit_wigner"], [resonance, pool])
    if isinstance(simple, Tup) and isinstance(simple.items[1], DictV):
        check_defaults(ctx, tree, te, cls.methods["__simple_breit_wigner"], simple.items[1], res_mass, res_width, radius)
    nd = te.eval_function(tree.func(f"{BLD}::create_non_dynamic"), [resonance, pool])
    ok = isinstance(nd, Tup) and isinstance(nd.items[0], RF) and equal(nd.items[0], RF.const(1)) and isinstance(nd.items[1], DictV) and not nd.items[1].items
    ctx.verdict(ok, "R-TERM", f"{BLD}::create_non_dynamic", tree.loc(tree.func(f"{BLD}::create_non_dynamic").node), "create_non_dynamic returns (1, {}) - unassigned nodes leave the amplitude untouched")


def _deep_app_atoms(te: TermEval, v) -> set:
    from ..terms import deep_atoms

    return {a for a in deep_atoms(te, v) if te.is_app(a) and a in te.apps}


def check_defaults(ctx: Check, tree: Tree, te: TermEval, fn, defaults: DictV, res_mass, res_width, radius) -> None:
    want = {
        repr(te._rf(res_mass).key()): ("mass", Opaque(("attr", ("resonance",), "mass"))),
        repr(te._rf(res_width).key()): ("width", Opaque(("attr", ("resonance",), "width"))),
        repr(te._rf(radius).key()): ("radius", RF.const(1)),
    }
    problems = []
    for k, v in defaults.items:
        kk = repr(te._rf(k).key())
        if kk not in want:
            problems.append(f"unexpected parameter {k!r}")
            continue
        role, w = want[kk]
        same = (isinstance(w, RF) and isinstance(v, RF) and equal(v, w)) or (isinstance(w, Opaque) and isinstance(v, Opaque) and v.key == w.key)
        if not same:
            problems.append(f"default of the {role} parameter is {v!r}, not {'resonance.' + role if role != 'radius' else '1'}")
    ctx.verdict(not problems, "R-DEFAULTS", f"{fn.qual}::defaults", tree.loc(fn.node),
                f"{fn.qual.split('::')[-1]}: parameter defaults {{m_res: resonance.mass, Gamma_res: resonance.width, d_res: 1}} ({len(defaults.items)} entries)", problems or None)


def check_symbol_duplicates(ctx: Check, tree: Tree) -> None:
    sites = symbol_sites(tree, [BLD])
    groups: dict[str, list[dict]] = {}
    for s in sites:
        if s["skeleton"] is not None:
            groups.setdefault(s["skeleton"], []).append(s)
    if len(sites) < 6:
        raise AnalysisError(f"only {len(sites)} symbol sites in dynamics/builder.py (6+ confirmed)")
    for skel, members in sorted(groups.items()):
        if len(members) < 2:
            continue
        sigs = {(m["kind"], tuple(sorted(m["assumptions"].items()))) for m in members}
        ctx.verdict(len(sigs) == 1, "R-DEFAULTS", f"{BLD}::symbol `{skel}`", tree.loc(members[0]["node"]),
                    f"symbol `{skel}`: {len(members)} construction sites in builder.py agree in kind and assumptions (equal-named parameters are one parameter)",
                    None if len(sigs) == 1 else [{"fn": m["fn"], "assumptions": m["assumptions"]} for m in members])
    # every site builds the identifier the same way: the placeholder of each symbol name
    idents = set()
    for m_ in sites:
        fn = tree.funcs[m_["fn"]]
        rd = RD(fn.node)
        name_node = m_["node"].args[0]
        for ph in [v.value for v in ast.walk(name_node) if isinstance(v, ast.FormattedValue)]:
            if isinstance(ph, ast.Name):
                vals = {unparse(d.value) for d in rd.reaching(ph) if d.value is not None}
                idents |= vals or {ph.id}
            else:
                idents.add(unparse(ph))
    ctx.verdict(len(idents) == 1, "R-DEFAULTS", f"{BLD}::identifier", BLD.replace(".", "/"), f"the resonance identifier is built the same way at every site: {sorted(idents)}")


def check_dispatch(ctx: Check, tree: Tree) -> None:
    cls = tree.cls(f"{HEL}::DynamicsSelector")
    impls: dict[str, ast.FunctionDef] = {}
    base = None
    for st in cls.node.body:
        if isinstance(st, ast.FunctionDef):
            for dec in st.decorator_list:
                if isinstance(dec, ast.Call) and unparse(dec.func) == "assign.register" and dec.args:
                    impls[unparse(dec.args[0])] = st
                if unparse(dec) == "singledispatchmethod" and st.name == "assign":
                    base = st
    if base is None:
        raise AnalysisError("vanished anchor: DynamicsSelector.assign is not a singledispatchmethod")
    want = {"TwoBodyDecay", "tuple", "str", "Particle"}
    ctx.verdict(set(impls) == want, "R-DISPATCH", f"{cls.qual}.assign::registry", tree.loc(base), f"assign() is registered for {sorted(impls)}", None if set(impls) == want else f"expected {sorted(want)}")
    base_raises = any(isinstance(n, ast.Raise) for n in ast.walk(base))
    ctx.verdict(base_raises, "R-DISPATCH", f"{cls.qual}.assign::fallback-raises", tree.loc(base), "unsupported selection types raise instead of being ignored")
    # every implementation reaches the store self.__choices[<decay>] = builder (directly or by delegating)
    stores_direct = {}
    for t, fn in impls.items():
        stores = [n for n in ast.walk(fn) if isinstance(n, ast.Assign) and isinstance(n.targets[0], ast.Subscript) and "__choices" in unparse(n.targets[0].value)]
        delegates = [n for n in ast.walk(fn) if isinstance(n, ast.Call) and unparse(n.func) == "self.assign"]
        stores_direct[t] = (stores, delegates)
        builder_param = fn.args.args[2].arg if len(fn.args.args) > 2 else None
        problems = []
        if not stores and not delegates:
            problems.append("neither stores into the choices nor delegates to another implementation")
        for s in stores:
            if unparse(s.value) != builder_param:
                problems.append(f"stores `{unparse(s.value)}` instead of the given builder")
        for d in delegates:
            if len(d.args) != 2 or unparse(d.args[1]) != builder_param:
                problems.append(f"delegation `{unparse(d)}` does not pass the builder on")
        if t == "TwoBodyDecay":
            # "one specific decay": exactly the given key is written - no search over the registered keys
            sel_param = fn.args.args[1].arg if len(fn.args.args) > 1 else None
            if len(stores) != 1 or unparse(stores[0].targets[0].slice) != sel_param:
                problems.append(f"does not store under exactly the given decay `{sel_param}` ({[unparse(s_.targets[0]) for s_ in stores]})")
            if any(isinstance(n, (ast.For, ast.While, ast.ListComp, ast.SetComp, ast.GeneratorExp, ast.DictComp)) for n in ast.walk(fn)):
                problems.append("searches the registered decays: a selection of ONE decay can then change several nodes (e.g. all helicity combinations of the node)")
        ctx.verdict(not problems, "R-DISPATCH", f"{cls.qual}.assign[{t}]::reaches-store", tree.loc(fn), f"assign[{t}] ends in the single store of the given builder ({'direct' if stores else 'delegating'})", problems or None)
    # by name: compares the parent particle's name, iterates all keys, stores under the iterated key
    fn = impls.get("str")
    if fn is not None:
        loops = [n for n in ast.walk(fn) if isinstance(n, ast.For)]
        problems = []
        if len(loops) != 1 or "__choices" not in unparse(loops[0].iter):
            problems.append("does not iterate all registered decays")
        else:
            loop = loops[0]
            var = unparse(loop.target)
            lrd = RD(fn)
            tests = [n for n in ast.walk(loop) if isinstance(n, ast.If)]
            if not tests:
                problems.append("no name comparison")
            else:
                t = tests[0]
                cmp_ = t.test
                sides = []
                if isinstance(cmp_, ast.Compare) and len(cmp_.ops) == 1 and isinstance(cmp_.ops[0], ast.Eq):
                    for side in (cmp_.left, cmp_.comparators[0]):
                        txt = unparse(side)
                        for d in lrd.closure(lrd.uses(side)):
                            if d.value is not None:
                                txt += " <- " + unparse(d.value)
                        sides.append(txt)
                joined = " | ".join(sides)
                if not (f"{var}.parent.particle" in joined and ".name" in joined):
                    problems.append(f"compares `{unparse(cmp_)}`: selection is not by the parent particle's name")
                if f"{var}.children" in joined:
                    problems.append("selection looks at the children")
                st = [n for n in ast.walk(t) if isinstance(n, ast.Assign) and isinstance(n.targets[0], ast.Subscript)]
                if not st or unparse(st[0].targets[0].slice) != var:
                    problems.append("stores under a key other than the iterated decay")
            if any(isinstance(n, (ast.Break, ast.Return)) for n in ast.walk(loop)):
                problems.append("stops at the first match (other chains with the same resonance keep their old builder)")
        ctx.verdict(not problems, "R-DISPATCH", f"{cls.qual}.assign[str]::by-parent-name", tree.loc(fn), "assign[str]: every decay whose parent particle has that name gets the builder", problems or None)
    fn = impls.get("Particle")
    if fn is not None:
        d = [n for n in ast.walk(fn) if isinstance(n, ast.Call) and unparse(n.func) == "self.assign"]
        ok = len(d) == 1 and unparse(d[0].args[0]).endswith(".name")
        ctx.verdict(ok, "R-DISPATCH", f"{cls.qual}.assign[Particle]::by-name", tree.loc(fn), "assign[Particle] selects by the particle's name")
    fn = impls.get("tuple")
    if fn is not None:
        ok = "TwoBodyDecay.create(" in unparse(fn)
        ctx.verdict(ok, "R-DISPATCH", f"{cls.qual}.assign[tuple]::creates-decay", tree.loc(fn), "assign[(transition, node)] converts to the TwoBodyDecay of exactly that node")
    # __init__ registers every node of every transition with the neutral builder
    init = cls.methods["__init__"]
    ird = RD(init.node)
    ok = False
    why = []
    for st in [n for n in walk_function(init.node) if isinstance(n, ast.Assign) and isinstance(n.targets[0], ast.Subscript) and unparse(n.value) == "create_non_dynamic"]:
        key = st.targets[0].slice
        kdefs = [d for d in ird.reaching(key)] if isinstance(key, ast.Name) else []
        calls = [d.value for d in kdefs if isinstance(d.value, ast.Call) and unparse(d.value.func) == "TwoBodyDecay.from_transition" and len(d.value.args) == 2]
        if len(calls) != 1 or len(kdefs) != 1:
            why.append("key is not TwoBodyDecay.from_transition(transition, node)")
            continue
        t_arg, n_arg = calls[0].args
        loops = [a for a in ancestors(st) if isinstance(a, ast.For)]
        node_loop = next((l for l in loops if isinstance(l.target, ast.Name) and isinstance(n_arg, ast.Name) and l.target.id == n_arg.id), None)
        if node_loop is None or unparse(node_loop.iter) != f"{unparse(t_arg)}.topology.nodes":
            why.append("the node does not range over all nodes of that transition's topology")
            continue
        tdeps = ird.closure(ird.uses(t_arg))
        from_param = any(d.kind == "param" and d.name == init.params[1] for d in tdeps) if len(init.params) > 1 else False
        jumps = any(isinstance(n, (ast.Continue, ast.Break)) for l in loops for n in ast.walk(l))
        guarded = any(isinstance(a, ast.If) for a in ancestors(st) if a is not init.node and not isinstance(a, (ast.For, ast.FunctionDef, ast.ClassDef, ast.Module)))
        if from_param and not jumps and not guarded:
            ok = True
        else:
            why.append("registration is conditional / leaves loops early / does not derive from the constructor argument")
    ctx.verdict(ok, "R-DISPATCH", f"{cls.qual}.__init__::all-nodes", tree.loc(init.node), "every node of every (also permuted) transition starts with create_non_dynamic", None if ok else why)


def check_same_decay(ctx: Check, tree: Tree) -> None:
    from ..paths import PathWalker

    fn = tree.func(f"{HEL}::HelicityAmplitudeBuilder.__formulate_dynamics")
    inl = Inliner(fn.node)
    frd = RD(fn.node)
    # the builder call: a call of a local that was looked up in self.dynamics[...]
    calls = []
    for c in walk_function(fn.node):
        if isinstance(c, ast.Call) and isinstance(c.func, ast.Name):
            defs = frd.reaching(c.func)
            if defs and all(d.value is not None and unparse(d.value).startswith("self.dynamics[") for d in defs):
                calls.append(c)
    if len(calls) != 1:
        raise AnalysisError("__formulate_dynamics: expected one call of the builder looked up in self.dynamics[...]")
    c = calls[0]
    # positional arguments, looking through a starred local tuple
    pos = []
    for a in c.args:
        if isinstance(a, ast.Starred):
            v = inl.expr(a.value)
            if isinstance(v, ast.Tuple):
                pos.extend(v.elts)
            else:
                raise AnalysisError(f"__formulate_dynamics: builder called with *{unparse(a.value)} which is not a local tuple")
        else:
            pos.append(inl.expr(a))
    if len(pos) < 2:
        raise AnalysisError("__formulate_dynamics: builder call has fewer than two positional arguments")
    a0 = unparse(inl.expr(pos[0])).replace(" ", "")
    a1 = unparse(inl.expr(pos[1])).replace(" ", "")
    decay = "TwoBodyDecay.from_transition(transition,node_id)"
    b = next(iter(frd.reaching(c.func)))
    lookup = unparse(inl.expr(b.value)).replace(" ", "")
    # must-pass-through: every path that returns a lineshape executes the call of THIS node's builder,
    # unless the value comes out of a memo whose key derives from the builder or the decay
    walker = PathWalker(tree)
    skipped = []
    for path in walker.paths(fn):
        if path.exit != "return" or path.exit_node is None or unparse(path.exit_node.value) == "sp.S.One":
            continue
        executed = any(ev[0] == "stmt" and any(n is c for n in ast.walk(ev[1])) for ev in path.events)
        if executed:
            continue
        # memo lookups on this path
        keyed_ok = False
        ret_defs = {d.node for d in frd.closure(frd.uses(path.exit_node.value))}
        for ev in path.events:
            if ev[0] == "stmt" and isinstance(ev[1], ast.Assign) and isinstance(ev[1].value, ast.Subscript) and ev[1] in ret_defs and ev[1] is not b.node:
                key_expr = inl.expr(ev[1].value.slice)
                elements = key_expr.elts if isinstance(key_expr, ast.Tuple) else [key_expr]
                lookup_key = unparse(inl.expr(b.value.slice)) if isinstance(b.value, ast.Subscript) else None
                for el in elements:
                    # the builder object itself, or the very decay the builder was looked up with
                    if isinstance(el, ast.Name) and b in frd.reaching(ev[1].value.slice if isinstance(ev[1].value.slice, ast.Name) else el):
                        keyed_ok = True
                    if unparse(el) in {lookup_key, unparse(b.value)}:
                        keyed_ok = True
        if not keyed_ok:
            skipped.append(path)
    # the neutral result 1 is only returned for a decay the selector does not know
    for r in [r for r in walk_function(fn.node, nested=False) if isinstance(r, ast.Return) and r.value is not None and unparse(r.value) in {"sp.S.One", "1", "sp.Integer(1)"}]:
        guards = [a for a in ancestors(r) if isinstance(a, ast.If)]
        ok_g = any(isinstance(g.test, ast.Compare) and len(g.test.ops) == 1 and isinstance(g.test.ops[0], ast.NotIn) and "dynamics" in unparse(g.test.comparators[0])
                   and any(r is n for b_ in g.body for n in ast.walk(b_)) for g in guards)
        ctx.verdict(ok_g, "R-SAMEDECAY", f"{fn.qual}::neutral-only-for-unknown-decay", tree.loc(r),
                    "`return 1` (no dynamics) is only reached when the decay is not a key of the selector",
                    None if ok_g else {"guards": [unparse(g.test) for g in guards]})
    ctx.verdict(not skipped, "R-SAMEDECAY", f"{fn.qual}::builder-called-on-every-path", tree.loc(c),
                "every path of __formulate_dynamics that returns a lineshape calls the builder assigned to THIS decay (or reads a memo keyed by that builder / decay)",
                None if not skipped else f"{len(skipped)} path(s) return an expression without calling `{unparse(c.func)}`: a lineshape formulated for another decay / by another builder is reused")
    problems = []
    if a0 != f"{decay}.parent.particle":
        problems.append(f"resonance argument is {a0}")
    if a1 != "_generate_kinematic_variable_set(transition,node_id)":
        problems.append(f"variable set is {a1}")
    if lookup != f"self.dynamics[{decay}]":
        problems.append(f"builder looked up with {lookup}")
    ctx.verdict(not problems, "R-SAMEDECAY", f"{fn.qual}::same-node", tree.loc(c),
                "__formulate_dynamics: builder = dynamics[decay(transition, node)], called with that decay's parent particle and the variable set of the same (transition, node)", problems or None)
    rets = [r for r in walk_function(fn.node) if isinstance(r, ast.Return)]
    kinds = set()
    for r in rets:
        if unparse(r.value) == "sp.S.One":
            kinds.add("one")
        elif isinstance(r.value, ast.Name) and any(d.index == 0 and d.value is c for d in frd.reaching(r.value)):
            kinds.add("expression")
        else:
            kinds.add(unparse(r.value))
    ok = kinds == {"one", "expression"}
    rets = sorted(kinds)
    ctx.verdict(ok, "R-SAMEDECAY", f"{fn.qual}::returns", tree.loc(fn.node), "returns the builder's expression (or 1 for an unknown decay)", None if ok else rets)
    # the expression multiplies the Wigner-D of the same node
    pd = tree.func(f"{HEL}::HelicityAmplitudeBuilder._formulate_partial_decay")
    t = unparse(pd.node)
    ok = "formulate_isobar_wigner_d(transition, node_id)" in t and "self.__formulate_dynamics(transition, node_id)" in t
    ctx.verdict(ok, "R-SAMEDECAY", f"{pd.qual}::same-node", tree.loc(pd.node), "the dynamics of (transition, node) multiply the Wigner-D of the same (transition, node)")


def check_selector_store(ctx: Check, tree: Tree) -> None:
    """R-ONESTORE: DynamicsSelector is a mapping over ONE store.  What __getitem__ returns for a
    decay (used by __formulate_dynamics) is what the last assign() that denotes that decay wrote,
    and what items()/values() show: every assign overload writes only that store, __getitem__
    reads only that store with its key, the views expose that store."""
    cls = tree.cls(f"{HEL}::DynamicsSelector")
    def self_attrs(fn, ctx_type):
        out = set()
        for n in walk_function(fn.node):
            if isinstance(n, ast.Attribute) and isinstance(n.value, ast.Name) and n.value.id == "self" and isinstance(n.ctx, ast.Load):
                par = getattr(n, "_parent", None)
                out.add(n.attr)
        return out

    written: dict[str, set[str]] = {}
    for name, m in cls.methods.items():
        for n in walk_function(m.node):
            tgt = None
            if isinstance(n, ast.Assign) and isinstance(n.targets[0], ast.Subscript):
                tgt = n.targets[0].value
            elif isinstance(n, ast.Call) and isinstance(n.func, ast.Attribute) and n.func.attr in {"update", "setdefault", "pop", "clear", "__setitem__"}:
                tgt = n.func.value
            elif isinstance(n, ast.Delete):
                for t in n.targets:
                    if isinstance(t, ast.Subscript):
                        tgt = t.value
            if isinstance(tgt, ast.Attribute) and isinstance(tgt.value, ast.Name) and tgt.value.id == "self":
                written.setdefault(tgt.attr, set()).add(name)
    stores = sorted(written)
    getitem = cls.methods.get("__getitem__")
    if getitem is None or not stores:
        raise AnalysisError("vanished anchor: DynamicsSelector.__getitem__ / its store")
    key = getitem.params[1] if len(getitem.params) > 1 else None
    reads = sorted({n.attr for n in walk_function(getitem.node) if isinstance(n, ast.Attribute) and isinstance(n.value, ast.Name) and n.value.id == "self"})
    rets = [r for r in walk_function(getitem.node) if isinstance(r, ast.Return) and r.value is not None]
    main = None
    for r in rets:
        v = r.value
        if isinstance(v, ast.Subscript) and isinstance(v.value, ast.Attribute) and isinstance(v.value.value, ast.Name) and v.value.value.id == "self" and unparse(v.slice) == key:
            main = v.value.attr
    problems = []
    if main is None:
        problems.append("__getitem__ does not return self.<store>[key]")
    if len(rets) != 1:
        problems.append(f"__getitem__ has {len(rets)} return paths (a second source can shadow the store)")
    if main is not None and [a for a in reads if a != main]:
        problems.append(f"__getitem__ also consults {[a for a in reads if a != main]}")
    if main is not None and [st for st in stores if st != main]:
        problems.append(f"assign() also writes {[st for st in stores if st != main]} ({sorted(set().union(*[written[st] for st in stores if st != main]))})")
    for view in ("items", "keys", "values", "__iter__", "__len__"):
        m = cls.methods.get(view)
        if m is not None and main is not None:
            attrs = {n.attr for n in walk_function(m.node) if isinstance(n, ast.Attribute) and isinstance(n.value, ast.Name) and n.value.id == "self"}
            if attrs != {main}:
                problems.append(f"{view}() exposes {sorted(attrs)}, not the store `{main}`")
    ctx.verdict(not problems, "R-ONESTORE", f"{cls.qual}::single-store", tree.loc(getitem.node),
                f"DynamicsSelector: assign overloads, __getitem__ and the mapping views all operate on the one store `{main}`", problems or None)


def check_key_identity(ctx: Check, tree: Tree) -> None:
    """R-KEYIDENTITY: TwoBodyDecay is the key of the selector; two nodes that differ in parent,
    children or interaction (LS coupling) are different keys: no field is excluded from equality /
    hash, no hand-written __eq__/__hash__."""
    cls = tree.cls("ampform.helicity.decay::TwoBodyDecay")
    problems = []
    decs = [unparse(d) for _, d in cls.decorators] if cls.decorators else []
    for _, d in cls.decorators:
        if isinstance(d, ast.Call):
            for k in d.keywords:
                if k.arg in {"eq", "hash", "unsafe_hash", "order"} and isinstance(k.value, ast.Constant) and k.value.value is False and k.arg in {"eq", "hash"}:
                    problems.append(f"class decorator `{unparse(d)}` switches {k.arg} off")
    fields = []
    for st in cls.node.body:
        if isinstance(st, ast.AnnAssign) and isinstance(st.target, ast.Name):
            fields.append(st.target.id)
            if isinstance(st.value, ast.Call):
                for k in st.value.keywords:
                    if k.arg in {"eq", "hash", "compare"} and isinstance(k.value, ast.Constant) and k.value.value is False:
                        problems.append(f"field `{st.target.id}` is excluded from {k.arg} ({unparse(st.value)})")
    for name in ("__eq__", "__hash__"):
        if name in cls.methods:
            problems.append(f"hand-written {name}")
    if not {"parent", "children", "interaction"} <= set(fields):
        problems.append(f"fields are {fields}, expected parent, children, interaction")
    ctx.verdict(not problems, "R-KEYIDENTITY", f"{cls.qual}::equality", tree.loc(cls.node),
                f"TwoBodyDecay ({', '.join(decs)}) compares and hashes over all of its fields {fields}", problems or None)


def check_dynamics_domain(ctx: Check, tree: Tree) -> None:
    """R-DYNDOMAIN: a selection by resonance name denotes every node whose parent is that resonance
    in every chain that is formulated.  The builder also formulates the identical-particle
    permutations of each transition (`_perform_combinatorics`); the decays of those permuted
    transitions have other state ids, hence are other keys.  Either the selector registers them as
    well, or the lookup normalises the permuted decay to a registered one - otherwise
    `if decay not in self.dynamics: return 1` silently drops the lineshape of the permuted terms."""
    builder = tree.cls(f"{HEL}::HelicityAmplitudeBuilder")
    comb = "ampform.helicity::_perform_combinatorics"
    users = [(m, call) for m in builder.methods.values() for call, callee in tree.calls_in(m, nested=True) if callee == comb
             and m.name != "__init__"]
    if not users:
        ctx.info("R-DYNDOMAIN", tree.loc(builder.node), "the builder does not formulate identical-particle permutations itself")
        return
    sel = tree.cls(f"{HEL}::DynamicsSelector")
    init = sel.methods.get("__init__")
    if init is None:
        raise AnalysisError("vanished anchor: DynamicsSelector.__init__")
    rd = RD(init.node)
    registers = [n for n in walk_function(init.node) if isinstance(n, ast.Assign) and isinstance(n.targets[0], ast.Subscript)]
    if not registers:
        raise AnalysisError("DynamicsSelector.__init__: no registration of decays found")
    covered = False
    for n in registers:
        key = n.targets[0].slice
        texts = [unparse(key)] + [unparse(d.value) for d in rd.closure(rd.uses(key)) if isinstance(d.value, ast.AST)]
        loops = [a for a in ancestors(n) if isinstance(a, ast.For)]
        texts += [unparse(l.iter) for l in loops]
        for l in loops:
            texts += [unparse(d.value) for d in rd.closure(rd.uses(l.iter)) if isinstance(d.value, ast.AST)]
        if any("_perform_combinatorics(" in t for t in texts):
            covered = True
    # alternatively the lookup site normalises the decay
    fd = builder.methods.get("__formulate_dynamics")
    tolerant = fd is not None and any(isinstance(n, ast.Compare) and isinstance(n.ops[0], ast.NotIn) and "dynamics" in unparse(n.comparators[0]) for n in walk_function(fd.node))
    m0, call0 = users[0]
    ctx.verdict(covered, "R-DYNDOMAIN", f"{sel.qual}::permuted-decays-not-registered", tree.loc(init.node),
                f"DynamicsSelector registers the decays of every graph of `_perform_combinatorics(transition)`, the chains that {m0.name} formulates",
                None if covered else {
                    "why": f"{m0.qual} formulates `{unparse(call0)}`; TwoBodyDecay.from_transition of a permuted graph is not a key of the selector" + (" and __formulate_dynamics returns 1 for an unknown decay" if tolerant else ""),
                    "observed": "J/psi -> gamma pi0 pi0 via omega(782), dynamics.assign('omega(782)', create_relativistic_breit_wigner): 8 of the 16 chain terms (those with the pi0 exchanged, angles phi_01) carry no Breit-Wigner - the amplitude is not symmetric under the exchange of the identical particles",
                })


def check_defaults_cover_expression(ctx: Check, tree: Tree) -> None:
    """R-DEFAULTS (coverage): whatever the flags, every parameter symbol of the resonance (mass, width,
    meson radius) that occurs in the expression a library builder returns is a key of the parameter
    defaults it returns - otherwise the model contains a symbol that is neither a parameter nor a
    kinematic variable."""
    from ..terms import deep_atoms

    D.reset()
    te = TermEval(tree)
    pool, resonance, self_struct = builder_env(te)
    cls = tree.cls(f"{BLD}::RelativisticBreitWignerBuilder")
    symbols = te.eval_function(cls.methods["__create_symbols"], [resonance])
    names = dict(zip(("mass", "width", "meson radius"), symbols.items))
    atoms_of = {n: te.single_atom(te._rf(v)) for n, v in names.items()}
    call_m = cls.methods["__call__"]
    cases = []
    for edw in (False, True):
        for ff in (False, True):
            struct = {**self_struct, "energy_dependent_width": Opaque(edw), "form_factor": Opaque(ff)}
            cases.append((f"RelativisticBreitWignerBuilder(energy_dependent_width={edw}, form_factor={ff})", call_m, [struct, resonance, pool]))
    cases.append(("create_non_dynamic_with_ff", tree.func(f"{BLD}::create_non_dynamic_with_ff"), [resonance, pool]))
    for label, fn, args in cases:
        val = te.eval_function(fn, args)
        if not (isinstance(val, Tup) and len(val.items) == 2 and isinstance(val.items[1], DictV)):
            raise AnalysisError(f"{fn.qual}: does not return (expression, {{parameter: default}})")
        expr, defaults = val.items
        present = deep_atoms(te, expr)
        keys = {te.single_atom(te._rf(k)) for k, _ in defaults.items}
        missing = [n for n, a in atoms_of.items() if a in present and a not in keys]
        unused = [n for n, a in atoms_of.items() if a in keys and a not in present]
        ctx.verdict(not missing, "R-DEFAULTS", f"{fn.qual}::covers::{label}", tree.loc(fn.node),
                    f"{label}: every resonance parameter in the expression has a default ({len(defaults.items)} entries)",
                    None if not missing else f"the {', '.join(missing)} symbol occurs in the expression but not in the returned parameter defaults")
        if unused:
            ctx.advisory("R-DEFAULTS", tree.loc(fn.node), f"{label}: default for the {', '.join(unused)} although the expression does not contain it")


def run(ctx: Check, tree: Tree) -> None:
    ctx.decided += [
        "R-TERM: _generate_kinematic_variable_set wires parent mass / daughter masses / angles of children[0] / L of the node; the three lineshape builders feed M^2, the daughter masses and the pool's L into FormFactor / EnergyDependentWidth",
        "R-DEFAULTS: m -> resonance.mass, Gamma -> resonance.width, d -> 1 in every builder; duplicated symbol constructions agree",
        "R-DISPATCH: assign() registry {TwoBodyDecay, tuple, str, Particle}, each implementation reaches the single store, selection by parent particle name over all decays",
        "R-DYNDOMAIN: the selector's keys cover the decays of the identical-particle permutations that the builder formulates",
        "R-ONESTORE: assign overloads, __getitem__ and the views of DynamicsSelector operate on one store; R-KEYIDENTITY: TwoBodyDecay compares/hashes over parent, children and interaction",
        "R-SAMEDECAY: builder lookup, resonance argument, variable set and Wigner-D all refer to the same (transition, node)",
    ]
    ctx.not_decided += ["commutation of re-assignments in any order (last writer wins on a dict - a history property)", "custom builders"]
    ctx.assumptions += ["functools.singledispatchmethod dispatches on the type of the first argument"]
    ctx.section(check_variable_set, ctx, tree)
    ctx.section(check_builders_use_pool, ctx, tree)
    ctx.section(check_defaults_cover_expression, ctx, tree)
    ctx.section(check_symbol_duplicates, ctx, tree)
    ctx.section(check_dispatch, ctx, tree)
    ctx.section(check_same_decay, ctx, tree)
    ctx.section(check_selector_store, ctx, tree)
    ctx.section(check_key_identity, ctx, tree)
    ctx.section(check_dynamics_domain, ctx, tree)
