"""C05 - spin alignment never changes a single-topology intensity.

Decided: (a) formulating an aligned model cannot fail on an unguarded ``remove``
(R-GUARD); (b) the alignment sums run over the spin range of the rotated state
(R-WIRING); the loop of ``create_spin_range`` runs -s .. s in unit steps (R-RANGE).

The rules about what a function COMPUTES (DPD summand / wiring / generator, the walk of the
axis-angle chain, the arguments of the Wigner rotation) are judged on the values of sa/symex.py
(symbolic execution: temporaries, unpacking, helper functions, keyword arguments, unrolled tables,
comprehensions, while loops and recursion give the same value as the original spelling); a value the
executor cannot follow is an ANALYSIS-ERROR, never a pass or a violation.
"""

from __future__ import annotations

import ast
import re

from ..dataflow import RD
from ..inline import Inliner
from ..loader import AnalysisError, FuncInfo, Tree, ancestors, unparse, walk_function
from ..report import Check
from ..symex import NONE, SymEx, alternatives, calls_of, cases, func_name, is_const, show, show_pc, subst, subterms

PID = "C05"

# `.remove(x)` sites whose membership is a structural invariant (read and confirmed)
INVARIANT_REMOVES = {
    ("ampform.helicity.decay::get_sibling_state_id", "state_id"): "state_id (the function's parameter) is by construction one of the outgoing edges of "
    "its own originating node (edge_ids = get_edge_ids_outgoing_from_node(parent node of state_id))",
    ("ampform.kinematics.lorentz::__get_boost_chain_ids", "next(iter(topology.incoming_edge_ids))"): "list_decay_chain_ids walks up to the "
    "incoming edge, so the initial state id is always the last element of the chain",
}

ROTATION = "ampform.helicity.align.axisangle::formulate_helicity_rotation"
SPIN_RANGE = "ampform.helicity.align._spin::create_spin_range"


def _conjuncts(test: ast.AST) -> list[ast.AST]:
    if isinstance(test, ast.BoolOp) and isinstance(test.op, ast.And):
        out = []
        for v in test.values:
            out.extend(_conjuncts(v))
        return out
    return [test]


def remove_is_guarded(call: ast.Call) -> str | None:
    """Reason if ``recv.remove(arg)`` is protected by a membership test or a handler."""
    recv = unparse(call.func.value)
    arg = unparse(call.args[0]) if call.args else ""
    child = call
    enclosing = next((a for a in ancestors(call) if isinstance(a, (ast.FunctionDef, ast.AsyncFunctionDef))), None)
    inl = Inliner(enclosing) if enclosing is not None else None

    def through_temporaries(test: ast.AST) -> list[ast.AST]:
        """conjuncts of a test; a conjunct that is a local name bound once (`has_zero = 0.0 in xs`) counts as its value,
        provided the receiver is not modified in between (the value of the test is then still true at the call)"""
        out = []
        for c in _conjuncts(test):
            if isinstance(c, ast.Name) and inl is not None:
                d = inl.single_def(c)
                if d is not None and d.kind == "assign" and d.index is None and isinstance(d.value, ast.AST) and not _modified_between(enclosing, d.node, call, recv):
                    out.extend(_conjuncts(d.value))
                    continue
            out.append(c)
        return out

    for anc in ancestors(call):
        if isinstance(anc, ast.If) and any(child is s or _contains(s, child) for s in anc.body):
            for c in through_temporaries(anc.test):
                if isinstance(c, ast.Compare) and len(c.ops) == 1 and isinstance(c.ops[0], ast.In):
                    if _same_value(c.left, call.args[0]) and unparse(c.comparators[0]) == recv:
                        return f"dominated by `{unparse(c)}`"
                if isinstance(c, ast.Call) and isinstance(c.func, ast.Attribute) and c.func.attr == "count" and unparse(c.func.value) == recv:
                    return f"dominated by `{unparse(c)}`"
        if isinstance(anc, ast.If) and any(child is s or _contains(s, child) for s in anc.orelse):
            for c in [anc.test]:
                if isinstance(c, ast.Compare) and len(c.ops) == 1 and isinstance(c.ops[0], ast.NotIn):
                    if _same_value(c.left, call.args[0]) and unparse(c.comparators[0]) == recv:
                        return f"else-branch of `{unparse(c)}`"
        if isinstance(anc, ast.Try) and any(child is s or _contains(s, child) for s in anc.body):
            for h in anc.handlers:
                names = unparse(h.type) if h.type is not None else "BaseException"
                if any(n in names for n in ("ValueError", "KeyError", "Exception", "BaseException")):
                    return f"inside try/except {names}"
        if isinstance(anc, (ast.FunctionDef, ast.AsyncFunctionDef)):
            # an earlier `if arg not in recv: return/raise/continue` in the same block
            break
        child = anc
    # early-exit guard in a preceding statement of the same block
    blk = _enclosing_block(call)
    if blk is not None:
        body, idx = blk
        for st in body[:idx]:
            if isinstance(st, ast.If) and st.body and isinstance(st.body[-1], (ast.Return, ast.Raise, ast.Continue, ast.Break)):
                c = st.test
                if isinstance(c, ast.Compare) and len(c.ops) == 1 and isinstance(c.ops[0], ast.NotIn):
                    if _same_value(c.left, call.args[0]) and unparse(c.comparators[0]) == recv:
                        return f"early exit on `{unparse(c)}`"
    return None


def _modified_between(fn: ast.AST, start: ast.AST, end: ast.AST, recv: str) -> bool:
    """Is the container `recv` mentioned as receiver of a method call / assignment target on a line between the two nodes?"""
    lo, hi = getattr(start, "end_lineno", start.lineno), end.lineno
    for n in walk_function(fn):
        line = getattr(n, "lineno", None)
        if line is None or not (lo < line <= hi) or n is end or _contains(end, n):
            continue
        if isinstance(n, ast.Call) and isinstance(n.func, ast.Attribute) and unparse(n.func.value) == recv:
            return True
        if isinstance(n, (ast.Name, ast.Subscript, ast.Attribute)) and isinstance(getattr(n, "ctx", None), (ast.Store, ast.Del)) and unparse(n).split("[")[0] == recv:
            return True
    return False


def _same_value(a: ast.AST, b: ast.AST) -> bool:
    if isinstance(a, ast.Constant) and isinstance(b, ast.Constant):
        return a.value == b.value
    return unparse(a) == unparse(b)


def _contains(root: ast.AST, node: ast.AST) -> bool:
    return any(n is node for n in ast.walk(root))


def _enclosing_block(node: ast.AST):
    child = node
    for anc in ancestors(node):
        for fld in ("body", "orelse", "finalbody"):
            body = getattr(anc, fld, None)
            if isinstance(body, list):
                for i, st in enumerate(body):
                    if st is child:
                        return body, i
        child = anc
    return None


def _raising_lookup(node: ast.AST) -> str | None:
    """`recv.remove(x)` / `recv.index(x)`: both raise (ValueError / KeyError) when x is absent."""
    if isinstance(node, ast.Call) and isinstance(node.func, ast.Attribute) and node.func.attr in {"remove", "index"} and len(node.args) == 1 and not node.keywords:
        return node.func.attr
    return None


def check_removes(ctx: Check, tree: Tree) -> None:
    """R-GUARD.  Instances = every `.remove(x)` (and `.index(x)`, which fails the same way and is what a
    `remove` is usually rewritten to: `del l[l.index(x)]`) in the package.  The number of sites is not an
    obligation: a site that was replaced by a construction that cannot raise (a filtering comprehension,
    `discard`) simply is no instance any more.  What IS an obligation: no site of the source is skipped."""
    n = 0
    judged: set[int] = set()
    for q, fn in sorted(tree.funcs.items()):
        if not q.startswith("ampform"):
            continue
        for node in walk_function(fn.node, nested=False):
            kind = _raising_lookup(node)
            if kind is None:
                continue
            n += 1
            judged.add(id(node))
            recv, arg = unparse(node.func.value), unparse(node.args[0])
            what = f"{q}: {recv}.{kind}({arg})"
            reason = remove_is_guarded(node)
            if reason:
                ctx.ok("R-GUARD", tree.loc(node), f"{what} - {reason}")
                continue
            inv = INVARIANT_REMOVES.get((q, unparse(Inliner(fn.node).expr(node.args[0]))))
            if inv:
                ctx.ok("R-GUARD", tree.loc(node), f"{what} - invariant: {inv}")
                continue
            guard = ""
            for anc in ancestors(node):
                if isinstance(anc, ast.If):
                    guard = f" (only guarded by `{unparse(anc.test)}`, which does not imply membership)"
                    break
            ctx.violation(
                "R-GUARD",
                f"{q}::{recv}.{kind}({arg})",
                tree.loc(node),
                what + guard,
                "list.remove/set.remove raise ValueError/KeyError when the element is absent; "
                "create_spin_range(1/2, no_zero_spin=True) has no 0.0 -> an aligned model with a massless spin-1/2 particle cannot be formulated",
            )
    ctx.stats["remove_sites"] = n
    # completeness of the instance set: every such call anywhere in the package source (module level, class bodies,
    # lambdas, decorators ...) must have been judged above
    for name, mod in sorted(tree.modules.items()):
        if not name.startswith("ampform"):
            continue
        for node in ast.walk(mod.tree):
            if _raising_lookup(node) and id(node) not in judged:
                raise AnalysisError(f"`{unparse(node)[:60]}` at {tree.loc(node)} is outside every indexed function: not judged")
    if n == 0:
        ctx.ok("R-GUARD", "src/ampform", "no `.remove(x)` / `.index(x)` call in the package: nothing can raise for an absent element")


def _kwarg(call: ast.Call, fn: FuncInfo, name: str) -> ast.AST | None:
    for k in call.keywords:
        if k.arg == name:
            return k.value
    params = fn.params
    if name in params:
        i = params.index(name)
        if i < len(call.args) and not any(isinstance(a, ast.Starred) for a in call.args[: i + 1]):
            return call.args[i]
    return None


def check_wiring(ctx: Check, tree: Tree) -> None:
    rot = tree.func(ROTATION)
    rd = RD(rot.node)
    inl = Inliner(rot.node, rd)
    # inside formulate_helicity_rotation: pool of the PoolSum = create_spin_range(<p>, ...) and j = <p>
    poolsum = [c for c in walk_function(rot.node) if isinstance(c, ast.Call) and tree.callee(c, rot) == "ampform.sympy::PoolSum"]
    if len(poolsum) != 1:
        raise AnalysisError(f"{ROTATION}: expected one PoolSum construction, found {len(poolsum)}")
    ps = poolsum[0]
    wd = [c for c in ast.walk(ps) if isinstance(c, ast.Call) and isinstance(c.func, ast.Attribute) and c.func.attr == "D"]
    if len(wd) != 1:
        raise AnalysisError(f"{ROTATION}: expected one Wigner.D call inside the PoolSum")
    j_arg = next((k.value for k in wd[0].keywords if k.arg == "j"), wd[0].args[0] if wd[0].args else None)
    mp_arg = next((k.value for k in wd[0].keywords if k.arg == "mp"), wd[0].args[2] if len(wd[0].args) > 2 else None)
    j_params = {d.name for d in rd.closure(rd.uses(j_arg)) if d.kind == "param"}
    # index tuple(s)
    idx = [a for a in ps.args[1:]]
    ok_pool = False
    detail = None
    for tup in idx:
        t = inl.expr(tup)
        if isinstance(t, ast.Tuple) and len(t.elts) == 2:
            sym, pool = t.elts
            range_calls = [c for c in ast.walk(pool) if isinstance(c, ast.Call) and isinstance(c.func, ast.Name) and c.func.id == "create_spin_range"]
            if range_calls:
                first = range_calls[0].args[0] if range_calls[0].args else next((k.value for k in range_calls[0].keywords if k.arg == "spin_magnitude"), None)
                pool_params = {n.id for n in ast.walk(first) if isinstance(n, ast.Name)} if first is not None else set()
                same_index = mp_arg is not None and unparse(sym) == unparse(inl.expr(mp_arg))
                ok_pool = pool_params == j_params and len(j_params) == 1 and same_index
                detail = {"pool_spin": sorted(pool_params), "wigner_j": sorted(j_params), "index_is_mp": same_index}
    ctx.verdict(
        ok_pool,
        "R-WIRING",
        f"{ROTATION}::pool-vs-j",
        tree.loc(ps),
        "formulate_helicity_rotation: PoolSum index pool = create_spin_range(s) of the same s that is j of the Wigner-D, summed index = mp",
        detail,
    )
    # callers pass the spin / mass of the rotated state
    n_calls = 0
    for q, fn in sorted(tree.funcs.items()):
        if not q.startswith("ampform"):
            continue
        for call, callee in tree.calls_in(fn, nested=False):
            if callee != ROTATION:
                continue
            n_calls += 1
            scope = tree.func_of(call) or fn
            top = scope
            while top.outer is not None:
                top = top.outer
            rd_top = RD(top.node)
            cinl = Inliner(top.node, rd_top)
            spin = _kwarg(call, rot, "spin_magnitude")
            nz = _kwarg(call, rot, "no_zero_spin")
            spin_txt = unparse(cinl.expr(spin)) if spin is not None else None
            nz_txt = unparse(cinl.expr(nz)) if nz is not None else None
            params = set(top.params)
            ok = False
            why = None
            if spin_txt is None:
                why = "spin_magnitude not passed"
            else:
                import re

                m = re.fullmatch(r"(\w+)\.states\[(\w+)\]\.particle\.spin", spin_txt)
                if not m or m.group(1) not in params or m.group(2) not in params:
                    why = f"spin_magnitude = {spin_txt} is not <transition>.states[<rotated id>].particle.spin of the caller's parameters"
                else:
                    state = f"{m.group(1)}.states[{m.group(2)}]"
                    if nz_txt is not None and nz_txt.replace(" ", "") not in {f"{state}.particle.mass==0.0", f"{state}.particle.mass==0"}:
                        why = f"no_zero_spin = {nz_txt} is not the masslessness of the same state {state}"
                    else:
                        ok = True
            ctx.verdict(
                ok,
                "R-WIRING",
                f"{scope.qual}::call formulate_helicity_rotation::spin",
                tree.loc(call),
                f"{scope.qual} -> formulate_helicity_rotation(spin_magnitude={spin_txt}, no_zero_spin={nz_txt})",
                why,
            )
    if n_calls < 2:
        raise AnalysisError(f"only {n_calls} callers of formulate_helicity_rotation (2 confirmed)")


def _strip_numeric_casts(txt: str) -> str:
    return txt.replace("Decimal(", "").replace("float(", "").replace(")", "").replace("(", "").replace(" ", "")


def _range_loop(tree: Tree, fn: FuncInfo, depth: int = 0):
    """(function, name of the spin magnitude inside it, while loop) of the loop that generates the
    projections: in create_spin_range itself or in a helper of the package it hands the spin magnitude to
    (`list(_generate_projections(float(spin_magnitude)))`)."""
    spin_param = fn.params[0]
    loops = [n for n in walk_function(fn.node, nested=False) if isinstance(n, ast.While)]
    if loops:
        return fn, spin_param, loops[0]
    if depth >= 2:
        return None
    rd = RD(fn.node)
    inl = Inliner(fn.node, rd)
    for call, callee in tree.calls_in(fn, nested=False):
        target = tree.funcs.get(callee) if callee else None
        if target is None or not callee.startswith("ampform") or target is fn:
            continue
        for p in target.params:
            arg = _kwarg(call, target, p)
            if arg is None or _strip_numeric_casts(unparse(inl.expr(arg))) != spin_param:
                continue
            # inside the helper, parameter p IS the spin magnitude (up to float()/Decimal(), which keep the value)
            inner = _range_loop(tree, _as_first_param(target, p), depth + 1)
            if inner is not None:
                return inner
        if any(isinstance(n, ast.While) for n in walk_function(target.node, nested=False)) and spin_param in {n.id for a in [*call.args, *[k.value for k in call.keywords]] for n in ast.walk(inl.expr(a)) if isinstance(n, ast.Name)}:
            # the loop lives in a helper that receives something else than the spin magnitude itself
            return fn, spin_param, call
    return None


def _as_first_param(fn: FuncInfo, p: str) -> FuncInfo:
    """View of ``fn`` whose ``params[0]`` is ``p`` (the parameter that carries the spin magnitude)."""

    class _View(FuncInfo):
        @property
        def params(self):  # type: ignore[override]
            base = FuncInfo.params.fget(self)
            return [p] + [x for x in base if x != p]

    return _View(fn.qual, fn.node, fn.module, fn.cls, fn.outer)


def check_spin_range(ctx: Check, tree: Tree) -> None:
    top = tree.func(SPIN_RANGE)
    found = _range_loop(tree, top)
    if found is None:
        ctx.info("R-RANGE", tree.loc(top.node), "create_spin_range has no while loop any more: range shape not decided (informational)")
        return
    fn, spin_param, loop = found
    if isinstance(loop, ast.Call):
        ctx.violation("R-RANGE", f"{SPIN_RANGE}::while-loop", tree.loc(loop), f"create_spin_range: the projections are generated by `{unparse(loop)[:70]}`",
                      [f"the helper does not receive the spin magnitude `{spin_param}` itself (only float()/Decimal() conversions keep -s..s)"])
        return
    rd = RD(fn.node)
    problems = []
    test = loop.test
    if not (isinstance(test, ast.Compare) and len(test.ops) == 1 and isinstance(test.left, ast.Name)):
        ctx.info("R-RANGE", tree.loc(loop), "loop test shape not recognised: not decided")
        return
    var = test.left.id
    if not isinstance(test.ops[0], ast.LtE):
        problems.append(f"bound `{unparse(test)}` is not `<= s` (upper end +s dropped or overshot)")
    bound_params = {d.name for d in rd.closure(rd.uses(test.comparators[0])) if d.kind == "param"}
    if bound_params != {spin_param}:
        problems.append(f"bound derives from {sorted(bound_params)} instead of {spin_param}")
    # initial value: -s
    init = [d for d in rd.env_at[id(loop)].get(var, ())]
    inl = Inliner(fn.node, rd)
    for d in init:
        txt = unparse(inl.expr(d.value)) if d.value is not None else "?"
        core = _strip_numeric_casts(txt)
        if core != f"-{spin_param}":
            problems.append(f"start value `{txt}` is not -{spin_param}")
    # step
    steps = [n for n in walk_function(loop) if isinstance(n, ast.AugAssign) and isinstance(n.target, ast.Name) and n.target.id == var]
    if len(steps) != 1 or not isinstance(steps[0].op, ast.Add) or not (isinstance(steps[0].value, ast.Constant) and steps[0].value.value == 1):
        problems.append(f"step `{unparse(steps[0]) if steps else '?'}` is not += 1")
    # every iteration contributes its projection: an unconditional append / yield
    appends = [n for n in walk_function(loop) if (isinstance(n, ast.Call) and isinstance(n.func, ast.Attribute) and n.func.attr == "append") or isinstance(n, ast.Yield)]
    cond_append = [a for a in appends if any(isinstance(x, ast.If) for x in _ancestors_until(a, loop))]
    if not appends or len(cond_append) == len(appends):
        problems.append("no unconditional append of the projection in the loop body")
    ctx.verdict(
        not problems,
        "R-RANGE",
        f"{SPIN_RANGE}::while-loop",
        tree.loc(loop),
        f"create_spin_range: start -{spin_param}, `{unparse(test)}`, step +1, unconditional append",
        problems or None,
    )


def _ancestors_until(node, stop):
    for a in ancestors(node):
        if a is stop:
            return
        yield a


DPD_FN = "ampform.helicity.align.dpd::_formulate_aligned_amplitude"
DPD_GEN = "ampform.helicity.align.dpd::_DPDAlignmentWignerGenerator"


def _symex(tree: Tree, qual: str, atoms: frozenset = frozenset()):
    """(SymEx, result value, final state) of one function, computed once per tree."""
    cache = tree.__dict__.setdefault("_c05_symex", {})
    key = (qual, atoms)
    if key not in cache:
        fn = tree.func(qual)
        sx = SymEx(tree, atoms=atoms)
        try:
            value, st = sx.run(fn)
        except AnalysisError:
            raise
        except Exception as exc:  # noqa: BLE001 - an executor failure must not take the other rule groups down
            raise AnalysisError(f"{qual}: symbolic execution failed ({exc!r})") from exc
        cache[key] = (sx, value, st)
    return cache[key]


def _require_known(where: str, *values) -> None:
    """Fail closed: a value the symbolic execution could not follow is neither accepted nor reported as wrong."""
    for v in values:
        for x in subterms(v) if isinstance(v, tuple) else ():
            if x[0] in {"unknown", "carried-out"}:
                raise AnalysisError(f"{where}: depends on a value the symbolic execution cannot follow: {show(x)[:80]}")


def _unwrap(item):
    """A list item without its ``foreach`` / ``when`` wrappers: (conditions, plain value)."""
    pcs = ()
    while isinstance(item, tuple) and item and item[0] in {"foreach", "when"}:
        if item[0] == "when":
            pcs += item[1]
        item = item[2]
    return pcs, item


def _item_indices(v) -> set:
    return {x[2] for x in subterms(v) if x[0] == "item"}


def _is_generator_call(v) -> bool:
    return isinstance(v, tuple) and v[0] == "call" and v[1][0] == "method" and v[1][1] == DPD_GEN + ".__call__"


def _dpd_model(tree: Tree) -> dict:
    """What _formulate_aligned_amplitude computes (sa/symex.py): the PoolSum call, its summand terms, its
    index pairs.  Temporaries, helper functions, a loop over a table of rotations, a comprehension over the
    topologies or generated index pairs all give the same values."""
    fn = tree.func(DPD_FN)
    sx, value, _ = _symex(tree, DPD_FN, frozenset({"_collect_outer_state_helicities", "get_outer_state_ids", "group_by_topology"}))
    alts = alternatives(value)
    if len(alts) != 1 or alts[0][1][0] != "tuple" or len(alts[0][1][1]) != 2:
        raise AnalysisError(f"{fn.qual}: does not return one pair (amplitude, angle definitions): `{show(value)[:80]}`")
    amp, defs = alts[0][1][1]
    if not (amp[0] == "call" and func_name(amp) == "ampform.sympy::PoolSum" and amp[2] and not amp[3]):
        raise AnalysisError(f"{fn.qual}: the amplitude is `{show(amp)[:60]}`, not a PoolSum(...)")
    unknown = [x for x in subterms(amp) if x[0] in {"unknown", "carried", "carried-out"}]
    if unknown:
        raise AnalysisError(f"{fn.qual}: the amplitude depends on a value the symbolic execution cannot follow: {show(unknown[0])[:80]}")
    return {"fn": fn, "sx": sx, "pool": amp, "summand": amp[2][0], "indices": amp[2][1:], "defs": defs}


def _node_of(model: dict, value, default: ast.AST) -> ast.AST:
    node = model["sx"].origin.get(value)
    return node if node is not None and hasattr(node, "lineno") else default


def check_dpd_wiring(ctx: Check, tree: Tree) -> None:
    """``wigner_generator(j_k, ..., k, spectator)``: spin, both helicity symbols and the
    literal state index of every call refer to the same outer state k."""
    model = _dpd_model(tree)
    fn = model["fn"]
    calls = []
    for x in subterms(model["summand"]):
        if _is_generator_call(x) and x not in calls:
            calls.append(x)
    if not calls:
        raise AnalysisError("_formulate_aligned_amplitude: no wigner_generator call reaches the summand (4 confirmed)")
    gen_cls = tree.cls(DPD_GEN)
    call_params = gen_cls.methods["__call__"].params[1:]
    seen_states = set()
    for call in calls:
        if call[3] or len(call[2]) != len(call_params) or len(call_params) < 5:
            raise AnalysisError(f"wigner_generator call shape changed: {show(call)[:100]}")
        j, m, m_prime, state = call[2][:4]
        if not is_const(state, int):
            raise AnalysisError(f"wigner_generator call shape changed: the rotated state `{show(state)[:40]}` is not a literal")
        k = state[1]
        seen_states.add(k)
        idxs = [sorted(_item_indices(a)) for a in (j, m, m_prime)]
        ok = all(i == [k] for i in idxs) and len({j, m, m_prime}) == 3
        # the id of outer state k: k-th element of get_outer_state_ids(reaction)
        ids = [x for a in (j, m, m_prime) for x in subterms(a) if x[0] in {"item", "sub"} and x[1][0] == "call" and func_name(x[1]).endswith("get_outer_state_ids")]
        ok = ok and bool(ids) and all(x[2] in {k, ("const", k)} for x in ids)
        # spin must be particle.spin of that state, helicities from the two symbol families
        ok = ok and any(x[0] == "attr" and x[2] == "spin" and x[1][0] == "attr" and x[1][2] == "particle" and x[1][1][0] == "sub" and x[1][1][2] in ids
                        and x[1][1][1][0] == "attr" and x[1][1][1][2] == "states" for x in subterms(j))
        fams = {"outer" if any(c[2][:1] and c[2][0] in ids for c in calls_of(a, "create_spin_projection_symbol")) else "dummy" for a in (m, m_prime)}
        ok = ok and fams == {"outer", "dummy"}
        node = _node_of(model, call, fn.node)
        ctx.verdict(
            ok,
            "R-WIRING",
            f"{fn.qual}::wigner_generator[{k}]",
            tree.loc(node),
            f"DPD alignment: {unparse(node) if isinstance(node, ast.Call) else show(call)[:160]} - spin, outer helicity, summed helicity and state index all refer to outer state {k}",
            {"tuple_positions": idxs, "state": k},
        )
    ctx.verdict(
        seen_states == {0, 1, 2, 3},
        "R-WIRING",
        f"{fn.qual}::wigner_generator-states",
        tree.loc(fn.node),
        f"DPD alignment rotates each of the four outer states exactly once per topology: {sorted(seen_states)}",
    )
    # the generator of this alignment is built for THIS reference subsystem
    gens = {c[1][2] for c in calls}
    init = tree.lookup_method(gen_cls, "__init__")
    ok_ref = init is not None and all(g[0] == "call" and g[1] == ("global", DPD_GEN) and not g[3] and g[2][:1] == (("param", fn.params[1]),) for g in gens)
    ctx.verdict(ok_ref, "R-WIRING", f"{fn.qual}::wigner_generator-reference", tree.loc(fn.node),
                f"DPD alignment: the Wigner-d generator is constructed for the reference subsystem handed in (`{fn.params[1]}`)",
                None if ok_ref else sorted(show(g)[:80] for g in gens))
    # pools of the outer PoolSum: index k <-> outer_helicities[k]
    for pair in model["indices"]:
        if not (pair[0] == "tuple" and len(pair[1]) == 2):
            raise AnalysisError(f"{fn.qual}: PoolSum index shape changed: {show(pair)[:80]}")
        sym, pool = pair[1]
        pos = sorted(_item_indices(sym))
        k = pool[2][1] if pool[0] == "sub" and is_const(pool[2], int) else None
        node = _node_of(model, sym, fn.node)
        name = unparse(node) if isinstance(node, ast.Name) else show(sym)[:40]
        ctx.verdict(
            len(pos) == 1 and pos[0] == k,
            "R-WIRING",
            f"{fn.qual}::pool[{name}]",
            tree.loc(_node_of(model, pair, node)),
            f"DPD alignment: summed helicity {name} (position {pos[0] if len(pos) == 1 else '?'}) ranges over outer_helicities[{k}]",
        )


def _factors(node: ast.AST) -> list[ast.AST]:
    if isinstance(node, ast.BinOp) and isinstance(node.op, ast.Mult):
        return _factors(node.left) + _factors(node.right)
    return [node]


def check_dpd_summand(ctx: Check, tree: Tree) -> None:
    """R-SUMMAND: every term that reaches the summand of the PoolSum over the primed helicities
    is  base[primed helicities] * d(state 0) * d(state 1) * d(state 2) * d(state 3).
    A term that does not carry a summation index is added once per index combination (factor
    = product of the pool sizes); a term without its four rotations is not aligned."""
    model = _dpd_model(tree)
    fn = model["fn"]
    bound = []
    for pair in model["indices"]:
        if not (pair[0] == "tuple" and len(pair[1]) == 2):
            raise AnalysisError(f"{fn.qual}: PoolSum index shape changed: {show(pair)[:80]}")
        bound.append(pair[1][0])
    summand = model["summand"]
    if not (summand[0] == "call" and func_name(summand).split(".")[-1] in {"Add", "sum"} and not summand[3]):
        raise AnalysisError(f"{fn.qual}: PoolSum summand is `{show(summand)[:60]}`, not sp.Add(*terms)")
    items = list(summand[2])
    if func_name(summand).split(".")[-1] == "sum":
        seq = model["sx"].as_items(items[0]) if len(items) == 1 else None
        if seq is None:
            raise AnalysisError(f"{fn.qual}: summand terms are not collected in a local list")
        items = seq
    if any(x[0] == "star" for x in items):
        raise AnalysisError(f"{fn.qual}: the summand terms `{show(next(x for x in items if x[0] == 'star'))[:60]}` are not collected in a local list")
    if not items:
        raise AnalysisError(f"{fn.qual}: no term reaches the PoolSum summand")

    def name_of(v):
        node = model["sx"].origin.get(v)
        return unparse(node) if isinstance(node, ast.Name) else show(v)[:30]

    bound_txt = [name_of(b) for b in bound]
    for item in items:
        _, term = _unwrap(item)
        problems = []
        facs = list(term[1]) if term[0] == "mul" else [term]
        bases = []
        states = []
        for f in facs:
            if f[0] == "sub" and calls_of(f[1], "create_amplitude_base") and f[1][0] == "call":
                bases.append(f)
            elif _is_generator_call(f):
                if len(f[2]) >= 4 and is_const(f[2][3]):
                    k = f[2][3][1]
                    states.append(k)
                    if isinstance(k, int) and 0 <= k < len(bound) and bound[k] not in f[2][1:3]:
                        problems.append(f"rotation of state {k} does not carry the summation index {bound_txt[k]}")
            else:
                problems.append(f"unexpected factor `{show(f)[:50]}`")
        if len(bases) != 1:
            problems.append(f"{len(bases)} amplitude-base factors")
        else:
            idx = list(bases[0][2][1]) if bases[0][2][0] == "tuple" else [bases[0][2]]
            if idx != bound:
                problems.append(f"the amplitude base is indexed by {[name_of(i) for i in idx]}, not by the summation indices {bound_txt}: the term is added once per combination of the indices it does not carry")
        if sorted(states, key=str) != [0, 1, 2, 3]:
            problems.append(f"rotations for outer states {states}, not exactly one each for 0, 1, 2, 3")
        node = _node_of(model, term, fn.node)
        text = canon_text(node) if node is not fn.node else re.sub(r"\s+", "", show(term))[:80]
        ctx.verdict(not problems, "R-SUMMAND", f"{fn.qual}::term::{text}", tree.loc(node),
                    f"DPD summand term `{unparse(node)[:70] if node is not fn.node else show(term)[:70]}...` = base[{', '.join(bound_txt)}] * d_0 * d_1 * d_2 * d_3 (every summation index carried, every outer state rotated once)",
                    problems or None)


def canon_text(node: ast.AST) -> str:
    import re

    return re.sub(r"\s+", "", unparse(node))[:80]


def check_spin_range_not_cached_mutable(ctx: Check, tree: Tree) -> None:
    """R-CACHE: "exactly -s..s" must hold for the k-th call as for the first: if any function of
    the alignment package hands out a memoised mutable object (a cached spin range), nobody
    may write into it (create_spin_range itself removes 0 for massless states)."""
    from .c06 import AliasFlow, memoised_functions, mutable_result

    pkg = "ampform.helicity.align"
    sources = {f.qual: f"memoised {f.qual}" for f in memoised_functions(tree) if f.qual.startswith(pkg) and mutable_result(f)}
    if not sources:
        ctx.ok("R-CACHE", "src/ampform/helicity/align", "no memoised function of helicity.align returns a mutable container (nothing shared between calls can be written)")
        return
    flow = AliasFlow(tree, sources)
    flow.fixpoint()
    bad = [(fn, node, origin) for fn, node, origin in flow.mutations() if fn.qual not in sources]
    for fn, node, origin in bad:
        ctx.violation("R-CACHE", f"{fn.qual}::{unparse(node)[:60]}::mutates-cached", tree.loc(node),
                      f"{fn.qual}: `{unparse(node)[:60]}` writes into an object that aliases a memoised result ({origin.split(' -> ')[0]})",
                      "the cached container is shared by all later calls: e.g. a spin range that lost its 0 for a massless state is then also used for massive states of that spin")
    if not bad:
        ctx.ok("R-CACHE", "src/ampform/helicity/align", f"the {len(sources)} memoised mutable results of helicity.align are never written")


def _walk_summary(tree: Tree, fn: FuncInfo, call: ast.Call, owner: FuncInfo):
    """One generic step of the walk along the decay chain, whatever its spelling (sa/symex.py):
    ``init`` / ``end`` = value of every carried name before the first step / after one step (in terms of the
    head symbols ``("carried", name, n)``), ``guard`` = condition under which a step is made, ``rotations`` =
    what one step contributes.  A `while` loop carries its names through the loop head (relations such as
    parent == get_parent_id(state) are proven by induction and substituted); a recursive local generator
    carries its parameters and its `nonlocal` names from one call to the next."""
    atoms = frozenset({ROTATION, "__multiply_pool_sums"})
    sx, _, _ = _symex(tree, fn.qual, atoms)
    if owner is fn:
        loops = [a for a in ancestors(call) if isinstance(a, ast.While)]
        info = sx.loops.get(id(loops[0])) if loops else None
        if info is None:
            return None
        info.refine()
        items = [info.value(x) for extra in info.extras.values() if extra for x in extra]
        rotations = [(pcs, v) for pcs, v in map(_unwrap, items) if v[0] == "call" and func_name(v) == ROTATION]
        guard = normal_value(info.value(info.test))
        return {"init": dict(info.init), "end": {n: info.value(v) for n, v in info.end.items()}, "guard": (guard,), "rotations": rotations,
                "head": info.head, "ordered": True, "what": "loop"}
    # recursive local function
    first = [e for e in sx.events if e[0] == "localcall" and e[2][1] == ("localfunc", owner.qual)]
    if len(first) != 1 or first[0][2][3]:
        return {"problem": f"the recursion does not start at `{fn.params[1]}`"}
    nonlocals = sorted({name for n in walk_function(owner.node, nested=False) if isinstance(n, ast.Nonlocal) for name in n.names})
    snapshot = first[0][3]
    head = lambda name: ("carried", name, 0)  # noqa: E731
    init = dict(zip(owner.params, first[0][2][2]))
    init.update({n: snapshot.get(n) for n in nonlocals})
    closure = dict(snapshot)
    closure.update({n: head(n) for n in nonlocals})
    sx2 = SymEx(tree, atoms=atoms)
    try:
        value, _ = sx2.run(owner, args={p: head(p) for p in owner.params}, closure=closure)
    except AnalysisError:
        raise
    except Exception as exc:  # noqa: BLE001
        raise AnalysisError(f"{owner.qual}: symbolic execution failed ({exc!r})") from exc
    rec = [e for e in sx2.events if e[0] == "localcall" and e[2][1] == ("localfunc", owner.qual)]
    if len(rec) != 1 or rec[0][2][3] or value[0] != "list":
        return {"problem": "the recursion does not continue with get_parent_id(topology, state_id)"}
    end = dict(zip(owner.params, rec[0][2][2]))
    end.update({n: rec[0][3].get(n) for n in nonlocals})
    items = [_unwrap(x) for x in value[1]]
    rotations = [(pcs, v) for pcs, v in items if v[0] == "call" and func_name(v) == ROTATION]
    order = [i for i, (_, v) in enumerate(items) if (v[0] == "call" and func_name(v) == ROTATION) or (v[0] == "star" and v[1] == rec[0][2])]
    ordered = len(order) == 2 and items[order[0]][1][0] == "call" and items[order[1]][1][0] == "star"
    guard = rec[0][1]
    rotations = [(tuple(c for c in pcs if c not in guard), v) for pcs, v in rotations if all(g in pcs for g in guard)] if all(all(g in pcs for g in guard) for pcs, _ in rotations) else [((("?", True),), v) for _, v in rotations]
    return {"init": init, "end": end, "guard": guard, "rotations": rotations, "head": head, "ordered": ordered, "what": "recursion"}


def normal_value(test):
    from ..symex import normal

    return normal(test)


def _judge_walk(tree: Tree, fn: FuncInfo, s: dict) -> list[str]:
    """The obligations of R-CHAINORDER on one generic step (see check_rotation_chain_order)."""
    if "problem" in s:
        return [s["problem"]]
    what = s["what"]
    problems = []
    head, init, end = s["head"], s["init"], s["end"]
    if len(s["rotations"]) != 1 or s["rotations"][0][0] or not s["ordered"]:
        return [f"one step of the {what} does not contribute exactly one helicity rotation (unconditionally, before the steps further up)"]
    rot = s["rotations"][0][1]
    _require_known(fn.qual, rot, tuple(v for v in init.values() if v is not None), tuple(v for v in end.values() if v is not None), tuple(t for t, _ in s["guard"]))
    params = tree.func(ROTATION).params
    if rot[3] or len(rot[2]) != len(params):
        raise AnalysisError(f"{fn.qual}: the call of formulate_helicity_rotation cannot be bound to its parameters: {show(rot)[:80]}")
    arg = dict(zip(params, rot[2]))

    def greek(v):
        hits = {x for x in subterms(v) if x[0] == "sub" and x[1][0] == "global" and x[1][1].endswith("__GREEK_INDEX_NAMES")}
        return next(iter(hits)) if len(hits) == 1 else None

    g_mp, g_sp = greek(arg.get("m_prime", NONE)), greek(arg.get("spin_projection", NONE))
    counter = g_mp[2][1] if g_mp is not None and g_mp[2][0] == "carried" and g_mp[2] == head(g_mp[2][1]) else None
    hole = ("sym", "index-name")
    if (counter is None or g_sp is None or g_sp[2] != ("binop", "+", head(counter), ("const", 1))
            or subst(arg["m_prime"], {g_mp: hole}) != subst(arg["spin_projection"], {g_sp: hole})):
        problems.append("m_prime / spin_projection do not use index k / k+1 of the counter")
    if counter is None:
        names = sorted({x[1] for g in (g_mp, g_sp) if g is not None for x in subterms(g[2]) if x[0] == "carried"})
        problems.append(f"index counter not identified ({names})")
    else:
        # the counter: starts at 0 (index 0 is the helicity symbol the Wigner rotation / the amplitude connects to)
        # and advances by exactly one per rotation
        if init.get(counter) != ("const", 0):
            problems.append(f"the index counter `{counter}` does not start at 0")
        if end.get(counter) != ("binop", "+", head(counter), ("const", 1)):
            problems.append(f"the index counter `{counter}` is not advanced by exactly 1 per rotation")
    # the walk: from the rotated state upwards, a step is made iff the state has a parent, and continues with that parent
    guard = s["guard"]
    parent = state = None
    if len(guard) == 1 and guard[0][1] is False and guard[0][0][0] == "cmp" and guard[0][0][1] == "is" and guard[0][0][3] == NONE:
        g = guard[0][0][2]
        if g[0] == "call" and func_name(g).endswith("get_parent_id") and len(g[2]) == 2 and g[2][1][0] == "carried" and g[2][1] == head(g[2][1][1]):
            parent, state = g, g[2][1][1]
    if parent is None:
        problems.append(f"the {what} does not stop exactly when the state has no parent (`parent_id is None`)")
    else:
        if end.get(state) != parent:
            problems.append(f"the {what} does not continue with get_parent_id(topology, state_id)")
        if init.get(state) != ("param", fn.params[1]):
            problems.append(f"the {what} does not start at `{fn.params[1]}`")
    # Euler angles of a helicity rotation: (phi, theta, 0) of the helicity state of that level
    alpha, beta, gamma = arg.get("alpha", NONE), arg.get("beta", NONE), arg.get("gamma", NONE)
    conv_ok = (alpha[0] == "item" and beta[0] == "item" and alpha[1] == beta[1] and (alpha[2], beta[2]) == (0, 1)
               and alpha[1][0] == "call" and func_name(alpha[1]).endswith("get_helicity_angle_symbols") and gamma == ("const", 0))
    if not conv_ok:
        problems.append("the helicity rotation does not use (alpha, beta, gamma) = (phi, theta, 0) of get_helicity_angle_symbols")
    return problems


def check_rotation_chain_order(ctx: Check, tree: Tree) -> None:
    """R-CHAINORDER: the helicity rotations of the axis-angle chain do not commute.  The k-th pair of
    summation indices (m' = index k, projection = index k+1, k = 0 at the rotated particle's own
    helicity) carries the angles of the k-th state on the way UP from the rotated state to the
    initial state.  Accepted: any walk whose generic step (sa/symex.py) starts at the rotated state with
    counter 0, is made iff get_parent_id(topology, state) is not None, contributes one rotation with the
    index pair (counter, counter + 1), and continues with that parent and counter + 1 - spelled as a
    recursive local generator or as a `while` loop - or
    `for k, state in enumerate(list_decay_chain_ids(topology, rotated_state)[...])`.  Walking
    the chain downwards (reversed(...)) attaches the angles the other way round: single-topology
    intensities do not notice (unitarity), interfering topologies are no longer rotation invariant."""
    fn = tree.func("ampform.helicity.align.axisangle::formulate_helicity_rotation_chain")
    rot_calls = [c for c in walk_function(fn.node, nested=True) if isinstance(c, ast.Call) and tree.callee(c, tree.func_of(c) or fn) == "ampform.helicity.align.axisangle::formulate_helicity_rotation"]
    if len(rot_calls) != 1:
        raise AnalysisError(f"{fn.qual}: expected one call of formulate_helicity_rotation, found {len(rot_calls)}")
    call = rot_calls[0]
    owner = tree.func_of(call) or fn
    key = f"{fn.qual}::chain-direction"
    if owner is not fn or any(isinstance(a, ast.While) for a in ancestors(call)):
        summary = _walk_summary(tree, fn, call, owner)
        if summary is None:
            raise AnalysisError(f"{fn.qual}: rotation neither in a recursive helper nor in a loop")
        problems = _judge_walk(tree, fn, summary)
        # a chain of a single rotation has no summation left: its index is identified with the helicity symbol
        tails = [n for n in walk_function(fn.node, nested=False) if isinstance(n, ast.If) and any(isinstance(b, ast.Return) and b.value is not None and ".subs(" in unparse(b.value) for b in n.body)]
        if tails:
            t = tails[0].test
            ok_tail = (isinstance(t, ast.Compare) and len(t.ops) == 1 and isinstance(t.ops[0], ast.Eq) and isinstance(t.comparators[0], ast.Constant) and t.comparators[0].value == 1
                       and unparse(t.left).replace(" ", "").startswith("len(") and unparse(t.left).endswith(".indices)"))
            if not ok_tail:
                problems.append(f"the single-rotation special case is taken under `{unparse(t)}`, not iff exactly one summation index exists")
        ctx.verdict(not problems, "R-CHAINORDER", key, tree.loc(call), "axis-angle chain: recursion from the rotated state upwards (get_parent_id) until the initial state, index pair k (k = 0, 1, ...) carries the angles of the k-th state on the way up", problems or None)
        return
    # loop idiom
    loops = [a for a in ancestors(call) if isinstance(a, ast.For)]
    if not loops:
        raise AnalysisError(f"{fn.qual}: rotation neither in a recursive helper nor in a loop")
    loop = loops[0]
    it = loop.iter
    rd = RD(fn.node)
    if not (isinstance(it, ast.Call) and isinstance(it.func, ast.Name) and it.func.id == "enumerate" and it.args):
        raise AnalysisError(f"{fn.qual}: loop over `{unparse(it)[:50]}` is not enumerate(<chain>)")
    src = it.args[0]
    texts = [unparse(src)] + [unparse(d.value) for d in rd.closure(rd.uses(src)) if isinstance(d.value, ast.AST)]
    if not any("list_decay_chain_ids(" in t for t in texts):
        raise AnalysisError(f"{fn.qual}: the chain `{unparse(src)[:50]}` does not come from list_decay_chain_ids")
    down = any(t.startswith("reversed(") or "reversed(" in t or "[::-1]" in t for t in texts)
    ctx.verdict(not down, "R-CHAINORDER", key, tree.loc(loop), "axis-angle chain: index pair k carries the angles of the k-th state on the way up from the rotated state (list_decay_chain_ids order)",
                None if not down else f"the chain is walked downwards (`{unparse(src)[:50]}`): the non-commuting rotations are multiplied in reversed order")


def check_wigner_angle_table(ctx: Check, tree: Tree) -> None:
    """R-TABLE: compute_wigner_angles implements Eqs. (B.2-4) of Marangotto (2019), the reference the
    docstring names: with R = compute_wigner_rotation_matrix(topology, momenta, state_id) and the
    Lorentz indices (0, 1, 2, 3) = (t, x, y, z):
        alpha = atan2(R[3,2], R[3,1]),  beta = acos(R[3,3]),  gamma = atan2(R[2,3], -R[1,3]);
    the three angles are named alpha/beta/gamma + helicity suffix of the same state."""
    from ..inline import Inliner

    fn = tree.func("ampform.kinematics.angles::compute_wigner_angles")
    rd = RD(fn.node)
    inl = Inliner(fn.node, rd)
    rets = [r for r in walk_function(fn.node, nested=False) if isinstance(r, ast.Return) and r.value is not None]
    if len(rets) != 1:
        raise AnalysisError(f"{fn.qual}: expected one return")
    val = rets[0].value
    if isinstance(val, ast.Name):
        defs = list(rd.reaching(val))
        val = defs[0].value if len(defs) == 1 and isinstance(defs[0].value, ast.AST) else val
    if not isinstance(val, ast.Dict) or len(val.keys) != 3:
        raise AnalysisError(f"{fn.qual}: does not return a dict of three angles")

    helpers = {
        n.name: n for n in fn.node.body
        if isinstance(n, ast.FunctionDef) and isinstance(n.body[-1], ast.Return) and n.body[-1].value is not None
        and all(isinstance(b, ast.Expr) and isinstance(b.value, ast.Constant) for b in n.body[:-1])
    }

    def const_index(e):
        """a name bound once to an int literal (also through `x, y, z = 1, 2, 3`) -> the literal"""
        if isinstance(e, ast.Name):
            defs = list(rd.reaching(e))
            if len(defs) == 1 and defs[0].value is not None:
                v = defs[0].value
                if defs[0].index is not None and isinstance(v, (ast.Tuple, ast.List)) and defs[0].index < len(v.elts):
                    v = v.elts[defs[0].index]
                if isinstance(v, ast.Constant) and isinstance(v.value, int):
                    return v
        return e

    def element(node):
        """(sign, row, col) of +-ArraySlice(R, (slice(None), row, col)) with R the Wigner rotation matrix"""
        sign = 1
        node = inl.expr(node)
        if isinstance(node, ast.UnaryOp) and isinstance(node.op, ast.USub):
            sign, node = -1, inl.expr(node.operand)
        if isinstance(node, ast.Call) and isinstance(node.func, ast.Name) and node.func.id in helpers and not node.keywords:
            # a local one-expression helper `def element(row, column): return ArraySlice(R, (slice(None), row, column))`
            h = helpers[node.func.id]
            hparams = [a.arg for a in h.args.args]
            if len(hparams) == len(node.args):
                import copy

                sub = dict(zip(hparams, node.args))

                class _S(ast.NodeTransformer):
                    def visit_Name(self, n):  # noqa: N802
                        if n.id in sub:
                            return copy.deepcopy(sub[n.id])
                        outer = [d for d in rd.defs if d.name == n.id and d.value is not None and d.index is None]
                        if len(outer) == 1 and len([d for d in rd.defs if d.name == n.id]) == 1:
                            return outer[0].value  # a closure variable bound exactly once in the enclosing function
                        return n

                node = _S().visit(copy.deepcopy(h.body[-1].value))
        if not (isinstance(node, ast.Call) and unparse(node.func).endswith("ArraySlice") and len(node.args) == 2):
            return None
        base, idx = inl.expr(node.args[0]), node.args[1]
        if isinstance(idx, ast.Tuple):
            idx = ast.Tuple(elts=[const_index(e) for e in idx.elts], ctx=ast.Load())
        if not (isinstance(base, ast.Call) and tree.resolve(fn.module, base.func, fn) == "ampform.kinematics.angles::compute_wigner_rotation_matrix"):
            return None
        if [unparse(a) for a in base.args] != fn.params[:3]:
            return None
        if not (isinstance(idx, ast.Tuple) and len(idx.elts) == 3 and unparse(idx.elts[0]) == "slice(None)" and all(isinstance(e, ast.Constant) for e in idx.elts[1:])):
            return None
        return (sign, idx.elts[1].value, idx.elts[2].value)

    want = {
        "alpha": ("atan2", [(1, 3, 2), (1, 3, 1)]),
        "beta": ("acos", [(1, 3, 3)]),
        "gamma": ("atan2", [(1, 2, 3), (-1, 1, 3)]),
    }
    # which key is which angle: by position in the symbols() call / by the name stem
    names = []
    for k in val.keys:
        defs = list(rd.reaching(k)) if isinstance(k, ast.Name) else []
        stem = None
        for d in defs:
            if isinstance(d.value, ast.Call) and d.index is not None:
                arg0 = d.value.args[0] if d.value.args else None
                txt = "".join(str(v.value) if isinstance(v, ast.Constant) else "{}" for v in arg0.values) if isinstance(arg0, ast.JoinedStr) else (arg0.value if isinstance(arg0, ast.Constant) else "")
                parts = txt.split()
                if d.index < len(parts):
                    stem = parts[d.index].split("{")[0]
            elif isinstance(d.value, ast.Call) and unparse(d.value.func) in {"sp.Symbol", "sympy.Symbol", "Symbol"} and d.value.args:
                arg0 = d.value.args[0]
                txt = "".join(str(v.value) if isinstance(v, ast.Constant) else "{}" for v in arg0.values) if isinstance(arg0, ast.JoinedStr) else (arg0.value if isinstance(arg0, ast.Constant) else "")
                stem = txt.split("{")[0]
        names.append(stem)
    if sorted(n or "" for n in names) != ["alpha", "beta", "gamma"]:
        raise AnalysisError(f"{fn.qual}: angle symbols are {names}, expected alpha/beta/gamma + suffix")
    for name, v in zip(names, val.values):
        v = inl.expr(v)
        func, args = want[name]
        got = None
        if isinstance(v, ast.Call) and unparse(v.func).split(".")[-1] == func and len(v.args) == len(args):
            got = [element(a) for a in v.args]
        ok = got == args
        ctx.verdict(ok, "R-TABLE", f"{fn.qual}::{name}", tree.loc(rets[0]),
                    f"Wigner rotation angle {name} = {func}(" + ", ".join(("-" if s < 0 else "") + f"R[{i},{j}]" for s, i, j in args) + ") (Marangotto 2019, B.2-4)",
                    None if ok else {"code": unparse(v)[:120], "elements": got})


def check_axisangle_amplitude(ctx: Check, tree: Tree) -> None:
    """R-SUMMAND (axis-angle): the aligned amplitude is the sum over ALL topology groups of
    PoolSum(alignment rotations * amplitude symbol of that topology, <all alignment indices>)."""
    fn = tree.func("ampform.helicity.align.axisangle::AxisAngleAlignment.formulate_amplitude")
    rd = RD(fn.node)
    rets = [r for r, _ in rd.returns if r.value is not None]
    if len(rets) != 1 or not isinstance(rets[0].value, ast.Name):
        raise AnalysisError(f"{fn.qual}: expected `return <accumulator>`")
    acc = rets[0].value.id
    loops = [n for n in walk_function(fn.node) if isinstance(n, ast.For)]
    incs = [n for n in walk_function(fn.node) if isinstance(n, ast.AugAssign) and isinstance(n.target, ast.Name) and n.target.id == acc]
    problems = []
    inits = [d for d in rd.defs if d.name == acc and d.kind == "assign"]
    if not (len(inits) == 1 and unparse(inits[0].value) in {"sp.S.Zero", "0", "sp.Integer(0)"}):
        problems.append("the accumulator does not start at 0")
    if len(incs) != 1 or not isinstance(incs[0].op, ast.Add):
        problems.append(f"{len(incs)} accumulation statements (one `+=` expected)")
    else:
        inc = incs[0]
        outer = [a for a in ancestors(inc) if isinstance(a, ast.For)]
        if not outer or "group_by_topology" not in " ".join([unparse(outer[-1].iter)] + [unparse(d.value) for d in rd.closure(rd.uses(outer[-1].iter)) if isinstance(d.value, ast.AST)]):
            problems.append("the accumulation is not inside the loop over all topology groups")
        if any(isinstance(a, ast.If) for a in ancestors(inc) if a is not fn.node and any(a is x for x in ast.walk(fn.node))):
            problems.append("the accumulation is conditional")
        v = inc.value
        if not (isinstance(v, ast.Call) and unparse(v.func).endswith("PoolSum") and v.args):
            problems.append(f"`{unparse(v)[:50]}` is not a PoolSum")
        else:
            summand = v.args[0]
            facs = _factors(summand)
            texts = []
            for f in facs:
                texts.append(" ".join([unparse(f)] + [unparse(d.value) for d in rd.closure(rd.uses(f)) if isinstance(d.value, ast.AST)]))
            has_align = any("formulate_axis_angle_alignment(" in t and ".expression" in unparse(f) for f, t in zip(facs, texts))
            has_amp = any("create_amplitude_base(" in t for t in texts)
            if not (len(facs) == 2 and has_align and has_amp):
                problems.append(f"summand `{unparse(summand)[:60]}` is not <alignment sum>.expression * <amplitude symbol of the topology>")
            stars = [a for a in v.args[1:] if isinstance(a, ast.Starred)]
            if not (len(stars) == 1 and unparse(stars[0].value).endswith(".indices") and "formulate_axis_angle_alignment(" in " ".join(unparse(d.value) for d in rd.closure(rd.uses(stars[0].value)) if isinstance(d.value, ast.AST))):
                problems.append("the PoolSum does not range over all indices of the alignment sum")
    ctx.verdict(not problems, "R-SUMMAND", f"{fn.qual}::sum-over-topologies", tree.loc(fn.node),
                "axis-angle: amplitude = sum over all topology groups of PoolSum(alignment.expression * A^topology[helicities], *alignment.indices)", problems or None)


def _call_arg(tree: Tree, call, qual: str, pname: str):
    """Value bound to parameter ``pname`` in a symbolic call of ``qual`` (None if it is not passed)."""
    target = tree.funcs.get(qual)
    if target is None:
        return None
    params = target.params
    if not call[3] and len(call[2]) == len(params) and pname in params:
        v = call[2][params.index(pname)]
        return v
    for k, v in call[3]:
        if k == pname:
            return v
    if pname in params:
        i = params.index(pname)
        if i < len(call[2]) and not any(a[0] == "star" for a in call[2][: i + 1]):
            return call[2][i]
    return None


def check_axisangle_structure(ctx: Check, tree: Tree) -> None:
    """Further structural obligations of the axis-angle alignment (all in helicity/align/axisangle.py):
    (a) formulate_rotation_chain returns the helicity rotations alone iff there is exactly one
        (the particle is a direct child of the initial state), otherwise their product with the
        Wigner rotation, whose summation index is the next free index name;
    (b) define_symbols defines (alpha, beta, gamma) for exactly the final states whose parent is
        not the initial state and merges every result;
    (c) __multiply_pool_sums multiplies all summands and concatenates ALL index lists;
    (d) get_opposite_helicity_sign is -1 iff the state is not the initial state and is the
        opposite-helicity state, +1 otherwise."""
    mod = "ampform.helicity.align.axisangle"
    # (a) judged on what formulate_rotation_chain computes (sa/symex.py): temporaries, helper functions that build
    #     the index symbol, keyword / positional arguments do not matter
    fn = tree.func(f"{mod}::formulate_rotation_chain")
    chain_q, wigner_q = f"{mod}::formulate_helicity_rotation_chain", f"{mod}::formulate_wigner_rotation"
    sx, value, _ = _symex(tree, fn.qual, frozenset({chain_q, wigner_q, "__multiply_pool_sums"}))
    problems = []
    _require_known(fn.qual, value)
    alts = cases(value)
    is_chain = lambda v: v[0] == "call" and func_name(v) == chain_q  # noqa: E731
    early = [(pc, v) for pc, v in alts if is_chain(v)]
    hr = early[0][1] if early else next((x for x in subterms(value) if is_chain(x)), None)
    if len(early) != 1:
        problems.append("no early return of the bare helicity rotations")
    else:
        pc = early[0][0]
        want = ("cmp", "==", ("call", ("builtin", "len"), (("attr", hr, "indices"),), ()), ("const", 1))
        if pc != ((want, True),):
            problems.append(f"the bare helicity rotations are returned under `{show_pc(pc)[:80] if pc else '?'}`, not iff there is exactly one rotation")
    final = [(pc, v) for pc, v in alts if not is_chain(v)]
    wr_calls = [x for x in subterms(value) if x[0] == "call" and func_name(x) == wigner_q]
    if len(final) != 1 or not (final[0][1][0] == "call" and func_name(final[0][1]).endswith("__multiply_pool_sums")):
        problems.append("the general case does not return the product of helicity rotations and Wigner rotation")
    else:
        prod = final[0][1]
        if not (any(is_chain(x) for x in subterms(prod)) and any(x in wr_calls for x in subterms(prod))):
            problems.append("the product does not contain both the helicity rotations and the Wigner rotation")
        if len(wr_calls) == 1 and hr is not None:
            mp = _call_arg(tree, wr_calls[0], wigner_q, "m_prime")
            next_free = ("call", ("builtin", "len"), (("attr", hr, "indices"),), ())
            names = [x for x in subterms(mp)] if mp is not None else []
            if early and not any(x[0] == "sub" and x[1][0] == "global" and x[1][1].endswith("__GREEK_INDEX_NAMES") and x[2] == next_free for x in names):
                problems.append("the Wigner rotation's summation index is not the next free index name")
    # both kinds of rotation act on the SAME outer index: the spin-projection symbol of the rotated state.
    # A value that can be None makes formulate_wigner_rotation fall back to the concrete projection of
    # one transition: the D-matrix row is then fixed instead of summed, the rotation no longer unitary.
    def never_none_symbol(v, depth=0) -> bool:
        if v is None or depth > 6:
            return False
        if v[0] == "call" and func_name(v).endswith("create_spin_projection_symbol") and not v[3] and v[2] == (("param", fn.params[1]),):
            return True
        if v[0] == "or":
            return never_none_symbol(v[1][-1], depth + 1)
        if v[0] == "phi":
            return all(never_none_symbol(x, depth + 1) for _, x in v[1])
        return False

    bound = []
    for suffix, q in (("formulate_helicity_rotation_chain", chain_q), ("formulate_wigner_rotation", wigner_q)):
        seen = []
        for c in [x for x in subterms(value) if x[0] == "call" and func_name(x) == q]:
            if c in seen:
                continue
            seen.append(c)
            e = _call_arg(tree, c, q, "helicity_symbol")
            bound.append((suffix, e))
            if e is None:
                problems.append(f"{suffix}(...) is called without the outer helicity symbol (falls back to the concrete projection of one transition)")
            elif not never_none_symbol(e):
                problems.append(f"{suffix}(... helicity_symbol=`{show(e)[:50]}`) is not always create_spin_projection_symbol({fn.params[1]}): it may be None / another symbol")
    if len({s_ for s_, _ in bound}) < 2:
        raise AnalysisError(f"{fn.qual}: expected calls of formulate_helicity_rotation_chain and formulate_wigner_rotation")
    ctx.verdict(not problems, "R-WIRING", f"{fn.qual}::wigner-iff-nested", tree.loc(fn.node),
                "formulate_rotation_chain: one helicity rotation -> returned alone; more -> times the Wigner rotation with the next free summation index", problems or None)
    # (b)
    fn = tree.func(f"{mod}::AxisAngleAlignment.define_symbols")
    rd = RD(fn.node)
    problems = []
    calls = [c for c in walk_function(fn.node) if isinstance(c, ast.Call) and unparse(c.func).endswith("compute_wigner_angles")]
    if len(calls) != 1:
        raise AnalysisError(f"{fn.qual}: expected one call of compute_wigner_angles")
    c = calls[0]
    returned = {n.id for r, _ in rd.returns if r.value is not None for n in ast.walk(r.value) if isinstance(n, ast.Name)}
    merged = False
    for d in rd.defs:
        if d.value is c:
            for node in walk_function(fn.node):
                if isinstance(node, ast.Call) and isinstance(node.func, ast.Attribute) and node.func.attr == "update" and isinstance(node.func.value, ast.Name) and node.func.value.id in returned:
                    if any(isinstance(n, ast.Name) and d in rd.reaching(n) for a_ in node.args for n in ast.walk(a_)):
                        merged = True
    for a in ancestors(c):
        if isinstance(a, ast.Call) and isinstance(a.func, ast.Attribute) and a.func.attr == "update" and isinstance(a.func.value, ast.Name) and a.func.value.id in returned:
            merged = True
    if not merged:
        problems.append("the angles returned by compute_wigner_angles are not merged into the returned dictionary")
    sid = c.args[2] if len(c.args) > 2 else None
    stexts = [unparse(d.value) for d in rd.closure(rd.uses(sid)) if isinstance(d.value, ast.AST)] + [unparse(d.node.iter) for d in rd.closure(rd.uses(sid)) if d.kind == "for" and isinstance(d.node, ast.For)] if sid is not None else []
    filt = None
    for node in walk_function(fn.node):
        if isinstance(node, (ast.SetComp, ast.ListComp, ast.GeneratorExp)) and any("get_parent_id" in unparse(i) for g in node.generators for i in g.ifs):
            filt = node
    if filt is None:
        problems.append("the rotated states are not selected by their parent (get_parent_id)")
    else:
        g = filt.generators[0]
        cond = next(i for i in g.ifs if "get_parent_id" in unparse(i))
        ok_c = isinstance(cond, ast.Compare) and len(cond.ops) == 1 and isinstance(cond.ops[0], ast.NotEq) and unparse(cond.comparators[0]) in {"-1"} and "outgoing_edge_ids" in unparse(g.iter)
        if not ok_c:
            problems.append(f"selection `{unparse(cond)}` over `{unparse(g.iter)}` is not: final states whose parent is not the initial state")
    ctx.verdict(not problems, "R-WIRING", f"{fn.qual}::defines-nested-final-states", tree.loc(fn.node),
                "AxisAngleAlignment.define_symbols: Wigner angles for every final state whose parent is not the initial state, all merged into the result", problems or None)
    # (c)
    fn = tree.func(f"{mod}::__multiply_pool_sums")
    rd = RD(fn.node)
    problems = []
    param = fn.params[0]
    rets = [r for r, _ in rd.returns if r.value is not None]
    if len(rets) != 1 or not (isinstance(rets[0].value, ast.Call) and unparse(rets[0].value.func).endswith("PoolSum") and len(rets[0].value.args) == 2 and isinstance(rets[0].value.args[1], ast.Starred)):
        problems.append("does not return PoolSum(product, *indices)")
    else:
        prod, idx = rets[0].value.args[0], rets[0].value.args[1].value
        ptxt = " ".join([unparse(prod)] + [unparse(d.value) for d in rd.closure(rd.uses(prod)) if isinstance(d.value, ast.AST)])
        if not ("sp.Mul(*" in ptxt and ".expression" in ptxt and f"in {param}" in ptxt):
            problems.append("the summand is not the product of the summands of all factors")
        ext = [n for n in walk_function(fn.node) if isinstance(n, ast.Call) and isinstance(n.func, ast.Attribute) and n.func.attr in {"extend"} and isinstance(idx, ast.Name) and unparse(n.func.value) == idx.id]
        ok_e = len(ext) == 1 and unparse(ext[0].args[0]).endswith(".indices") and any(isinstance(a, ast.For) and unparse(a.iter) == param for a in ancestors(ext[0])) and not any(isinstance(a, ast.If) for a in ancestors(ext[0]) if any(a is x for x in ast.walk(fn.node)) and a is not fn.node)
        if not ok_e:
            problems.append("the index lists of all factors are not concatenated unconditionally")
    ctx.verdict(not problems, "R-WIRING", f"{fn.qual}::product-of-sums", tree.loc(fn.node), "__multiply_pool_sums: PoolSum(product of all summands, *indices of all factors)", problems or None)
    # (e) the complete alignment = neutral element times the rotation chain of EVERY final state
    fn = tree.func(f"{mod}::formulate_axis_angle_alignment")
    rd = RD(fn.node)
    problems = []
    rets = [r for r, _ in rd.returns if r.value is not None]
    acc = rets[0].value.id if len(rets) == 1 and isinstance(rets[0].value, ast.Name) else None
    if acc is None:
        problems.append("does not return an accumulator")
    else:
        inits = [d for d in rd.defs if d.name == acc and d.kind == "assign" and not any(isinstance(a, ast.For) for a in ancestors(d.node))]
        if not (len(inits) == 1 and unparse(inits[0].value).replace(" ", "") in {"PoolSum(1)", "PoolSum(sp.S.One)", "PoolSum(sp.Integer(1))"}):
            problems.append(f"the product does not start from the neutral element PoolSum(1) ({[unparse(d.value) for d in inits]})")
        steps = [d for d in rd.defs if d.name == acc and d.kind == "assign" and any(isinstance(a, ast.For) for a in ancestors(d.node))]
        if len(steps) != 1:
            problems.append("no single accumulation step inside the loop over the final states")
        else:
            st = steps[0]
            loop = next(a for a in ancestors(st.node) if isinstance(a, ast.For))
            txt = unparse(st.value) + " ".join(unparse(d.value) for d in rd.closure(rd.uses(st.value)) if isinstance(d.value, ast.AST))
            if not (unparse(loop.iter).endswith(".final_states") and "__multiply_pool_sums" in unparse(st.value) and "formulate_rotation_chain(" in txt and acc in {n.id for n in ast.walk(st.value) if isinstance(n, ast.Name)}):
                problems.append("the accumulator is not multiplied by formulate_rotation_chain(transition, state) for every final state")
            if any(isinstance(a, ast.If) for a in ancestors(st.node) if any(a is x for x in ast.walk(fn.node)) and a is not fn.node):
                problems.append("the accumulation is conditional")
    ctx.verdict(not problems, "R-WIRING", f"{fn.qual}::all-final-states", tree.loc(fn.node), "formulate_axis_angle_alignment = PoolSum(1) x rotation chain of every final state", problems or None)
    # (f) the Wigner rotation acts on the helicity symbol that is handed in and uses (alpha, beta, gamma) of that state;
    #     judged on the value of every argument on every path (sa/symex.py): an if/else assignment, a conditional
    #     expression in the call and a temporary are the same thing
    fn = tree.func(f"{mod}::formulate_wigner_rotation")
    rot_q = f"{mod}::formulate_helicity_rotation"
    sx, value, _ = _symex(tree, fn.qual, frozenset({rot_q}))
    problems = []
    calls = []
    for x in subterms(value):
        if x[0] == "call" and func_name(x) == rot_q and x not in calls:
            calls.append(x)
    if len(calls) != 1:
        raise AnalysisError(f"{fn.qual}: expected one call of formulate_helicity_rotation")
    _require_known(fn.qual, calls[0])
    sym = ("param", "helicity_symbol")
    none_given = ("cmp", "is", sym, NONE)
    ok_sp = True
    seen_cases = cases(calls[0])
    for pc, c in seen_cases:
        v = _call_arg(tree, c, rot_q, "spin_projection")
        if v is None:
            ok_sp = False
        elif (none_given, True) in pc:
            ok_sp = ok_sp and v[0] == "attr" and v[2] == "spin_projection"
        else:
            ok_sp = ok_sp and v == sym
    if not ok_sp:
        problems.append("spin_projection is not the helicity symbol that was handed in (state.spin_projection only when none is given)")
    first = seen_cases[0][1]
    for ang in ("alpha", "beta", "gamma"):
        v = _call_arg(tree, first, rot_q, ang)
        ok_a = (v is not None and v[0] == "call" and func_name(v) == "sympy.Symbol" and len(v[2]) == 1 and v[2][0][0] == "fstr" and v[2][0][1][0] == ("const", ang)
                and len(v[2][0][1]) == 2 and ("real", ("const", True)) in v[3])
        if not ok_a:
            problems.append(f"{ang} is `{show(v)[:40] if v is not None else ''}`, not Symbol('{ang}' + helicity suffix, real=True)")
    if _call_arg(tree, first, rot_q, "m_prime") != ("param", "m_prime"):
        problems.append("m_prime is not passed on")
    nz = _call_arg(tree, first, rot_q, "no_zero_spin")
    if nz is None or not any(x[0] == "cmp" and x[1] == "==" and x[2][0] == "attr" and x[2][2] == "mass" and x[3] in {("const", 0), ("const", 0.0)} for x in subterms(nz)):
        problems.append("no_zero_spin is not `mass == 0` of the rotated state")
    ctx.verdict(not problems, "R-WIRING", f"{fn.qual}::arguments", tree.loc(fn.node), "formulate_wigner_rotation: D^s_{m', m}(alpha, beta, gamma) with m = the helicity symbol handed in, the state's own (alpha, beta, gamma) symbols and m'", problems or None)
    # (g) the Euler rotation: D(j = s, m = projection, mp = m', alpha, beta, gamma) summed over m' in the spin range
    fn = tree.func(f"{mod}::formulate_helicity_rotation")
    dcalls = [c for c in walk_function(fn.node) if isinstance(c, ast.Call) and isinstance(c.func, ast.Attribute) and c.func.attr == "D"]
    problems = []
    if len(dcalls) != 1:
        raise AnalysisError(f"{fn.qual}: expected one Wigner.D call")
    kw = {k.arg: unparse(k.value) for k in dcalls[0].keywords}
    pos = [unparse(a) for a in dcalls[0].args]
    got = {**dict(zip(["j", "m", "mp", "alpha", "beta", "gamma"], pos)), **kw}
    want = {"mp": "m_prime", "alpha": "alpha", "beta": "beta", "gamma": "gamma"}
    for k_, w in want.items():
        if got.get(k_) != w:
            problems.append(f"D(..., {k_}={got.get(k_)}) instead of {w}")
    if "spin_magnitude" not in got.get("j", "") or "spin_projection" not in got.get("m", ""):
        problems.append(f"j = {got.get('j')}, m = {got.get('m')}")
    ctx.verdict(not problems, "R-WIRING", f"{fn.qual}::wigner-d-arguments", tree.loc(fn.node), "formulate_helicity_rotation: Wigner.D(j = spin, m = projection, mp = m', alpha, beta, gamma)", problems or None)
    # (d)
    fn = tree.func(f"{mod}::get_opposite_helicity_sign")
    problems = []
    ifs = [n for n in walk_function(fn.node) if isinstance(n, ast.If)]
    rets_all = [r for r in walk_function(fn.node) if isinstance(r, ast.Return)]
    ok_d = False
    if len(ifs) == 1 and len(rets_all) == 2:
        t = ifs[0].test
        ops = t.values if isinstance(t, ast.BoolOp) and isinstance(t.op, ast.And) else [t]
        opp = [o for o in ops if isinstance(o, ast.Call) and unparse(o.func).endswith("is_opposite_helicity_state") and [unparse(a) for a in o.args] == fn.params[:2]]
        rest = [o for o in ops if o not in opp]
        rest_ok = all(isinstance(o, ast.Compare) and len(o.ops) == 1 and isinstance(o.ops[0], ast.NotEq) and unparse(o.left) == fn.params[1] and unparse(o.comparators[0]) == "-1" for o in rest)
        inner = [r for r in ifs[0].body if isinstance(r, ast.Return)]
        outer = [r for r in rets_all if r not in inner]
        ok_d = len(opp) == 1 and rest_ok and len(inner) == 1 and unparse(inner[0].value) == "-1" and len(outer) == 1 and unparse(outer[0].value) == "1"
    ctx.verdict(ok_d, "R-WIRING", f"{fn.qual}::sign", tree.loc(fn.node), "get_opposite_helicity_sign: -1 iff the state is the opposite-helicity state (and not the initial state), else +1")


def check_dpd_generator(ctx: Check, tree: Tree) -> None:
    """R-WIRING (DPD): the Wigner-d generator returns 1 only for spin 0, otherwise
    Wigner.d(j, m, m', zeta) with zeta = formulate_zeta_angle(rotated state, aligned subsystem,
    THIS alignment's reference subsystem), and registers the definition of every zeta it uses;
    the alignment hands out component 0 as amplitude and component 1 as symbol definitions; the
    relabelling shifts every edge id by one (-1..3 -> 0..4).
    Judged on what __call__ computes (sa/symex.py): methods extracted from it are inlined, keyword
    and positional arguments are bound to the parameters of the callee."""
    mod = "ampform.helicity.align.dpd"
    cls = tree.cls(f"{mod}::_DPDAlignmentWignerGenerator")
    call = cls.methods.get("__call__")
    init = cls.methods.get("__init__")
    if call is None or init is None:
        raise AnalysisError("vanished anchor: _DPDAlignmentWignerGenerator.__call__/__init__")
    zeta_q = "ampform.kinematics.angles::formulate_zeta_angle"
    sx, value, _ = _symex(tree, call.qual, frozenset({zeta_q}))
    if sx.imprecise:
        raise AnalysisError(f"{call.qual}: symbolic execution incomplete: {sx.imprecise[0]}")
    _require_known(call.qual, value, tuple(e[2:4] for e in sx.events if e[0] == "store"))
    problems = []
    me = ("param", call.params[0])
    j = ("param", call.params[1])
    spin_zero = ("cmp", "==", j, ("const", 0))
    ones = {("const", 1), ("call", ("global", "sympy.Rational"), (("const", 1),), ()), ("call", ("global", "sympy.Integer"), (("const", 1),), ()), ("global", "sympy.S.One")}
    general = []
    for pc, val in alternatives(value):
        if val[0] == "call" and func_name(val).endswith(".d"):
            general.append((pc, val))
            continue
        ok_t = pc == ((spin_zero, True),)
        ok_v = val in ones
        if not (ok_t and ok_v):
            problems.append(f"shortcut `if {show_pc(pc)}: return {show(val)[:40]}` is not `if {j[1]} == 0: return 1`")
    if len(general) != 1 or any(c not in {(spin_zero, False)} for c in general[0][0]):
        problems.append("the general case does not return Wigner.d(...)")
    else:
        gpc, d = general[0]
        dargs = list(d[2])
        if d[3] or dargs[:3] != [("param", p) for p in call.params[1:4]]:
            problems.append(f"Wigner.d arguments {[show(a)[:30] for a in dargs[:3]]} are not (j, m, m_prime) as received")
        zeta = dargs[3] if len(dargs) > 3 else None
        zcall = zeta[1] if zeta is not None and zeta[0] == "item" and zeta[2] == 0 else None
        if zcall is None or not (zcall[0] == "call" and func_name(zcall) == zeta_q):
            problems.append("zeta is not the symbol returned by formulate_zeta_angle")
        else:
            want = (("param", call.params[4]), ("param", call.params[5]), ("attr", me, "reference_subsystem"))
            if zcall[3] or zcall[2] != want:
                problems.append(f"formulate_zeta_angle({', '.join([show(a)[:40] for a in zcall[2]] + [f'{k}={show(v)[:30]}' for k, v in zcall[3]])}) is not (rotated_state, aligned_subsystem, self.reference_subsystem)")
            table = ("attr", me, "angle_definitions")
            stores = [e for e in sx.events if e[0] == "store" and e[2][0] == "sub" and e[2][1] == table]
            ok_store = len(stores) == 1 and stores[0][2][2] == zeta and stores[0][3] == ("item", zcall, 1) and stores[0][1] == gpc
            if not ok_store:
                problems.append("the definition of zeta is not registered in self.angle_definitions on the general path")
    sxi, _, _ = _symex(tree, init.qual)
    keeps = [e for e in sxi.events if e[0] == "store" and e[2] == ("attr", ("param", init.params[0]), "reference_subsystem")]
    ok_init = len(init.params) > 1 and len(keeps) == 1 and keeps[0][1] == () and keeps[0][3] == ("param", init.params[1])
    if not ok_init:
        problems.append("__init__ does not keep the reference subsystem")
    ctx.verdict(not problems, "R-WIRING", f"{cls.qual}::generator", tree.loc(call.node),
                "DPD Wigner-d generator: 1 iff j == 0, else Wigner.d(j, m, m', zeta(rotated state, aligned subsystem, own reference)) with zeta's definition registered", problems or None)
    # components of the memoised pair: x[k] and `a, b = x` (k-th unpacked name) read the same component of the returned pair
    al = tree.cls(f"{mod}::DalitzPlotDecomposition")
    comp = {}
    for name in ("formulate_amplitude", "define_symbols"):
        m = al.methods.get(name)
        comp[name] = None
        if m is None:
            continue
        _, mval, _ = _symex(tree, m.qual)
        _require_known(m.qual, mval)
        found = set()
        for pc, val in alternatives(mval):
            for x in subterms(val):
                c = x[1] if x[0] in {"sub", "item"} else None
                if c is not None and c[0] == "call" and func_name(c) == DPD_FN:
                    k = x[2] if x[0] == "item" else x[2][1] if is_const(x[2], int) else None
                    found.add((str(k), tuple(show(a) for a in c[2]) if not c[3] else None))
        if len(found) == 1:
            k, args = next(iter(found))
            comp[name] = (k, list(args) if args is not None else None)
    ok = comp["formulate_amplitude"] == ("0", ["reaction", "self.reference_subsystem"]) and comp["define_symbols"] == ("1", ["reaction", "self.reference_subsystem"])
    ctx.verdict(ok, "R-WIRING", f"{al.qual}::components", tree.loc(al.node), "DalitzPlotDecomposition: amplitude = component 0, symbol definitions = component 1 of _formulate_aligned_amplitude(reaction, own reference subsystem)",
                None if ok else comp)
    # relabelling -1..3 -> 0..4
    rel = tree.func(f"{mod}::__get_default_relabel_mapping")
    rets = [r for r in walk_function(rel.node) if isinstance(r, ast.Return) and r.value is not None]
    ok = False
    if len(rets) == 1 and isinstance(rets[0].value, ast.DictComp) and len(rets[0].value.generators) == 1 and isinstance(rets[0].value.generators[0].target, ast.Name):
        dc = rets[0].value
        v = dc.generators[0].target.id
        import re as _re

        txt = _re.sub(rf"\b{_re.escape(v)}\b", "_", unparse(dc)).replace(" ", "")
        ok = txt in {"{_-1:_for_inrange(5)}", "{_:_+1for_inrange(-1,4)}"}
    if not ok and len(rets) == 1 and isinstance(rets[0].value, ast.Dict):
        try:
            lit = {ast.literal_eval(k): ast.literal_eval(v) for k, v in zip(rets[0].value.keys, rets[0].value.values)}
            ok = lit == {-1: 0, 0: 1, 1: 2, 2: 3, 3: 4}
        except Exception:  # noqa: BLE001
            ok = False
    ctx.verdict(ok, "R-WIRING", f"{rel.qual}::shift-by-one", tree.loc(rel.node), "DPD relabelling maps the edge ids -1, 0, 1, 2, 3 to 0, 1, 2, 3, 4 (initial state 0, final states 1..3, resonance 4)")


def check_wigner_rotation_matrix(ctx: Check, tree: Tree) -> None:
    """R-WIRING (Wigner rotation, Marangotto 2019 Eq. 36): the rotation matrix of a final state is
    B(-p) . B_n ... B_1, the inverse of the direct boost times the chain of boosts from the first
    resonance down to the state, where B_k = BoostMatrix(momentum of the k-th chain member in the frame
    reached so far) and EVERY boost is applied to all momenta that are still needed and is collected."""
    fn = tree.func("ampform.kinematics.angles::compute_wigner_rotation_matrix")
    rd = RD(fn.node)
    rets = [r for r, _ in rd.returns if r.value is not None]
    problems = []
    if len(rets) != 1 or not (isinstance(rets[0].value, ast.Call) and unparse(rets[0].value.func).endswith("MatrixMultiplication")):
        problems.append("does not return a MatrixMultiplication")
    else:
        args = rets[0].value.args
        first = args[0] if args else None
        ftxt = " ".join([unparse(first)] + [unparse(d.value) for d in rd.closure(rd.uses(first)) if isinstance(d.value, ast.AST)]) if first is not None else ""
        if not ("BoostMatrix(NegativeMomentum(" in ftxt.replace(" ", "") and f"{fn.params[1]}[{fn.params[2]}]" in ftxt.replace(" ", "")):
            problems.append("the first factor is not BoostMatrix(NegativeMomentum(momenta[state_id])) - the inverse of the direct boost")
        star = [a for a in args[1:] if isinstance(a, ast.Starred)]
        stxt = " ".join(unparse(d.value) for d in rd.closure(rd.uses(star[0].value)) if isinstance(d.value, ast.AST)) if len(star) == 1 else ""
        if len(args) != 2 or len(star) != 1 or f"compute_boost_chain({', '.join(fn.params[:3])})" not in stxt:
            problems.append("the remaining factors are not *compute_boost_chain(topology, momenta, state_id), in chain order")
    ctx.verdict(not problems, "R-WIRING", f"{fn.qual}::inverse-direct-boost-times-chain", tree.loc(fn.node),
                "Wigner rotation matrix = BoostMatrix(-p_state) . *compute_boost_chain(topology, momenta, state)", problems or None)
    ch = tree.func("ampform.kinematics.lorentz::compute_boost_chain")
    rd = RD(ch.node)
    problems = []
    rets = [r for r, _ in rd.returns if r.value is not None]
    acc = rets[0].value.id if len(rets) == 1 and isinstance(rets[0].value, ast.Name) else None
    loops = [n for n in walk_function(ch.node) if isinstance(n, ast.For)]
    if acc is None or len(loops) != 1:
        raise AnalysisError(f"{ch.qual}: expected `for state in chain: ...; return <list>`")
    loop = loops[0]
    ltxt = " ".join([unparse(loop.iter)] + [unparse(d.value) for d in rd.closure(rd.uses(loop.iter)) if isinstance(d.value, ast.AST)])
    if "__get_boost_chain_ids(" not in ltxt:
        problems.append("the loop does not run over the boost chain ids (first resonance ... state)")
    apps = [n for n in walk_function(loop) if isinstance(n, ast.Call) and isinstance(n.func, ast.Attribute) and n.func.attr == "append" and unparse(n.func.value) == acc]
    if len(apps) != 1 or any(isinstance(a, ast.If) for a in ancestors(apps[0]) if any(a is x for x in ast.walk(loop))):
        problems.append("not every boost of the chain is collected")
    else:
        b = apps[0].args[0]
        btxt = " ".join([unparse(b)] + [unparse(d.value) for d in rd.closure(rd.uses(b)) if isinstance(d.value, ast.AST)])
        if "BoostMatrix(" not in btxt or f"[{unparse(loop.target)}]" not in btxt.replace(" ", ""):
            problems.append("the collected matrix is not BoostMatrix(current momentum of the loop's state)")
        # the pool of momenta is re-boosted in every step
        rebinds = [n for n in walk_function(loop) if isinstance(n, ast.Assign) and isinstance(n.value, ast.DictComp)]
        ok_re = False
        for r_ in rebinds:
            v = r_.value
            if isinstance(v.value, ast.Call) and unparse(v.value.func).endswith("ArrayMultiplication") and len(v.value.args) == 2 and not v.generators[0].ifs:
                first_ok = isinstance(v.value.args[0], ast.Name) and isinstance(b, ast.Name) and rd.reaching(v.value.args[0]) == rd.reaching(b)
                src_ok = unparse(v.generators[0].iter) == f"{unparse(r_.targets[0])}.items()"
                ok_re = ok_re or (first_ok and src_ok)
        if not ok_re:
            problems.append("the momenta are not all transformed by the boost of this step before the next step")
    ctx.verdict(not problems, "R-WIRING", f"{ch.qual}::chain", tree.loc(ch.node),
                "compute_boost_chain: for every chain member, in order: boost = BoostMatrix(its momentum in the current frame), all pooled momenta boosted, boost collected", problems or None)
    ids = tree.func("ampform.kinematics.lorentz::__get_boost_chain_ids")
    txt = unparse(ids.node).replace(" ", "")
    ok = "list(reversed(list_decay_chain_ids(topology,state_id)))" in txt and ".remove(" in txt and "incoming_edge_ids" in txt
    ctx.verdict(ok, "R-WIRING", f"{ids.qual}::order", tree.loc(ids.node), "the boost chain runs from the first resonance down to the state (reversed decay chain without the initial state)")


def check_symbols_not_split(ctx: Check, tree: Tree) -> None:
    """R-SYMSPLIT: sp.symbols() splits its argument at commas and spaces.  A name that contains text
    interpolated from a naming function may contain both: the helicity / boost-chain suffix of a state
    below a nested resonance is e.g. `_2^23,123`.  `a, b, c = sp.symbols(f"a{suffix} b{suffix} c{suffix}")`
    then raises `too many values to unpack` - formulating an axis-angle aligned model fails for every
    decay with four or more final states.  Interpolated parts of an sp.symbols() string must be
    separator-free by construction: integer ids, or functions that join digits without separator."""
    from ..dataflow import RD as _RD

    def may_contain_separator(qual: str, depth: int = 0) -> bool:
        fn = tree.funcs.get(qual)
        if fn is None or depth > 3:
            return False
        for n in walk_function(fn.node, nested=True):
            if isinstance(n, ast.Constant) and isinstance(n.value, str) and ("," in n.value or " " in n.value) and not (
                isinstance(getattr(n, "_parent", None), ast.Expr)):
                par = getattr(n, "_parent", None)
                # separators that end up in the returned text: f-string parts, join separators, concatenation
                if isinstance(par, (ast.JoinedStr, ast.BinOp)) or (isinstance(par, ast.Attribute) and par.attr == "join"):
                    return True
            if isinstance(n, ast.Call):
                callee = tree.callee(n, tree.func_of(n) or fn)
                if callee and callee != qual and callee.startswith("ampform") and may_contain_separator(callee, depth + 1):
                    return True
        return False

    n = 0
    for q, fn in sorted(tree.funcs.items()):
        if not q.startswith("ampform") or fn.outer is not None:
            continue
        rd = None
        for call in [c for c in walk_function(fn.node, nested=True) if isinstance(c, ast.Call) and unparse(c.func) in {"sp.symbols", "sympy.symbols", "symbols"} and c.args and isinstance(c.args[0], ast.JoinedStr)]:
            rd = rd or _RD(fn.node)
            n += 1
            bad = []
            for part in call.args[0].values:
                if not isinstance(part, ast.FormattedValue):
                    continue
                exprs = [part.value] + [d.value for d in rd.closure(rd.uses(part.value)) if isinstance(d.value, ast.AST)]
                for e in exprs:
                    for c in [x for x in ast.walk(e) if isinstance(x, ast.Call)]:
                        callee = tree.callee(c, tree.func_of(call) or fn)
                        if callee and callee.startswith("ampform") and may_contain_separator(callee):
                            bad.append(f"`{{{unparse(part.value)}}}` comes from {callee.split('::')[-1]}(), whose result can contain `,` or a space")
            ctx.verdict(not bad, "R-SYMSPLIT", f"{q}::symbols-{len(call.args[0].values)}", tree.loc(call),
                        f"{q}: `{unparse(call)[:70]}` interpolates only separator-free text into sp.symbols()", sorted(set(bad)) or None)
    if n == 0:
        ctx.ok("R-SYMSPLIT", "src/ampform", "no sp.symbols() call with interpolated text")


def check_full_range(ctx: Check, tree: Tree) -> None:
    """R-FULLRANGE: a Wigner-D matrix is unitary only over the complete index set -s..s.  Every
    summation pool of the alignment rotations is therefore `create_spin_range(s)` without the
    `no_zero_spin` restriction - with it (massless states) the helicity rotation is a 2x2 block of a 3x3
    unitary matrix and the aligned intensity differs from the unaligned one."""
    target = "ampform.helicity.align._spin::create_spin_range"
    if target not in tree.funcs:
        raise AnalysisError("vanished anchor: create_spin_range")
    tparams = tree.funcs[target].params
    flag_name = tparams[1] if len(tparams) > 1 else None
    callers: dict[str, list] = {}
    for q, fn in tree.funcs.items():
        for call, callee in tree.calls_in(fn):
            if callee:
                callers.setdefault(callee, []).append((fn, call))

    def flag_of(call: ast.Call, callee_params: list[str], name: str):
        for k in call.keywords:
            if k.arg == name:
                return k.value
        if name in callee_params:
            i = callee_params.index(name)
            if i < len(call.args):
                return call.args[i]
        return None

    def sources(fn, e, depth=0, seen=None) -> list[str]:
        """non-constant origins of a flag expression (follows parameters to the callers)"""
        seen = seen if seen is not None else set()
        if e is None or (isinstance(e, ast.Constant) and e.value is False):
            return []
        if isinstance(e, ast.Name) and e.id in fn.params and depth < 4:
            dflt = None
            a = fn.node.args
            names = [x.arg for x in a.posonlyargs + a.args]
            d = dict(zip(names[len(names) - len(a.defaults):], a.defaults))
            dflt = d.get(e.id)
            out = []
            if dflt is not None and not (isinstance(dflt, ast.Constant) and dflt.value is False):
                out.append(f"default `{unparse(dflt)}` of {fn.qual.split('::')[-1]}")
            for cfn, call in callers.get(fn.qual, []):
                if (cfn.qual, id(call)) in seen:
                    continue
                seen.add((cfn.qual, id(call)))
                out += sources(cfn, flag_of(call, fn.params, e.id), depth + 1, seen)
            return out
        if isinstance(e, ast.Name):
            rd = RD(fn.node if fn.outer is None else fn.outer.node)
            outs = []
            for d_ in rd.reaching(e):
                if d_.value is not None:
                    outs += sources(fn, d_.value, depth + 1, seen)
                else:
                    outs.append(f"`{e.id}` in {fn.qual.split('::')[-1]}")
            return outs
        return [f"`{unparse(e)[:50]}` in {fn.qual.split('::')[-1]}"]

    n = 0
    for fn, call in sorted(callers.get(target, []), key=lambda fc: fc[0].qual):
        if not fn.qual.startswith("ampform.helicity.align"):
            continue
        n += 1
        src = sources(fn, flag_of(call, tparams, flag_name)) if flag_name else []
        ok = not src
        ctx.verdict(ok, "R-FULLRANGE", f"{fn.qual}::restricted-range", tree.loc(call),
                    f"{fn.qual.split('::')[-1]}: the summation pool `{unparse(call)[:60]}` is the complete range -s..s",
                    None if ok else {"the restriction is switched on by": sorted(set(src))[:5],
                                     "why": "D^1 restricted to the rows/columns +-1 is not unitary: sum_{m'} |D_{m m'}|^2 < 1, so the aligned intensity is not the unaligned one"})
    ctx.stats["spin_range_pools"] = n
    if n < 1:
        raise AnalysisError("no summation pool built with create_spin_range found in ampform.helicity.align")


def check_massless_rest_frame(ctx: Check, tree: Tree) -> None:
    """R-RESTFRAME: the Wigner rotation of a final state is computed with a boost into THAT state's
    rest frame (compute_wigner_rotation_matrix: BoostMatrix(NegativeMomentum(momenta[state_id]))).  A
    massless state has no rest frame (beta = 1): the matrix, its Euler angles and the aligned
    intensity are NaN at every event.  The alignment sums treat massless states specially (`mass ==
    0.0` -> no helicity 0); the path that formulates the angles must know about them too."""
    mod = "ampform.helicity.align.axisangle"
    ds = tree.func(f"{mod}::AxisAngleAlignment.define_symbols")
    target_q = "ampform.kinematics.angles::compute_wigner_rotation_matrix"
    target = tree.func(target_q)
    rest = None
    trd = RD(target.node)
    for n in walk_function(target.node):
        if isinstance(n, ast.Call) and unparse(n.func).split(".")[-1] == "BoostMatrix" and n.args:
            arg = n.args[0]
            if isinstance(arg, ast.Call) and unparse(arg.func).split(".")[-1] == "NegativeMomentum" and arg.args:
                inner = arg.args[0]
                srcs = [inner] + [d.value for d in trd.reaching(inner) if d.value is not None] if isinstance(inner, ast.Name) else [inner]
                if any(isinstance(x, ast.Subscript) and unparse(x.slice) == "state_id" for x in srcs):
                    rest = n
    if rest is None:
        raise AnalysisError(f"{target_q}: the boost into the rest frame of the rotated state (BoostMatrix(NegativeMomentum(momenta[state_id]))) was not found")
    graph = tree.call_graph()
    down = tree.reachable(ds.qual, graph)
    if target_q not in down:
        raise AnalysisError("AxisAngleAlignment.define_symbols no longer reaches compute_wigner_rotation_matrix")
    on_path = sorted(q for q in down if q in tree.funcs and target_q in tree.reachable(q, graph))

    def mass_tests(q):
        return [n for n in walk_function(tree.funcs[q].node) if isinstance(n, ast.Compare) and any(isinstance(x, ast.Attribute) and x.attr == "mass" for x in ast.walk(n))]

    believers = sorted(q.split("::")[-1] for q in tree.funcs if q.startswith(mod + "::") and mass_tests(q))
    guarded = [q for q in on_path if mass_tests(q)]
    ctx.stats["functions_on_wigner_angle_path"] = len(on_path)
    ctx.verdict(bool(guarded), "R-RESTFRAME", f"{ds.qual}::rest-frame-boost-of-massless-state", tree.loc(rest),
                "the Wigner angles (boost into the rotated state's own rest frame) are formulated only for massive states, or massless states are handled on that path",
                None if guarded else {"path": [q.split("::")[-1] for q in on_path], "no test of `.mass` on the path; functions of the same alignment that do special-case mass == 0": believers,
                                      "why": "BoostMatrix of a light-like momentum has beta = 1, gamma = inf: alpha/beta/gamma are NaN for every event"})


def run(ctx: Check, tree: Tree) -> None:
    ctx.decided += [
        'R-WIRING (bound symbol): the outer helicity symbol handed to the helicity rotations and to the Wigner rotation is create_spin_projection_symbol(state) on every reaching definition',
        "R-RESTFRAME: the path that formulates Wigner angles (boost into the rotated state's rest frame) tests the particle's mass",
        'R-FULLRANGE: every summation pool of the alignment rotations is the complete range -s..s',
        "no `.remove(x)` / `.index(x)` in the package can raise: each is dominated by a membership test, inside a handler, or covered by a recorded structural invariant (R-GUARD)",
        "the PoolSum of a helicity/Wigner rotation ranges over create_spin_range(s) of the same s that is j of its Wigner-D, and every caller passes spin and masslessness of the rotated state (R-WIRING)",
        "create_spin_range loops from -s in steps of +1 while <= s (R-RANGE)",
        "DPD alignment: spin, helicity symbols, state index and pool of every Wigner-d refer to the same outer state (R-WIRING)",
        "text interpolated into sp.symbols() is separator-free (R-SYMSPLIT): defining the Wigner angles cannot fail for nested states",
        "compute_wigner_angles extracts (alpha, beta, gamma) from the Wigner rotation matrix as in Marangotto (2019) B.2-4 (R-TABLE)",
        "axis-angle chain: the k-th index pair carries the angles of the k-th state on the way up from the rotated state (R-CHAINORDER)",
        "no memoised mutable result of helicity.align (e.g. a cached spin range) is written by any caller (R-CACHE)",
        "DPD alignment: every term reaching the PoolSum summand is base[summation indices] times one rotation per outer state (R-SUMMAND)",
    ]
    ctx.not_decided += [
        "aligned intensity == unaligned intensity at every event (numerical)",
        "whether _collect_outer_state_helicities sees complete helicity sets (a premise of the property)",
    ]
    ctx.assumptions += ["list.remove / set.remove raise when the element is absent (CPython)"]
    ctx.section(check_removes, ctx, tree)
    ctx.section(check_wiring, ctx, tree)
    ctx.section(check_spin_range, ctx, tree)
    ctx.section(check_dpd_wiring, ctx, tree)
    ctx.section(check_rotation_chain_order, ctx, tree)
    ctx.section(check_wigner_angle_table, ctx, tree)
    ctx.section(check_symbols_not_split, ctx, tree)
    ctx.section(check_wigner_rotation_matrix, ctx, tree)
    ctx.section(check_axisangle_amplitude, ctx, tree)
    ctx.section(check_axisangle_structure, ctx, tree)
    ctx.section(check_dpd_summand, ctx, tree)
    ctx.section(check_dpd_generator, ctx, tree)
    ctx.section(check_spin_range_not_cached_mutable, ctx, tree)
    ctx.section(check_massless_rest_frame, ctx, tree)
    ctx.section(check_full_range, ctx, tree)
