"""C05 - spin alignment never changes a single-topology intensity.

Decided: (a) formulating an aligned model cannot fail on an unguarded ``remove``
(R-GUARD); (b) the alignment sums run over the spin range of the rotated state
(R-WIRING); the loop of ``create_spin_range`` runs -s .. s in unit steps (R-RANGE).

Every rule about what a function COMPUTES (DPD summand / wiring / generator, the sum over the topology groups, the product
of the rotation chains, the walk of the axis-angle chain, the arguments of the Wigner rotation, the Wigner angle table, the
boost chain) is judged on the values of sa/symex.py: temporaries, unpacking, helper functions / methods / closures /
partials, keyword arguments, unrolled tables, comprehensions / map / reduce / chain, accumulators passed down, result
objects, while loops and recursion give the same value as the original spelling.  Loop-heavy functions (the boost chain,
its ids, the rotation chain) are additionally evaluated on small CONCRETE instances (SymEx stubs + unroll), which does
not depend on the spelling of the loop at all.

THREE-VALUED verdicts (class ``Judge``): an obligation that holds -> ok; an obligation that is broken in a value that
was followed completely down to known building blocks (``symex.not_followed``) and in a way the rule names (a wrong
argument, a missing factor, a dropped element, a condition) -> violation; a shape the rule cannot interpret or a value
the executor could not follow -> ANALYSIS-ERROR.  Never "pattern not matched => violation".
"""

from __future__ import annotations

import ast
import re

from ..dataflow import RD
from ..inline import Inliner
from ..loader import AnalysisError, FuncInfo, Tree, ancestors, unparse, walk_function
from ..report import Check
from ..symex import (NONE, SymEx, addends, alternatives, as_number, atomic_tests, calls_of, cases, decision_table, factors, func_name, is_const, not_followed, show,
                     show_pc, subst, subterms, unwrap)

PID = "C05"

def _failclosed(fn):
    """An unexpected failure of the analysis itself (not of the analysed code) is an ANALYSIS-ERROR of that rule group
    only: neither a pass nor a crash of the whole check."""
    import functools

    @functools.wraps(fn)
    def guarded(ctx: Check, tree: Tree):
        try:
            return fn(ctx, tree)
        except AnalysisError:
            raise
        except RecursionError as exc:
            raise AnalysisError(f"analysis too deep ({exc!r})") from exc
        except Exception as exc:  # noqa: BLE001
            raise AnalysisError(f"internal error of the rule group ({exc!r}): cannot decide") from exc

    return guarded


# `.remove(x)` sites whose membership is a structural invariant (read and confirmed): function -> (what the element must
# derive from, what the receiver must derive from, why the element is always present)
INVARIANT_REMOVES = {
    "ampform.helicity.decay::get_sibling_state_id": (
        "<parameter>", ("get_edge_ids_outgoing_from_node(", "originating_node_id"),
        "state_id (the function's parameter) is by construction one of the outgoing edges of "
        "its own originating node (edge_ids = get_edge_ids_outgoing_from_node(parent node of state_id))"),
    "ampform.kinematics.lorentz::__get_boost_chain_ids": (
        "incoming_edge_ids", ("list_decay_chain_ids(",),
        "list_decay_chain_ids walks up to the "
        "incoming edge, so the initial state id is always the last element of the chain"),
}

ROTATION = "ampform.helicity.align.axisangle::formulate_helicity_rotation"
SPIN_RANGE = "ampform.helicity.align._spin::create_spin_range"
COPIES = {"list", "set", "tuple", "frozenset", "sorted", "iter"}


def _conjuncts(test: ast.AST) -> list[ast.AST]:
    if isinstance(test, ast.BoolOp) and isinstance(test.op, ast.And):
        out = []
        for v in test.values:
            out.extend(_conjuncts(v))
        return out
    return [test]


def _negated_conjuncts(test: ast.AST) -> list[ast.AST]:
    """What holds when ``test`` is false, as a list of tests (De Morgan for `or`, `not x`, negated comparisons)."""
    if isinstance(test, ast.BoolOp) and isinstance(test.op, ast.Or):
        out = []
        for v in test.values:
            out.extend(_negated_conjuncts(v))
        return out
    if isinstance(test, ast.UnaryOp) and isinstance(test.op, ast.Not):
        return _conjuncts(test.operand)
    if isinstance(test, ast.Compare) and len(test.ops) == 1:
        flip = {ast.NotIn: ast.In, ast.In: ast.NotIn, ast.Eq: ast.NotEq, ast.NotEq: ast.Eq, ast.Lt: ast.GtE, ast.GtE: ast.Lt, ast.Gt: ast.LtE, ast.LtE: ast.Gt, ast.Is: ast.IsNot, ast.IsNot: ast.Is}
        op = flip.get(type(test.ops[0]))
        if op is not None:
            return [ast.copy_location(ast.Compare(left=test.left, ops=[op()], comparators=test.comparators), test)]
    return [ast.copy_location(ast.UnaryOp(op=ast.Not(), operand=test), test)]


def _is_recv(node: ast.AST, recv: str) -> bool:
    """``node`` has the elements of the receiver: the receiver itself or a copy / view of it."""
    for _ in range(3):
        if unparse(node) == recv:
            return True
        if isinstance(node, ast.Call) and isinstance(node.func, ast.Name) and node.func.id in COPIES and len(node.args) == 1 and not node.keywords:
            node = node.args[0]
        elif isinstance(node, ast.Call) and isinstance(node.func, ast.Attribute) and node.func.attr in {"copy", "keys"} and not node.args:
            node = node.func.value
        elif isinstance(node, ast.Subscript) and isinstance(node.slice, ast.Slice) and node.slice.lower is None and node.slice.upper is None and node.slice.step is None:
            node = node.value
        else:
            return False
    return False


def _mentions(node: ast.AST, recv: str, elem: ast.AST) -> bool:
    names = {n.id for n in ast.walk(elem) if isinstance(n, ast.Name)}
    head = recv.split(".")[0].split("[")[0]
    for n in ast.walk(node):
        if isinstance(n, ast.Name) and (n.id == head or n.id in names):
            return True
        if isinstance(n, ast.Constant) and isinstance(elem, ast.Constant) and type(n.value) is type(elem.value) and n.value == elem.value and not names:
            return True
    return False


def _guard_strength(c: ast.AST, recv: str, elem: ast.AST) -> str:
    """What one test that is known to hold says about `elem in recv`: "sufficient", "insufficient" (understood, does not
    imply membership), "irrelevant" (about something else) or "unknown" (mentions receiver / element in a way that is
    not interpreted)."""
    if isinstance(c, ast.BoolOp) and isinstance(c.op, ast.Or):
        kinds = [_guard_strength(v, recv, elem) for v in c.values]
        if all(k == "sufficient" for k in kinds):
            return "sufficient"
        return "unknown" if "unknown" in kinds else "insufficient" if any(k in {"insufficient", "sufficient"} for k in kinds) else "irrelevant"
    if isinstance(c, ast.Compare) and len(c.ops) == 1:
        op, left, right = c.ops[0], c.left, c.comparators[0]
        if isinstance(op, ast.In) and _same_value(left, elem):
            return "sufficient" if _is_recv(right, recv) else ("unknown" if _mentions(right, recv, ast.Constant(value=None)) else "insufficient")
        count = left if isinstance(left, ast.Call) and isinstance(left.func, ast.Attribute) and left.func.attr == "count" and _is_recv(left.func.value, recv) and len(left.args) == 1 and _same_value(left.args[0], elem) else None
        if count is not None and isinstance(right, ast.Constant) and isinstance(right.value, int):
            if (isinstance(op, ast.Gt) and right.value >= 0) or (isinstance(op, ast.GtE) and right.value >= 1) or (isinstance(op, ast.NotEq) and right.value == 0) or (isinstance(op, ast.Eq) and right.value >= 1):
                return "sufficient"
            return "insufficient"
        for a, b in ((left, right), (right, left)):
            if isinstance(a, ast.Call) and isinstance(a.func, ast.Name) and a.func.id == "len" and len(a.args) == 1 and _is_recv(a.args[0], recv) and isinstance(b, ast.Constant):
                return "insufficient"  # a size says nothing about one particular element
        if isinstance(right, ast.Constant) and isinstance(left, (ast.Name, ast.Constant)) and not isinstance(op, (ast.In, ast.NotIn)) and _mentions(left, "\0", elem) and not _mentions(left, recv, ast.Constant(value=None)):
            return "insufficient"  # a comparison of the element with a literal
    if isinstance(c, ast.Call) and isinstance(c.func, ast.Attribute) and c.func.attr == "count" and _is_recv(c.func.value, recv) and len(c.args) == 1 and _same_value(c.args[0], elem):
        return "sufficient"
    if isinstance(c, ast.Call) and isinstance(c.func, ast.Name) and c.func.id == "any" and len(c.args) == 1 and isinstance(c.args[0], (ast.GeneratorExp, ast.ListComp)):
        g = c.args[0]
        if len(g.generators) == 1 and not g.generators[0].ifs and _is_recv(g.generators[0].iter, recv) and isinstance(g.elt, ast.Compare) and len(g.elt.ops) == 1 and isinstance(g.elt.ops[0], ast.Eq):
            sides = [g.elt.left, g.elt.comparators[0]]
            tgt = unparse(g.generators[0].target)
            if any(unparse(s) == tgt for s in sides) and any(_same_value(s, elem) for s in sides):
                return "sufficient"
    if unparse(c) == recv:
        return "insufficient"  # `if xs:` - not empty, not more
    if not _mentions(c, recv, elem):
        return "irrelevant"
    return "unknown"


def remove_is_guarded(call: ast.Call, recv: str | None = None, elem: ast.AST | None = None) -> tuple[str | None, list[str]]:
    """(reason why ``recv.remove(arg)`` cannot raise - a dominating membership test or a handler -, tests around the call
    that mention receiver / element but were not understood).  With ``recv`` / ``elem`` given: the same question for that
    receiver text and element at the position of ``call`` (a call of a helper that does the removal)."""
    recv = recv if recv is not None else unparse(call.func.value)
    elem = elem if elem is not None else call.args[0]
    child = call
    enclosing = next((a for a in ancestors(call) if isinstance(a, (ast.FunctionDef, ast.AsyncFunctionDef))), None)
    inl = Inliner(enclosing) if enclosing is not None else None
    unknown: list[str] = []

    def through_temporaries(tests: list[ast.AST]) -> list[ast.AST]:
        """a test that is a local name bound once (`has_zero = 0.0 in xs`) counts as its value, provided the receiver
        is not modified in between (the value of the test is then still true at the call)"""
        out = []
        for c in tests:
            if isinstance(c, ast.Name) and inl is not None:
                d = inl.single_def(c)
                if d is not None and d.kind == "assign" and d.index is None and isinstance(d.value, ast.AST) and not _modified_between(enclosing, d.node, call, recv):
                    out.extend(_conjuncts(d.value))
                    continue
            out.append(c)
        return out

    def judge(tests: list[ast.AST], how: str) -> str | None:
        for c in through_temporaries(tests):
            kind = _guard_strength(c, recv, elem)
            if kind == "sufficient":
                return f"{how} `{unparse(c)}`"
            if kind == "unknown":
                unknown.append(unparse(c)[:60])
        return None

    recv_node = call.func.value if isinstance(call.func, ast.Attribute) else None
    recv_alts = {recv}
    if recv_node is not None and inl is not None:
        try:
            recv_alts.add(unparse(inl.expr(recv_node)))
        except Exception:  # noqa: BLE001
            pass

    def iterates_receiver(target: ast.AST, it: ast.AST) -> bool:
        """`for <elem> in <receiver or a copy of it>`: the element is taken from the receiver"""
        if not _same_value(target, elem):
            return False
        for r in recv_alts:
            if _is_recv(it, r):  # for x in xs / list(xs) / xs[:] ...: xs.remove(x)
                return True
            try:
                if _is_recv(ast.parse(r, mode="eval").body, unparse(it)):  # for x in xs: sorted(xs).index(x)
                    return True
            except SyntaxError:
                pass
        return False

    for anc in ancestors(call):
        inside = lambda stmts: any(child is s or _contains(s, child) for s in stmts)  # noqa: E731
        if isinstance(anc, (ast.For, ast.AsyncFor)) and inside(anc.body) and iterates_receiver(anc.target, anc.iter):
            return f"the element is taken from the receiver (`for {unparse(anc.target)} in {unparse(anc.iter)}`)", unknown
        if isinstance(anc, (ast.ListComp, ast.SetComp, ast.GeneratorExp, ast.DictComp)):
            for g in anc.generators:
                if iterates_receiver(g.target, g.iter):
                    return f"the element is taken from the receiver (`for {unparse(g.target)} in {unparse(g.iter)}`)", unknown
        if isinstance(anc, (ast.If, ast.While)) and inside(anc.body) and not _modified_between(enclosing, anc.test, call, recv):
            r = judge(_conjuncts(anc.test), "dominated by")
            if r:
                return r, unknown
        if isinstance(anc, ast.If) and inside(anc.orelse):
            r = judge(_negated_conjuncts(anc.test), "else-branch: holds")
            if r:
                return r, unknown
        if isinstance(anc, ast.IfExp) and (child is anc.body or child is anc.orelse):
            r = judge(_conjuncts(anc.test) if child is anc.body else _negated_conjuncts(anc.test), "selected by")
            if r:
                return r, unknown
        if isinstance(anc, ast.BoolOp) and isinstance(anc.op, ast.And) and child in anc.values:
            r = judge([c for v in anc.values[: anc.values.index(child)] for c in _conjuncts(v)], "short-circuit after")
            if r:
                return r, unknown
        if isinstance(anc, ast.Try) and inside(anc.body):
            for h in anc.handlers:
                names = unparse(h.type) if h.type is not None else "BaseException"
                if any(n in names for n in ("ValueError", "KeyError", "Exception", "BaseException")):
                    return f"inside try/except {names}", unknown
        if isinstance(anc, (ast.With, ast.AsyncWith)) and inside(anc.body):
            for item in anc.items:
                e = item.context_expr
                if isinstance(e, ast.Call) and unparse(e.func).split(".")[-1] == "suppress" and any(n in unparse(a) for a in e.args for n in ("ValueError", "KeyError", "Exception", "BaseException")):
                    return f"inside `with {unparse(e)}`", unknown
        if isinstance(anc, (ast.FunctionDef, ast.AsyncFunctionDef, ast.Lambda)):
            break
        # early-exit guards in the preceding statements of every enclosing block
        blk = _enclosing_block(child)
        if blk is not None and blk[0] is not None:
            body, idx = blk
            for st in body[:idx]:
                if isinstance(st, ast.If) and st.body and isinstance(st.body[-1], (ast.Return, ast.Raise, ast.Continue, ast.Break)) and not st.orelse and not _modified_between(enclosing, st, call, recv):
                    r = judge(_negated_conjuncts(st.test), "early exit unless")
                    if r:
                        return r, unknown
        child = anc
    return None, unknown


def _modified_between(fn: ast.AST, start: ast.AST, end: ast.AST, recv: str) -> bool:
    """Is the container `recv` mentioned as receiver of a method call / assignment target on a line between the two nodes?"""
    lo, hi = getattr(start, "end_lineno", start.lineno), end.lineno
    for n in walk_function(fn):
        line = getattr(n, "lineno", None)
        if line is None or not (lo < line <= hi) or n is end or _contains(end, n):
            continue
        if isinstance(n, ast.Call) and isinstance(n.func, ast.Attribute) and unparse(n.func.value) == recv:
            return True
        if isinstance(n, (ast.Name, ast.Subscript, ast.Attribute)) and isinstance(getattr(n, "ctx", None), (ast.Store, ast.Del)) and unparse(n).split("[")[0] == recv:
            return True
    return False


def _same_value(a: ast.AST, b: ast.AST) -> bool:
    if isinstance(a, ast.Constant) and isinstance(b, ast.Constant):
        return a.value == b.value and type(a.value) in (type(b.value), int, float) and type(b.value) in (type(a.value), int, float)
    return unparse(a) == unparse(b)


def _contains(root: ast.AST, node: ast.AST) -> bool:
    return any(n is node for n in ast.walk(root))


def _enclosing_block(node: ast.AST):
    """(statement list, index) of the statement that contains ``node`` (or is it)."""
    child = node
    for anc in ancestors(node):
        for fld in ("body", "orelse", "finalbody"):
            body = getattr(anc, fld, None)
            if isinstance(body, list):
                for i, st in enumerate(body):
                    if st is child:
                        return body, i
        for h in getattr(anc, "handlers", []) or []:
            for i, st in enumerate(h.body):
                if st is child:
                    return h.body, i
        child = anc
    return None


def _raising_lookup(tree: Tree, node: ast.AST, fn: FuncInfo | None) -> str | None:
    """`recv.remove(x)` / `recv.index(x)` of a container: both raise (ValueError / KeyError) when x is absent.  A call
    that resolves to a function (`os.remove(path)` deletes a file, `operator.index`) is no container method."""
    if isinstance(node, ast.Call) and isinstance(node.func, ast.Attribute) and node.func.attr in {"remove", "index"} and len(node.args) == 1 and not node.keywords:
        try:
            target = tree.callee(node, fn)
        except Exception:  # noqa: BLE001
            target = None
        if target is not None and target not in tree.funcs and "::" not in target and "." in target:
            return None  # attribute of an imported module / class of a library: a function, not a method of a local container
        return node.func.attr
    return None


def _literal_member(tree: Tree, fn: FuncInfo, node: ast.Call) -> str | None:
    """A literal element looked up in a literal table (a module-level / local tuple, list or string constant that is
    bound once and never modified): membership is decided by evaluation of the literals."""
    elem, recv = node.args[0], node.func.value
    if not isinstance(elem, ast.Constant):
        return None
    table = None
    if isinstance(recv, (ast.Tuple, ast.List, ast.Constant)):
        table = recv
    elif isinstance(recv, ast.Name):
        mod = fn.module
        if recv.id in getattr(mod, "toplevel", {}) and recv.id not in _local_store_names(fn.node):
            d = mod.toplevel[recv.id]
            if isinstance(d, (ast.Assign, ast.AnnAssign)) and isinstance(d.value, (ast.Tuple, ast.Constant)):
                stores = [n for n in ast.walk(mod.tree) if isinstance(n, ast.Name) and n.id == recv.id and isinstance(n.ctx, (ast.Store, ast.Del))]
                if len(stores) == 1:
                    table = d.value
    if table is None:
        return None
    try:
        values = ast.literal_eval(table)
        if ast.literal_eval(elem) in values:
            return f"literal `{unparse(elem)}` is an element of the constant table `{unparse(table)[:50]}`"
    except Exception:  # noqa: BLE001
        return None
    return None


def _local_store_names(fn_node: ast.AST) -> set[str]:
    return {n.id for n in ast.walk(fn_node) if isinstance(n, ast.Name) and isinstance(n.ctx, (ast.Store, ast.Del))} | {a.arg for a in ast.walk(fn_node) if isinstance(a, ast.arg)}


def _invariant_holds(fn: FuncInfo, recv: ast.AST, elem: ast.AST) -> str | None:
    """One of the recorded structural invariants (INVARIANT_REMOVES) applies to removing ``elem`` from ``recv`` inside
    ``fn``: recognised by what element and receiver DERIVE from (reaching definitions), in whatever function the
    statement lives after a refactoring."""
    if not isinstance(recv, (ast.Name, ast.Attribute, ast.Subscript, ast.Call)):
        return None
    top = fn
    while top.outer is not None:
        top = top.outer
    rd = RD(top.node)
    try:
        e_defs = rd.closure(rd.uses(elem))
        r_defs = rd.closure(rd.uses(recv))
    except Exception:  # noqa: BLE001
        return None
    etxt = " ".join([unparse(elem)] + [unparse(d.value) for d in e_defs if isinstance(d.value, ast.AST)])
    rtxt = " ".join([unparse(recv)] + [unparse(d.value) for d in r_defs if isinstance(d.value, ast.AST)])
    for elem_src, recv_src, why in INVARIANT_REMOVES.values():
        e_ok = (bool(e_defs) and {d.kind for d in e_defs} == {"param"}) if elem_src == "<parameter>" else elem_src in etxt
        if e_ok and all(t in rtxt for t in recv_src):
            if elem_src == "<parameter>" and not all(d.name in rtxt for d in e_defs):
                continue  # the receiver must be derived from the SAME parameter (its own originating node)
            return why
    return None


def _private(fn: FuncInfo) -> bool:
    return fn.outer is not None or (fn.name.startswith("_") and not (fn.name.startswith("__") and fn.name.endswith("__")))


def _from_params(fn: FuncInfo, expr: ast.AST) -> bool:
    """Does the value of ``expr`` derive from a parameter of ``fn`` (and is not a literal)?"""
    if isinstance(expr, ast.Constant):
        return False
    top = fn
    while top.outer is not None:
        top = top.outer
    rd = RD(top.node)
    try:
        return any(d.kind == "param" for d in rd.closure(rd.uses(expr)))
    except Exception:  # noqa: BLE001
        return False


def _callers_guard(tree: Tree, fn: FuncInfo, node: ast.Call) -> tuple[bool, str] | None:
    """`recv.remove(x)` where receiver and element are parameters of a private helper: do ALL callers establish
    membership for what they pass?  None if the site is not of that kind."""
    params = fn.params
    recv, elem = node.func.value, node.args[0]
    if not (isinstance(recv, ast.Name) and recv.id in params and ((isinstance(elem, ast.Name) and elem.id in params) or isinstance(elem, ast.Constant))):
        return None
    if not (fn.name.startswith("_") or fn.outer is not None) or fn.name.startswith("__") and fn.name.endswith("__"):
        return None
    rd = RD(fn.node)
    if any(d.kind != "param" for d in rd.reaching(recv)) or (isinstance(elem, ast.Name) and any(d.kind != "param" for d in rd.reaching(elem))):
        return None
    sites = []
    for q, other in tree.funcs.items():
        for call, callee in tree.calls_in(other, nested=False):
            if callee == fn.qual:
                sites.append((other, call))
    if not sites:
        return None
    for other, call in sites:
        r_arg = _kwarg(call, fn, recv.id)
        e_arg = _kwarg(call, fn, elem.id) if isinstance(elem, ast.Name) else elem
        if r_arg is None or e_arg is None:
            return False, f"call in {other.qual} could not be bound"
        reason, unknown = remove_is_guarded(call, unparse(r_arg), e_arg)
        if not reason:
            reason = _invariant_holds(other, r_arg, e_arg)
        if not reason and _private(other) and _from_params(other, e_arg):
            # the caller is a private helper itself and passes on what it was given: the relation between element and
            # receiver may be established further up - not followed
            raise AnalysisError(f"{fn.qual}: `{unparse(node)[:50]}` - membership would have to be established by the callers of {other.qual}, which are not followed")
        if not reason:
            return False, f"the caller {other.qual} does not establish membership" + (f" (not understood: `{unknown[0]}`)" if unknown else "")
    return True, f"every caller ({', '.join(sorted({o.qual.split('::')[-1] for o, _ in sites}))}) establishes membership before the call"


@_failclosed
def check_removes(ctx: Check, tree: Tree) -> None:
    """R-GUARD.  Instances = every `.remove(x)` (and `.index(x)`, which fails the same way and is what a
    `remove` is usually rewritten to: `del l[l.index(x)]`) of a container in the package.  The number of sites is not an
    obligation: a site that was replaced by a construction that cannot raise (a filtering comprehension,
    `discard`) simply is no instance any more.  What IS an obligation: no site of the source is skipped.
    Three-valued: a dominating membership test / handler / recorded invariant / guarding callers of a private helper
    -> ok; only tests that are understood and do not imply membership (or none) -> violation; a test around the site
    that mentions receiver or element and is not understood -> ANALYSIS-ERROR."""
    n = 0
    judged: set[int] = set()
    undecided = []
    for q, fn in sorted(tree.funcs.items()):
        if not q.startswith("ampform"):
            continue
        for node in walk_function(fn.node, nested=False):
            if isinstance(node, ast.Call) and isinstance(node.func, ast.Attribute) and node.func.attr in {"remove", "index"}:
                judged.add(id(node))
            kind = _raising_lookup(tree, node, fn)
            if kind is None:
                continue
            n += 1
            recv, arg = unparse(node.func.value), unparse(node.args[0])
            what = f"{q}: {recv}.{kind}({arg})"
            reason, unknown = remove_is_guarded(node)
            if not reason:
                reason = _literal_member(tree, fn, node)
            if reason:
                ctx.ok("R-GUARD", tree.loc(node), f"{what} - {reason}")
                continue
            why = _invariant_holds(fn, node.func.value, node.args[0])
            if why:
                ctx.ok("R-GUARD", tree.loc(node), f"{what} - invariant: {why}")
                continue
            if q in INVARIANT_REMOVES and not unknown and _callers_guard(tree, fn, node) is None:
                undecided.append(f"{what}: the recorded invariant of {q.split('::')[-1]} ({INVARIANT_REMOVES[q][2][:60]}...) no longer matches the code")
                continue
            via = _callers_guard(tree, fn, node)
            if via is not None and via[0]:
                ctx.ok("R-GUARD", tree.loc(node), f"{what} - {via[1]}")
                continue
            if unknown:
                undecided.append(f"{what}: cannot decide whether `{unknown[0]}` implies that {arg} is in {recv}")
                continue
            if via is None and _private(fn) and _from_params(fn, node.args[0]) and q not in INVARIANT_REMOVES and any(c == q for o in tree.funcs.values() for _, c in tree.calls_in(o, nested=False)):
                undecided.append(f"{what}: element and receiver come from the parameters of the private helper {fn.name}(): whether its callers guarantee membership is not followed")
                continue
            guard = ""
            for anc in ancestors(node):
                if isinstance(anc, ast.If):
                    guard = f" (only guarded by `{unparse(anc.test)}`, which does not imply membership)"
                    break
            ctx.violation(
                "R-GUARD",
                f"{q}::{recv}.{kind}({arg})",
                tree.loc(node),
                what + guard + (f"; {via[1]}" if via is not None else ""),
                "list.remove/set.remove raise ValueError/KeyError when the element is absent; "
                "create_spin_range(1/2, no_zero_spin=True) has no 0.0 -> an aligned model with a massless spin-1/2 particle cannot be formulated",
            )
    ctx.stats["remove_sites"] = n
    # completeness of the instance set: every such call anywhere in the package source (module level, class bodies,
    # lambdas, decorators ...) must have been judged above
    for name, mod in sorted(tree.modules.items()):
        if not name.startswith("ampform"):
            continue
        for node in ast.walk(mod.tree):
            if isinstance(node, ast.Call) and isinstance(node.func, ast.Attribute) and node.func.attr in {"remove", "index"} and len(node.args) == 1 and not node.keywords and id(node) not in judged:
                if _raising_lookup(tree, node, None) is not None:
                    raise AnalysisError(f"`{unparse(node)[:60]}` at {tree.loc(node)} is outside every indexed function: not judged")
    if n == 0:
        ctx.ok("R-GUARD", "src/ampform", "no `.remove(x)` / `.index(x)` call of a container in the package: nothing can raise for an absent element")
    if undecided:
        raise AnalysisError("; ".join(undecided[:4]))


def _kwarg(call: ast.Call, fn: FuncInfo, name: str) -> ast.AST | None:
    for k in call.keywords:
        if k.arg == name:
            return k.value
    params = fn.params
    if name in params:
        i = params.index(name)
        if i < len(call.args) and not any(isinstance(a, ast.Starred) for a in call.args[: i + 1]):
            return call.args[i]
    return None


def _linear(v, x):
    """(a, b) with v == a * x + b for number literals a, b (numeric conversions ignored), else None."""
    v = _core(v)
    if v == x or _core(v) == x:
        return (1, 0)
    n = as_number(v)
    if n is not None:
        return (0, n)
    if v[0] == "unop" and v[1] == "-":
        inner = _linear(v[2], x)
        return None if inner is None else (-inner[0], -inner[1])
    if v[0] == "binop" and v[1] in {"+", "-"}:
        l, r = _linear(v[2], x), _linear(v[3], x)
        if l is None or r is None:
            return None
        sign = 1 if v[1] == "+" else -1
        return (l[0] + sign * r[0], l[1] + sign * r[1])
    if v[0] == "mul" and len(v[1]) == 2:
        for a, b in ((v[1][0], v[1][1]), (v[1][1], v[1][0])):
            k, inner = as_number(a), _linear(b, x)
            if k is not None and inner is not None:
                return (k * inner[0], k * inner[1])
    return None


def _same_up_to_zero(v, head):
    """Is ``v`` the loop variable ``head``, possibly with the normalisation `-0.0 -> 0.0` (a conditional value whose
    alternatives are the variable itself or a literal zero under `variable == 0`)?"""
    v = _core(v)
    if v == head:
        return True
    if v[0] == "phi":
        for pc, alt in v[1]:
            alt = _core(alt)
            if alt == head:
                continue
            zero = as_number(alt) == 0 or (is_const(alt, str) and alt[1].strip("-+0.") == "")
            tested = any(t[0] == "cmp" and t[1] == "==" and head in (t[2], t[3]) and (as_number(t[3]) == 0 or as_number(t[2]) == 0) and o for t, o in pc)
            if not (zero and tested):
                return False
        return True
    return False


def _affine(v) -> dict | None:
    """{leaf: coefficient, None: constant} with v == sum(coefficient * leaf) + constant; numeric conversions (float, int,
    round, Decimal, sp.Rational ...) are ignored, a leaf is anything that is not arithmetic.  None if not affine."""
    v = _core(v)
    while v[0] == "call" and v[1] in {("builtin", "round"), ("builtin", "int"), ("builtin", "float")} and len(v[2]) == 1 and not v[3]:
        v = _core(v[2][0])
    n = as_number(v)
    if n is not None:
        return {None: n}
    if v[0] == "unop" and v[1] == "-":
        inner = _affine(v[2])
        return None if inner is None else {k: -c for k, c in inner.items()}
    if v[0] == "binop" and v[1] in {"+", "-"}:
        l, r = _affine(v[2]), _affine(v[3])
        if l is None or r is None:
            return None
        out = dict(l)
        for k, c in r.items():
            out[k] = out.get(k, 0) + (c if v[1] == "+" else -c)
        return out
    if v[0] == "mul" and len(v[1]) == 2:
        for a, b in ((v[1][0], v[1][1]), (v[1][1], v[1][0])):
            k, inner = as_number(a), _affine(b)
            if k is not None and inner is not None:
                return {leaf: k * c for leaf, c in inner.items()}
        return None
    if v[0] in {"binop", "mul", "phi", "unknown"}:
        return None
    return {v: 1}


def _range_form(ctx: Check, tree: Tree, sx, value, spin, key: str, top: FuncInfo) -> bool:
    """create_spin_range without a `while` loop: `[-s + k for k in range(int(2 * s) + 1)]` (comprehension, for loop, map).
    True if the shape was recognised (and judged)."""
    found = [x for x in subterms(value) if x[0] == "foreach" and x[1][0] == "each" and x[1][1][0] == "call" and x[1][1][1] == ("builtin", "range")]
    found = list(dict.fromkeys(found))
    if len({(x[1], unwrap(x)[2]) for x in found}) != 1:
        return False
    each = found[0][1]
    _, pcs, elem = unwrap(found[0])
    rng = each[1][2]
    if each[1][3] or not 1 <= len(rng) <= 3:
        return False
    start = _affine(rng[0]) if len(rng) >= 2 else {None: 0}
    stop = _affine(rng[1] if len(rng) >= 2 else rng[0])
    step = _affine(rng[2]) if len(rng) == 3 else {None: 1}
    e = _affine(elem)
    if None in (start, stop, step, e) or set(step) != {None} or set(start) - {None} or not set(stop) <= {None, spin} or not set(e) <= {None, spin, each}:
        return False
    clean = lambda d: {k: c for k, c in d.items() if c != 0}  # noqa: E731
    e, stop = clean(e), clean(stop)
    first = {k: c for k, c in e.items() if k != each}
    first[None] = first.get(None, 0) + e.get(each, 0) * start.get(None, 0)
    n_minus_1 = {k: c for k, c in stop.items()}  # number of steps: (stop - start) / step - 1 further elements
    problems = []
    if step[None] * e.get(each, 0) != 1:
        problems.append(f"consecutive projections differ by {step[None] * e.get(each, 0)}, not by 1")
    if clean(first) != {spin: -1}:
        problems.append(f"the first projection is `{show(elem)[:50]}` at the start of the range, not -{spin[1]}")
    if clean({None: n_minus_1.get(None, 0) - start.get(None, 0), spin: n_minus_1.get(spin, 0)}) != {None: 1, spin: 2} and step[None] == 1:
        problems.append(f"the range has `{show(rng[-1] if len(rng) == 1 else rng[1])[:40]}` elements, not 2 * {spin[1]} + 1 (last projection is not +{spin[1]})")
    if pcs:
        problems.append(f"projections are left out (only under `{show_pc(pcs)[:50]}`)")
    ctx.verdict(not problems, "R-RANGE", key, tree.loc(top.node), f"create_spin_range: -{spin[1]} + k for k in range(2 * {spin[1]} + 1)", problems or None)
    return True


@_failclosed
def check_spin_range(ctx: Check, tree: Tree) -> None:
    """R-RANGE: create_spin_range generates -s, -s+1, ..., +s.  Judged on the generic step of the loop that produces
    the projections (sa/symex.py; the loop may live in create_spin_range or in a helper / generator it calls): the loop
    variable starts at -s, the loop runs while variable <= s, every iteration contributes the variable unconditionally
    and advances it by exactly 1."""
    top = tree.func(SPIN_RANGE)
    sx, value, _ = _symex(tree, SPIN_RANGE, inline_cached=True)
    key = f"{SPIN_RANGE}::while-loop"
    spin = ("param", top.params[0])
    loops = [info for info in sx.loops.values() if info.kind == "while" and info.test is not None and info.test[0] == "cmp" and info.test[1] in {"<", "<=", ">", ">="}]
    if not loops and _range_form(ctx, tree, sx, value, spin, key, top):
        return
    if len(loops) != 1:
        raise AnalysisError(f"{SPIN_RANGE}: the projections are not generated by one `while` loop ({len(loops)} found): the shape of the range is not decided")
    info = loops[0]
    judge = Judge(ctx, "check_spin_range", ())
    problems = []
    test = info.test
    variables = [n for n in info.init if contains_value(test, info.head(n))]
    if not (test[0] == "cmp" and test[1] in {"<", "<=", ">", ">="} and len(variables) == 1):
        raise AnalysisError(f"{SPIN_RANGE}: loop test `{show(test)[:60]}` is not a comparison of one loop variable with a bound")
    var = variables[0]
    head = info.head(var)
    op, left, right = test[1], test[2], test[3]
    if _core(right) == head and _core(left) != head:
        op, left, right = {"<": ">", "<=": ">=", ">": "<", ">=": "<="}[op], right, left
    if _core(left) != head:
        raise AnalysisError(f"{SPIN_RANGE}: loop test `{show(test)[:60]}` does not compare the loop variable itself")
    bound = _linear(right, spin)
    if bound is None:
        other = _core(right)
        if other[0] == "param" or as_number(other) is not None:
            problems.append(f"bound derives from `{show(other)[:40]}` instead of {spin[1]}")
        else:
            judge.cannot(f"the bound `{show(right)[:40]}` of the loop")
    elif op not in {"<", "<="}:
        problems.append(f"the loop runs while `{show(test)[:60]}`, not while the projection is <= s")
    elif bound == (1, 0) and op == "<":
        problems.append(f"bound `{show(test)[:60]}` is not `<= s` (upper end +s dropped or overshot)")
    elif bound != (1, 0) and not (op == "<" and bound == (1, 1)):  # `< s + 1` = `<= s` for unit steps from -s
        problems.append(f"bound `{show(test)[:60]}` is not `<= s`: it derives from `{show(_core(right))[:40]}` instead of {spin[1]}")
    # initial value: -s
    init = _linear(info.init[var], spin)
    if init is None:
        other = _core(info.init[var])
        if other[0] == "param" or as_number(other) is not None or (other[0] == "unop" and _core(other[2])[0] == "param"):
            problems.append(f"start value `{show(info.init[var])[:50]}` is not -{spin[1]}")
        else:
            judge.cannot(f"the start value `{show(info.init[var])[:50]}`")
    elif init != (-1, 0):
        problems.append(f"start value `{show(info.init[var])[:50]}` is not -{spin[1]}")
    # step
    end = info.end.get(var)
    step = None
    if end is not None and end[0] == "binop" and end[1] == "+":
        for a, b in ((end[2], end[3]), (end[3], end[2])):
            if as_number(b) is not None and _same_up_to_zero(a, head):
                step = as_number(b)
    if step is None:
        if end is not None and end[0] == "binop" and not_followed(end) is None and as_number(end[3]) is not None:
            problems.append(f"step `{show(end)[:50]}` is not += 1")
        else:
            judge.cannot(f"the loop variable continues with `{show(end)[:60] if end is not None else '?'}`")
    elif step != 1:
        problems.append(f"step `{show(end)[:50]}` is not += 1")
    # every iteration contributes its projection: an unconditional append / yield
    body_pc = info.pc + (normal_value(test),)
    contributions = []
    for name, extra in info.extras.items():
        for x in extra or ():
            _, pcs, item = unwrap(x)
            contributions.append((pcs, item))
    for e in info.events:
        if e[0] == "yield":
            contributions.append((tuple(c for c in e[1] if c not in body_pc), e[2]))
    mine = [(pcs, item) for pcs, item in contributions if _same_up_to_zero(item, head)]
    if not mine:
        if not contributions:
            problems.append("no unconditional append of the projection in the loop body")
        else:
            judge.cannot(f"what the loop contributes (`{show(contributions[0][1])[:50]}`) is not the loop variable")
    elif all(pcs for pcs, _ in mine):
        problems.append(f"no unconditional append of the projection in the loop body (only under `{show_pc(mine[0][0])[:50]}`)")
    elif not any(any(unwrap(x)[2] == item for x in subterms(value) if x[0] in {"foreach", "list"} or True) for pcs, item in mine if not pcs):
        judge.cannot("the projections of the loop do not reach the result of create_spin_range")
    if problems or not judge.undecided:
        judge.decide(not problems, (), "R-RANGE", key, tree.loc(info.node),
                     f"create_spin_range: start -{spin[1]}, `{unparse(info.node.test)}`, step +1, unconditional append", problems or None)
    judge.finish()


DPD_FN = "ampform.helicity.align.dpd::_formulate_aligned_amplitude"
DPD_GEN = "ampform.helicity.align.dpd::_DPDAlignmentWignerGenerator"
ZETA_Q = "ampform.kinematics.angles::formulate_zeta_angle"
# package functions whose meaning the DPD rules know (results of other package functions that the symbolic execution
# did not follow are "cannot decide", never a violation)
DPD_KNOWN = (ZETA_Q, "get_outer_state_ids", "group_by_topology", "create_amplitude_base", "create_spin_projection_symbol",
             "get_spectator_id", "_collect_outer_state_helicities", "ampform.sympy::PoolSum", DPD_GEN, DPD_FN)


class Judge:
    """Three-valued verdicts.  ``decide(ok, ...)``: the obligation holds -> ok; it does not hold and every value the
    judgement rests on was followed down to known building blocks (``not_followed``) -> violation; otherwise the code
    has a shape the rule cannot interpret -> collected and raised as ONE AnalysisError by ``finish()`` (the other
    obligations of the group are still judged)."""

    def __init__(self, ctx: Check, who: str, known: tuple = ()):
        self.ctx, self.who, self.known, self.undecided = ctx, who, known, []

    def decide(self, ok: bool, values, rule: str, key: str, where: str, what: str, detail=None) -> bool:
        if not ok:
            for v in values:
                why = not_followed(v, self.known) if isinstance(v, tuple) else None
                if why:
                    self.cannot(f"`{key.split('::', 1)[-1]}` depends on {why}")
                    return False
        return self.ctx.verdict(ok, rule, key, where, what, detail)

    def cannot(self, why: str) -> None:
        if why not in self.undecided:
            self.undecided.append(why)

    def finish(self) -> None:
        if self.undecided:
            raise AnalysisError(f"{self.who}: cannot decide: " + "; ".join(self.undecided[:4]))


def _symex(tree: Tree, qual: str, atoms: frozenset = frozenset(), inline_cached: bool = False):
    """(SymEx, result value, final state) of one function, computed once per tree."""
    cache = tree.__dict__.setdefault("_c05_symex", {})
    key = (qual, atoms, inline_cached)
    if key not in cache:
        fn = tree.func(qual)
        sx = SymEx(tree, atoms=atoms, inline_cached=inline_cached)
        try:
            value, st = sx.run(fn)
        except AnalysisError:
            raise
        except Exception as exc:  # noqa: BLE001 - an executor failure must not take the other rule groups down
            raise AnalysisError(f"{qual}: symbolic execution failed ({exc!r})") from exc
        cache[key] = (sx, value, st)
    return cache[key]


def _require_known(where: str, *values) -> None:
    """Fail closed: a value the symbolic execution could not follow is neither accepted nor reported as wrong."""
    for v in values:
        for x in subterms(v) if isinstance(v, tuple) else ():
            if x[0] in {"unknown", "carried-out"}:
                raise AnalysisError(f"{where}: depends on a value the symbolic execution cannot follow: {show(x)[:80]}")


def _unwrap(item):
    """A list item without its ``foreach`` / ``when`` wrappers: (conditions, plain value)."""
    _, pcs, item = unwrap(item)
    return pcs, item


def _item_indices(v) -> set:
    """positions k of `k-th element of ...` in a value: unpacked names (``item``) and literal subscripts ``xs[k]``"""
    return {x[2] for x in subterms(v) if x[0] == "item"} | {x[2][1] for x in subterms(v) if x[0] == "sub" and is_const(x[2], int) and x[1][0] in {"call", "param", "attr"}
                                                              and not (x[1][0] == "attr" and x[1][2] in {"transitions", "states"})}


def _is_wigner_d(v) -> bool:
    return isinstance(v, tuple) and v[0] == "call" and func_name(v).split(".")[-1] == "d" and "Rotation" in func_name(v)


def _dpd_model(tree: Tree) -> dict:
    """What _formulate_aligned_amplitude computes (sa/symex.py, everything of its module inlined - the Wigner-d generator
    may be a class with __call__, an attrs class, a closure, a module function bound with functools.partial or plain
    code): the PoolSum call, its summand terms, its index pairs and the angle definitions it hands out."""
    fn = tree.func(DPD_FN)
    sx, value, _ = _symex(tree, DPD_FN, frozenset({"_collect_outer_state_helicities", "get_outer_state_ids", "group_by_topology"}))
    value = _flat(value)
    alts = alternatives(value)
    fields = None
    if len(alts) == 1 and sx.class_of_value(alts[0][1]) is not None and len(alts[0][1][2]) == 2 and not alts[0][1][3]:
        # a small result object (NamedTuple / attrs / dataclass with two fields) instead of a pair: its fields in order
        info = sx.ctor_fields(sx.class_of_value(alts[0][1]))
        if info is not None and len(info[0]) == 2:
            fields = list(info[0])
            alts = [(alts[0][0], ("tuple", alts[0][1][2]))]
    if len(alts) != 1 or alts[0][1][0] != "tuple" or len(alts[0][1][1]) != 2:
        raise AnalysisError(f"{fn.qual}: does not return one pair (amplitude, angle definitions): `{show(value)[:80]}`")
    amp, defs = alts[0][1][1]
    if not (amp[0] == "call" and func_name(amp) == "ampform.sympy::PoolSum" and amp[2] and not amp[3]):
        raise AnalysisError(f"{fn.qual}: the amplitude is `{show(amp)[:60]}`, not a PoolSum(...)")
    unknown = [x for x in subterms(amp) if x[0] in {"unknown", "carried", "carried-out"}]
    if unknown:
        raise AnalysisError(f"{fn.qual}: the amplitude depends on a value the symbolic execution cannot follow: {show(unknown[0])[:80]}")
    indices = []
    for pair in amp[2][1:]:
        if not (pair[0] == "tuple" and len(pair[1]) == 2):
            raise AnalysisError(f"{fn.qual}: PoolSum index shape changed: {show(pair)[:80]}")
        indices.append(pair)
    parts = addends(amp[2][0], sx)
    if parts is None:
        raise AnalysisError(f"{fn.qual}: PoolSum summand is `{show(amp[2][0])[:60]}`, not a sum of terms (sp.Add(*terms) / sum(terms) / an accumulation)")
    start, items = parts
    if as_number(start) != 0:
        raise AnalysisError(f"{fn.qual}: the sum of the aligned amplitudes starts at `{show(start)[:40]}`, not at 0")
    if any(unwrap(x)[2][0] == "star" for x in items):
        raise AnalysisError(f"{fn.qual}: the summand terms `{show(next(x for x in items if unwrap(x)[2][0] == 'star'))[:60]}` are not collected in a local list")
    if not items:
        raise AnalysisError(f"{fn.qual}: no term reaches the PoolSum summand")
    # roles of the parameters of this PRIVATE function (their order is not an obligation): the reaction is what
    # get_outer_state_ids / group_by_topology are asked about, the reference subsystem is the other one
    params = _params(fn)
    used = {c[2][0] for c in calls_of(value, "get_outer_state_ids") if c[2] and c[2][0][0] == "param"}
    reaction = next(iter(used))[1] if len(used) == 1 else None
    rest = [p for p in params if p != reaction]
    if reaction is None or len(rest) != 1:
        raise AnalysisError(f"{fn.qual}: the parameters {params} are not (reaction, reference subsystem)")
    return {"fn": fn, "sx": sx, "pool": amp, "summand": amp[2][0], "items": items, "indices": indices, "bound": [p[1][0] for p in indices], "defs": defs,
            "reaction": reaction, "reference": rest[0], "fields": fields}


def _node_of(model: dict, value, default: ast.AST) -> ast.AST:
    node = model["sx"].origin.get(value)
    return node if node is not None and hasattr(node, "lineno") else default


def _rotation(f) -> dict | None:
    """One Wigner-d rotation factor `1 if j == 0 else Wigner.d(j, m, m', zeta)` (or Wigner.d(...) alone): the pieces of
    every alternative.  None if the factor is no rotation at all."""
    alts = alternatives(f)
    ds = [(pc, v) for pc, v in alts if _is_wigner_d(v)]
    if not ds:
        return None
    out = {"alts": alts, "d": ds, "problems": [], "shape": None}
    if len(ds) != 1:
        out["shape"] = f"{len(ds)} different Wigner-d functions for one rotation"
        return out
    pc, d = ds[0]
    names = ["j", "m", "mp", "beta"]
    got = dict(zip(names, d[2]))
    for k, v in d[3]:
        if k in names and k not in got:
            got[k] = v
        else:
            out["shape"] = f"Wigner.d called with `{k}=`"
            return out
    if set(got) != set(names) or any(a[0] == "star" for a in d[2]):
        out["shape"] = f"Wigner.d called with {len(d[2])} arguments"
        return out
    out.update(got)
    zeta = got["beta"]
    zcall = zeta[1] if zeta[0] in {"item", "sub"} and zeta[2] in {0, ("const", 0)} else None
    if zcall is not None and zcall[0] == "call" and func_name(zcall) == ZETA_Q and not zcall[3] and len(zcall[2]) == 3:
        out["zcall"] = zcall
        out["state"], out["aligned"], out["reference"] = zcall[2]
    else:
        out["zcall"] = None
    # the shortcut for spin 0: `1` exactly when j == 0
    spin_zero = ("cmp", "==", got["j"], ("const", 0))
    others = [(p, v) for p, v in alts if not _is_wigner_d(v)]
    out["general_pc"] = pc
    if not others:
        if pc:
            out["shape"] = f"the rotation exists only under `{show_pc(pc)[:60]}`"
        return out
    for p, v in others:
        if as_number(v) is None:
            out["shape"] = f"besides Wigner.d the rotation can be `{show(v)[:40]}`"
            return out
        atoms = atomic_tests(p)
        if not atoms or not all(t[0] == "cmp" and t[1] == "==" and ((as_number(t[3]) is not None and t[2] in (got["j"], got["m"], got["mp"])) or (as_number(t[2]) is not None and t[3] in (got["j"], got["m"], got["mp"]))) for t in atoms):
            out["shape"] = f"the shortcut is taken under `{show_pc(p)[:60]}`"  # not a comparison of j / m / m' with numbers
            return out
        if not (p == ((spin_zero, True),) or p == ((("cmp", "==", ("const", 0), got["j"]), True),)) or as_number(v) != 1:
            out["problems"].append(f"shortcut `if {show_pc(p)[:60]}: return {show(v)[:30]}` is not `if j == 0: return 1`")
    if not all(c in {(spin_zero, False), (("cmp", "==", ("const", 0), got["j"]), False)} for c in pc):
        if all(t[0] == "cmp" and t[1] == "==" for t in atomic_tests(pc)):
            out["problems"].append(f"Wigner.d is used under `{show_pc(pc)[:60]}`, not whenever j != 0")
        else:
            out["shape"] = f"Wigner.d is used under `{show_pc(pc)[:60]}`"
    return out


def _dpd_terms(model: dict) -> list[dict]:
    """Every term of the summand: its amplitude-base factors, rotation factors, numbers and anything else."""
    out = []
    sx = model["sx"]
    for item in model["items"]:
        eaches, pcs, term = unwrap(item)
        t = {"item": item, "term": term, "pcs": pcs, "bases": [], "rotations": [], "numbers": [], "others": []}
        for f in factors(term, sx):
            r = _rotation(f)
            if f[0] == "sub" and f[1][0] == "call" and func_name(f[1]).endswith("create_amplitude_base"):
                t["bases"].append(f)
            elif r is not None:
                r["factor"] = f
                t["rotations"].append(r)
            elif as_number(f) is not None:
                t["numbers"].append(f)
            else:
                t["others"].append(f)
        out.append(t)
    return out


def _registered(model: dict, judge: Judge) -> list | None:
    """The angle definitions the function hands out: [(key, value, condition)], wherever they are collected (a dict
    attribute of the generator object that its calls fill, a local dict that is passed down)."""
    defs, sx = model["defs"], model["sx"]
    for _ in range(3):
        if defs[0] == "call" and defs[1] in {("builtin", "dict")} and len(defs[2]) == 1 and not defs[3]:
            defs = defs[2][0]
        elif defs[0] == "call" and defs[1][0] == "attr" and defs[1][2] == "copy" and not defs[2]:
            defs = defs[1][1]
    if defs[0] == "dict":
        out = []
        for k, v in defs[1]:
            _, kc, key = unwrap(k)
            _, vc, val = unwrap(v)
            if key[0] == "star":
                judge.cannot(f"the angle definitions contain `{show(key)[:50]}`")
                return None
            out.append((key, val, kc + vc))
        return out
    if defs[0] == "attr" and sx.class_of_value(defs[1]) is not None:
        info = sx.ctor_fields(sx.class_of_value(defs[1]))
        init = info[1].get(defs[2]) if info is not None else None
        if init is None or init[0] not in {"dict", "default"} or (init[0] == "dict" and init[1]):
            judge.cannot(f"the initial value of `{show(defs)[:50]}` is not an empty dict")
            return None
        return [(e[2][2], e[3], e[1]) for e in sx.events if e[0] == "store" and e[2][0] == "sub" and e[2][1] == defs]
    judge.cannot(f"the angle definitions `{show(defs)[:60]}` are neither a dict that is filled here nor an attribute of the generator object")
    return None


@_failclosed
def check_dpd_wiring(ctx: Check, tree: Tree) -> None:
    """Every Wigner-d rotation that reaches the summand, `d^{j}_{m m'}(zeta^k_{spectator(reference)})`: spin, both
    helicity symbols and the rotated state k refer to the same outer state; each of the four outer states is rotated;
    zeta is formulated for THIS alignment's reference subsystem; the pools of the outer PoolSum match their index."""
    model = _dpd_model(tree)
    fn = model["fn"]
    judge = Judge(ctx, "check_dpd_wiring", DPD_KNOWN)
    rotations = []
    for t in _dpd_terms(model):
        for r in t["rotations"]:
            if r["factor"] not in [x["factor"] for x in rotations]:
                rotations.append(r)
    if not rotations:
        raise AnalysisError("_formulate_aligned_amplitude: no Wigner-d rotation reaches the summand (4 confirmed)")
    seen_states = set()
    refs = []
    for r in rotations:
        if r["shape"] or r.get("zcall") is None:
            judge.cannot(f"rotation factor `{show(r['factor'])[:80]}`: {r['shape'] or 'zeta is not the symbol returned by formulate_zeta_angle(state, aligned, reference)'}")
            continue
        state = r["state"]
        if not is_const(state, int):
            judge.cannot(f"the rotated state `{show(state)[:40]}` of a Wigner-d rotation is not a literal")
            continue
        k = state[1]
        seen_states.add(k)
        refs.append(r["reference"])
        j, m, m_prime = r["j"], r["m"], r["mp"]
        idxs = [sorted(_item_indices(a)) for a in (j, m, m_prime)]
        ok = all(i == [k] for i in idxs) and len({j, m, m_prime}) == 3
        # the id of outer state k: k-th element of get_outer_state_ids(reaction)
        ids = [x for a in (j, m, m_prime) for x in subterms(a) if x[0] in {"item", "sub"} and x[1][0] == "call" and func_name(x[1]).endswith("get_outer_state_ids")]
        ok = ok and bool(ids) and all(x[2] in {k, ("const", k)} for x in ids)
        # spin must be particle.spin of that state, helicities from the two symbol families
        ok = ok and any(x[0] == "attr" and x[2] == "spin" and x[1][0] == "attr" and x[1][2] == "particle" and x[1][1][0] == "sub" and x[1][1][2] in ids
                        and x[1][1][1][0] == "attr" and x[1][1][1][2] == "states" for x in subterms(j))
        fams = {"outer" if any(c[2][:1] and c[2][0] in ids for c in calls_of(a, "create_spin_projection_symbol")) else "dummy" for a in (m, m_prime)}
        ok = ok and fams == {"outer", "dummy"}
        node = _node_of(model, r["factor"], fn.node)
        judge.decide(
            ok, (j, m, m_prime),
            "R-WIRING",
            f"{fn.qual}::wigner_generator[{k}]",
            tree.loc(node),
            f"DPD alignment: {unparse(node)[:120] if isinstance(node, ast.Call) else show(ds_text(r))[:160]} - spin, outer helicity, summed helicity and state index all refer to outer state {k}",
            {"tuple_positions": idxs, "state": k},
        )
    if not judge.undecided:
        ctx.verdict(
            seen_states == {0, 1, 2, 3},
            "R-WIRING",
            f"{fn.qual}::wigner_generator-states",
            tree.loc(fn.node),
            f"DPD alignment rotates each of the four outer states exactly once per topology: {sorted(seen_states)}",
        )
        # zeta of every rotation is formulated for THIS reference subsystem
        want = ("param", model["reference"])
        ok_ref = all(g == want for g in refs)
        judge.decide(ok_ref, refs, "R-WIRING", f"{fn.qual}::wigner_generator-reference", tree.loc(fn.node),
                     f"DPD alignment: the Wigner-d rotations use zeta angles for the reference subsystem handed in (`{model['reference']}`)",
                     None if ok_ref else sorted({show(g)[:80] for g in refs}))
    # pools of the outer PoolSum: index k <-> outer_helicities[k]
    for pair in model["indices"]:
        sym, pool = pair[1]
        pos = sorted(_item_indices(sym))
        k = pool[2][1] if pool[0] == "sub" and is_const(pool[2], int) else None
        node = _node_of(model, sym, fn.node)
        name = unparse(node) if isinstance(node, ast.Name) else show(sym)[:40]
        judge.decide(
            len(pos) == 1 and pos[0] == k and k is not None, (sym, pool),
            "R-WIRING",
            f"{fn.qual}::pool[{name}]",
            tree.loc(_node_of(model, pair, node)),
            f"DPD alignment: summed helicity {name} (position {pos[0] if len(pos) == 1 else '?'}) ranges over outer_helicities[{k}]",
        )
    judge.finish()


def ds_text(r: dict):
    return r["d"][0][1]


@_failclosed
def check_dpd_summand(ctx: Check, tree: Tree) -> None:
    """R-SUMMAND: every term that reaches the summand of the PoolSum over the primed helicities
    is  base[primed helicities] * d(state 0) * d(state 1) * d(state 2) * d(state 3).
    A term that does not carry a summation index is added once per index combination (factor
    = product of the pool sizes); a term without its four rotations is not aligned."""
    model = _dpd_model(tree)
    fn = model["fn"]
    bound = model["bound"]
    judge = Judge(ctx, "check_dpd_summand", DPD_KNOWN)

    def name_of(v):
        node = model["sx"].origin.get(v)
        return unparse(node) if isinstance(node, ast.Name) else show(v)[:30]

    bound_txt = [name_of(b) for b in bound]
    for t in _dpd_terms(model):
        term = t["term"]
        problems = []
        states = []
        for f in t["others"]:
            judge.cannot(f"factor `{show(f)[:60]}` of a summand term is neither the amplitude base, a number nor a Wigner-d rotation")
        if t["others"]:
            continue
        for f in t["numbers"]:
            if as_number(f) != 1:
                problems.append(f"unexpected factor `{show(f)[:50]}`")
        for r in t["rotations"]:
            if r["shape"] or r.get("zcall") is None or not is_const(r["state"]):
                judge.cannot(f"rotation factor `{show(r['factor'])[:80]}`: {r['shape'] or 'the rotated state is not a literal of formulate_zeta_angle'}")
                continue
            k = r["state"][1]
            states.append(k)
            if isinstance(k, int) and 0 <= k < len(bound) and bound[k] not in (r["m"], r["mp"]):
                problems.append(f"rotation of state {k} does not carry the summation index {bound_txt[k]}")
        if judge.undecided:
            continue
        bases = t["bases"]
        if len(bases) != 1:
            problems.append(f"{len(bases)} amplitude-base factors")
        else:
            idx = list(bases[0][2][1]) if bases[0][2][0] in {"tuple", "list"} else [bases[0][2]]
            if idx != bound:
                problems.append(f"the amplitude base is indexed by {[name_of(i) for i in idx]}, not by the summation indices {bound_txt}: the term is added once per combination of the indices it does not carry")
        if sorted(states, key=str) != [0, 1, 2, 3]:
            problems.append(f"rotations for outer states {states}, not exactly one each for 0, 1, 2, 3")
        node = _node_of(model, term, fn.node)
        text = canon_text(node) if node is not fn.node else re.sub(r"\s+", "", show(term))[:80]
        judge.decide(not problems, (term,), "R-SUMMAND", f"{fn.qual}::term::{text}", tree.loc(node),
                     f"DPD summand term `{unparse(node)[:70] if node is not fn.node else show(term)[:70]}...` = base[{', '.join(bound_txt)}] * d_0 * d_1 * d_2 * d_3 (every summation index carried, every outer state rotated once)",
                     problems or None)
    judge.finish()


def canon_text(node: ast.AST) -> str:
    import re

    return re.sub(r"\s+", "", unparse(node))[:80]


@_failclosed
def check_spin_range_not_cached_mutable(ctx: Check, tree: Tree) -> None:
    """R-CACHE: "exactly -s..s" must hold for the k-th call as for the first: if any function of
    the alignment package hands out a memoised mutable object (a cached spin range), nobody
    may write into it (create_spin_range itself removes 0 for massless states)."""
    from .c06 import AliasFlow, memoised_functions, mutable_result

    pkg = "ampform.helicity.align"
    sources = {f.qual: f"memoised {f.qual}" for f in memoised_functions(tree) if f.qual.startswith(pkg) and mutable_result(f)}
    if not sources:
        ctx.ok("R-CACHE", "src/ampform/helicity/align", "no memoised function of helicity.align returns a mutable container (nothing shared between calls can be written)")
        return
    flow = AliasFlow(tree, sources)
    flow.fixpoint()
    bad = [(fn, node, origin) for fn, node, origin in flow.mutations() if fn.qual not in sources]
    for fn, node, origin in bad:
        ctx.violation("R-CACHE", f"{fn.qual}::{unparse(node)[:60]}::mutates-cached", tree.loc(node),
                      f"{fn.qual}: `{unparse(node)[:60]}` writes into an object that aliases a memoised result ({origin.split(' -> ')[0]})",
                      "the cached container is shared by all later calls: e.g. a spin range that lost its 0 for a massless state is then also used for massive states of that spin")
    if not bad:
        ctx.ok("R-CACHE", "src/ampform/helicity/align", f"the {len(sources)} memoised mutable results of helicity.align are never written")


def _walk_summary(tree: Tree, fn: FuncInfo, call: ast.Call, owner: FuncInfo):
    """One generic step of the walk along the decay chain, whatever its spelling (sa/symex.py):
    ``init`` / ``end`` = value of every carried name before the first step / after one step (in terms of the
    head symbols ``("carried", name, n)``), ``guard`` = condition under which a step is made, ``rotations`` =
    what one step contributes.  A `while` loop carries its names through the loop head (relations such as
    parent == get_parent_id(state) are proven by induction and substituted); a recursive local generator
    carries its parameters and its `nonlocal` names from one call to the next."""
    atoms = frozenset({ROTATION, "__multiply_pool_sums"})
    sx, _, _ = _symex(tree, fn.qual, atoms)
    if owner is fn:
        loops = [a for a in ancestors(call) if isinstance(a, ast.While)]
        info = sx.loops.get(id(loops[0])) if loops else None
        if info is None:
            return None
        info.refine()
        items = [info.value(x) for extra in info.extras.values() if extra for x in extra]
        rotations = [(pcs, v) for pcs, v in map(_unwrap, items) if v[0] == "call" and func_name(v) == ROTATION]
        guard = normal_value(info.value(info.test))
        return {"init": dict(info.init), "end": {n: info.value(v) for n, v in info.end.items()}, "guard": (guard,), "rotations": rotations,
                "head": info.head, "ordered": True, "what": "loop"}
    # recursive local function
    first = [e for e in sx.events if e[0] == "localcall" and e[2][1] == ("localfunc", owner.qual)]
    if len(first) != 1 or first[0][2][3]:
        return {"problem": f"the recursion does not start at `{fn.params[1]}`"}
    nonlocals = sorted({name for n in walk_function(owner.node, nested=False) if isinstance(n, ast.Nonlocal) for name in n.names})
    snapshot = first[0][3]
    head = lambda name: ("carried", name, 0)  # noqa: E731
    init = dict(zip(owner.params, first[0][2][2]))
    init.update({n: snapshot.get(n) for n in nonlocals})
    closure = dict(snapshot)
    closure.update({n: head(n) for n in nonlocals})
    sx2 = SymEx(tree, atoms=atoms)
    try:
        value, _ = sx2.run(owner, args={p: head(p) for p in owner.params}, closure=closure)
    except AnalysisError:
        raise
    except Exception as exc:  # noqa: BLE001
        raise AnalysisError(f"{owner.qual}: symbolic execution failed ({exc!r})") from exc
    rec = [e for e in sx2.events if e[0] == "localcall" and e[2][1] == ("localfunc", owner.qual)]
    if len(rec) != 1 or rec[0][2][3]:
        return {"problem": f"one activation of {owner.name}() does not make exactly one recursive call"}
    end = dict(zip(owner.params, rec[0][2][2]))
    end.update({n: rec[0][3].get(n) for n in nonlocals})
    guard = rec[0][1]
    if value[0] == "list":
        # a generator: what it yields, in order
        items = [_unwrap(x) for x in value[1]]
        order = [i for i, (_, v) in enumerate(items) if (v[0] == "call" and func_name(v) == ROTATION) or (v[0] == "star" and v[1] == rec[0][2])]
        ordered = len(order) == 2 and items[order[0]][1][0] == "call" and items[order[1]][1][0] == "star"
    elif value == NONE or (value[0] == "phi" and all(v == NONE for _, v in value[1])):
        # a procedure that appends to a list of its definer (accumulator instead of yield): what it appends, and whether
        # it does so before it recurses
        grown = [(i, e) for i, e in enumerate(sx2.events) if e[0] == "grow" and e[2] in closure and e[2] not in owner.params]
        names = {e[2] for _, e in grown}
        if len(names) != 1:
            return {"problem": f"{owner.name}() neither yields its rotations nor appends them to one list of {fn.name}()"}
        items = [(tuple(c for c in e[1]), e[3]) for _, e in grown]
        at = sx2.events.index(rec[0])
        ordered = all(i < at for i, e in grown if e[3][0] == "call" and func_name(e[3]) == ROTATION)
    else:
        return {"problem": f"the result `{show(value)[:50]}` of {owner.name}() is neither a sequence of rotations nor nothing"}
    rotations = [(pcs, v) for pcs, v in items if v[0] == "call" and func_name(v) == ROTATION]
    rotations = [(tuple(c for c in pcs if c not in guard), v) for pcs, v in rotations if all(g in pcs for g in guard)] if all(all(g in pcs for g in guard) for pcs, _ in rotations) else [((("?", True),), v) for _, v in rotations]
    return {"init": init, "end": end, "guard": guard, "rotations": rotations, "head": head, "ordered": ordered, "what": "recursion"}


def normal_value(test):
    from ..symex import normal

    return normal(test)


def _judge_walk(tree: Tree, fn: FuncInfo, s: dict) -> tuple[list[str], list[str]]:
    """The obligations of R-CHAINORDER on one generic step (see check_rotation_chain_order):
    (what is definitely broken, what could not be interpreted)."""
    if "problem" in s:
        return ([s["problem"]], []) if s.get("definite") else ([], [s["problem"]])
    what = s["what"]
    problems, unknown = [], []
    head, init, end = s["head"], s["init"], s["end"]
    if len(s["rotations"]) == 0:
        return [], [f"one step of the {what} makes a call of formulate_helicity_rotation whose result does not visibly reach the product"]
    if len(s["rotations"]) != 1 or s["rotations"][0][0] or not s["ordered"]:
        return [f"one step of the {what} does not contribute exactly one helicity rotation (unconditionally, before the steps further up)"], []
    rot = s["rotations"][0][1]
    _require_known(fn.qual, rot, tuple(v for v in init.values() if v is not None), tuple(v for v in end.values() if v is not None), tuple(t for t, _ in s["guard"]))
    params = tree.func(ROTATION).params
    if rot[3] or len(rot[2]) != len(params):
        raise AnalysisError(f"{fn.qual}: the call of formulate_helicity_rotation cannot be bound to its parameters: {show(rot)[:80]}")
    arg = dict(zip(params, rot[2]))

    def greek(v):
        hits = {x for x in subterms(v) if x[0] == "sub" and x[1][0] == "global" and x[1][1].endswith("__GREEK_INDEX_NAMES")}
        return next(iter(hits)) if len(hits) == 1 else None

    g_mp, g_sp = greek(arg.get("m_prime", NONE)), greek(arg.get("spin_projection", NONE))
    counter = None
    if g_mp is None or g_sp is None:
        unknown.append("m_prime / spin_projection are not named by entries of __GREEK_INDEX_NAMES")
    else:
        carried = sorted({x for g in (g_mp, g_sp) for x in subterms(g[2]) if x[0] == "carried" and x == head(x[1])}, key=str)
        if not carried and is_const(g_mp[2], int) and is_const(g_sp[2], int):
            problems.append(f"every step uses the same index pair ({g_mp[2][1]}, {g_sp[2][1]}): the index counter is not advanced by exactly 1 per rotation")
        elif len(carried) != 1:
            unknown.append(f"index counter not identified ({[c[1] for c in carried]})")
        else:
            counter = carried[0][1]
            off_mp, off_sp = _offset_from(g_mp[2], head(counter)), _offset_from(g_sp[2], head(counter))
            hole = ("sym", "index-name")
            if off_mp is None or off_sp is None:
                unknown.append(f"the index names `{show(g_mp)[:40]}` / `{show(g_sp)[:40]}` are not chosen by counter + literal")
            elif (off_mp, off_sp) != (0, 1) or subst(arg["m_prime"], {g_mp: hole}) != subst(arg["spin_projection"], {g_sp: hole}):
                problems.append("m_prime / spin_projection do not use index k / k+1 of the counter")
    if counter is not None:
        # the counter: starts at 0 (index 0 is the helicity symbol the Wigner rotation / the amplitude connects to)
        # and advances by exactly one per rotation
        c0 = init.get(counter)
        if c0 != ("const", 0):
            (problems if c0 is not None and is_const(c0) else unknown).append(f"the index counter `{counter}` does not start at 0")
        adv = _offset_from(end.get(counter), head(counter)) if end.get(counter) is not None else None
        if adv != 1:
            (problems if adv is not None else unknown).append(f"the index counter `{counter}` is not advanced by exactly 1 per rotation")
    # the walk: from the rotated state upwards, a step is made iff the state has a parent, and continues with that parent
    guard = s["guard"]
    parent = state = None
    recognised = False
    if len(guard) == 1 and guard[0][0][0] == "cmp" and guard[0][0][1] == "is" and guard[0][0][3] == NONE:
        g = guard[0][0][2]
        recognised = g[0] == "call" and func_name(g).endswith("get_parent_id") and len(g[2]) == 2
        if g[0] == "carried" and g == head(g[1]) and init.get(g[1]) is not None and init[g[1]][0] == "call" and func_name(init[g[1]]).endswith("get_parent_id"):
            # a parent id carried through the loop that is NOT (provably, see LoopInfo.refine) the parent of a state that
            # walks along: the step and the test are about different states
            recognised = True
        if recognised and g[0] == "call" and guard[0][1] is False and g[2][1][0] == "carried" and g[2][1] == head(g[2][1][1]):
            parent, state = g, g[2][1][1]
    if parent is None:
        (problems if recognised else unknown).append(f"the {what} does not stop exactly when the state has no parent (`parent_id is None`)")
    else:
        if end.get(state) != parent:
            nxt = end.get(state)
            definite = nxt is not None and not_followed(nxt, AXA_KNOWN) is None
            (problems if definite else unknown).append(f"the {what} does not continue with get_parent_id(topology, state_id)")
        if init.get(state) != ("param", fn.params[1]):
            first = init.get(state)
            (problems if first is not None and _leaf(first) else unknown).append(f"the {what} does not start at `{fn.params[1]}`")
    # Euler angles of a helicity rotation: (phi, theta, 0) of the helicity state of that level
    alpha, beta, gamma = arg.get("alpha", NONE), arg.get("beta", NONE), arg.get("gamma", NONE)
    conv_ok = (alpha[0] == "item" and beta[0] == "item" and alpha[1] == beta[1] and (alpha[2], beta[2]) == (0, 1)
               and alpha[1][0] == "call" and func_name(alpha[1]).endswith("get_helicity_angle_symbols") and as_number(gamma) == 0)
    if not conv_ok:
        from_symbols = lambda v: v[0] == "item" and v[1][0] == "call" and func_name(v[1]).endswith("get_helicity_angle_symbols")  # noqa: E731
        definite = all(from_symbols(v) or as_number(v) is not None for v in (alpha, beta, gamma))
        (problems if definite else unknown).append("the helicity rotation does not use (alpha, beta, gamma) = (phi, theta, 0) of get_helicity_angle_symbols")
    return problems, unknown


def _chain_on_instances(ctx: Check, tree: Tree, fn: FuncInfo, key: str, where: str) -> None:
    """R-CHAINORDER decided on small concrete decay chains (sa/symex.py, stubs + unroll): the rotated state s0 has the
    ancestors s1 ... sn (get_parent_id(topology, s_k) = s_(k+1), the initial state sn has no parent; list_decay_chain_ids
    gives [s0 ... sn]).  Whatever walks the chain - recursion, a loop, a generator, a counter or `len(rotations)` - the
    product must consist of exactly n rotations, the k-th of which has m' = index name k, projection = index name k + 1
    (same suffix) and the angles (phi, theta, 0) of the helicity state of s_k; with one rotation the index 1 is replaced by
    the helicity symbol."""
    mul_q = f"{AXA}::__multiply_pool_sums"
    transition, s0 = ("param", fn.params[0]), ("param", fn.params[1])
    topo = ("attr", transition, "topology")
    names_q = f"{AXA}::__GREEK_INDEX_NAMES"
    problems = []
    for n in (1, 2, 3):
        states = [s0] + [("sym", f"ancestor{k}") for k in range(1, n + 1)]
        stubs = {}
        for k, st_ in enumerate(states):
            stubs[("call", ("global", "ampform.helicity.decay::get_parent_id"), (topo, st_), ())] = states[k + 1] if k < n else NONE
        stubs[("call", ("global", "ampform.helicity.decay::list_decay_chain_ids"), (topo, s0), ())] = ("list", tuple(states))
        sx = SymEx(tree, atoms=frozenset({ROTATION, "__multiply_pool_sums"}), stubs=stubs, unroll=8)
        try:
            value, _ = sx.run(fn)
        except AnalysisError:
            raise
        except Exception as exc:  # noqa: BLE001
            raise AnalysisError(f"symbolic execution on a chain of {n} rotations failed ({exc!r})") from exc
        if sx.imprecise:
            raise AnalysisError(f"on a chain of {n} rotations: {sx.imprecise[0]}")
        products = list(dict.fromkeys(x for x in subterms(value) if x[0] == "call" and func_name(x) == mul_q))
        if len(products) != 1:
            raise AnalysisError(f"on a chain of {n} rotations the result `{show(value)[:60]}` does not contain one product of pool sums")
        items = _product_items(products[0], mul_q, sx)
        if items is None or any(not (x[0] == "call" and func_name(x) == ROTATION and not x[3]) for x in items):
            raise AnalysisError(f"on a chain of {n} rotations the factors of the product are not calls of formulate_helicity_rotation: `{show(products[0])[:70]}`")
        if len(items) != n:
            problems.append(f"a chain of {n} decay nodes gets {len(items)} helicity rotations")
            continue
        params = tree.func(ROTATION).params
        table = sx.module_constant(names_q)

        def index_name(v):
            """(position in __GREEK_INDEX_NAMES, the symbol with a hole for the name) of Symbol(<name><suffix>, ...)"""
            hits = [x for x in subterms(v) if (x[0] == "sub" and x[1] == ("global", names_q) and is_const(x[2], int))
                    or (table is not None and is_const(x, str) and x in table[1])]
            if len(hits) != 1:
                return None
            pos = hits[0][2][1] if hits[0][0] == "sub" else table[1].index(hits[0])
            return pos, subst(v, {hits[0]: ("sym", "index-name")})

        for k, rot in enumerate(items):
            arg = dict(zip(params, rot[2]))
            mp, sp_ = index_name(arg.get("m_prime", NONE)), index_name(arg.get("spin_projection", NONE))
            if mp is None or sp_ is None:
                raise AnalysisError(f"on a chain of {n} rotations: m_prime / spin_projection of rotation {k} are not named by one entry of __GREEK_INDEX_NAMES")
            if (mp[0], sp_[0]) != (k, k + 1) or _strip_text(mp[1]) != _strip_text(sp_[1]):
                problems.append(f"chain of {n}: rotation {k} (state `{show(states[k])}`) uses the index pair ({mp[0]}, {sp_[0]}), not ({k}, {k + 1})")
            alpha, beta, gamma = arg.get("alpha", NONE), arg.get("beta", NONE), arg.get("gamma", NONE)
            source = alpha[1] if alpha[0] == "item" and beta[0] == "item" and alpha[1] == beta[1] and (alpha[2], beta[2]) == (0, 1) else None
            if source is None or not (source[0] == "call" and func_name(source).endswith("get_helicity_angle_symbols") and len(source[2]) == 2 and not source[3]) or as_number(gamma) != 0:
                from_symbols = lambda v: v[0] == "item" and v[1][0] == "call" and func_name(v[1]).endswith("get_helicity_angle_symbols")  # noqa: E731
                if all(from_symbols(v) or as_number(v) is not None for v in (alpha, beta, gamma)):
                    problems.append(f"chain of {n}: rotation {k} does not use (alpha, beta, gamma) = (phi, theta, 0) of get_helicity_angle_symbols")
                    continue
                raise AnalysisError(f"on a chain of {n} rotations: the angles `{show(alpha)[:40]}`, `{show(beta)[:40]}`, `{show(gamma)[:20]}` of rotation {k}")
            who = source[2][1]
            mentioned = {x for x in subterms(who) if x in states}
            if mentioned != {states[k]}:
                if mentioned and not_followed(who, AXA_KNOWN) is None:
                    problems.append(f"chain of {n}: rotation {k} carries the angles of `{', '.join(sorted(show(x) for x in mentioned))}`, not of the {k}-th state on the way up (`{show(states[k])}`)")
                else:
                    raise AnalysisError(f"on a chain of {n} rotations: the helicity state `{show(who)[:60]}` of rotation {k}")
        # one rotation: the dangling index (position 1) is identified with the helicity symbol
        subs = [x for x in subterms(value) if x[0] == "call" and x[1][0] == "attr" and x[1][2] in {"subs", "xreplace"} and x[1][1] == products[0]]
        if n == 1 and subs:
            args = subs[0][2]
            if len(args) == 1 and args[0][0] == "dict" and len(args[0][1]) == 1:
                args = args[0][1][0]
            dangling = index_name(args[0]) if len(args) == 2 else None
            if dangling is None or args[1] != ("param", "helicity_symbol"):
                raise AnalysisError(f"on a chain of one rotation: `{show(subs[0])[:70]}` is not the replacement of the dangling index by the helicity symbol")
            if dangling[0] != 1:
                problems.append(f"with one rotation the index {dangling[0]} is replaced by the helicity symbol, not index 1 (the projection of that rotation)")
    ctx.verdict(not problems, "R-CHAINORDER", key, where,
                "axis-angle chain: index pair k (k = 0, 1, ...) carries the angles of the k-th state on the way up from the rotated state (decided on concrete chains of 1-3 decay nodes)",
                problems[:4] or None)


def _strip_text(v):
    """a value with constant text pieces merged out of the way of a comparison (`f"{a}{b}"` = `a + b`)"""
    return v


@_failclosed
def check_rotation_chain_order(ctx: Check, tree: Tree) -> None:
    """R-CHAINORDER: the helicity rotations of the axis-angle chain do not commute.  The k-th pair of
    summation indices (m' = index k, projection = index k+1, k = 0 at the rotated particle's own
    helicity) carries the angles of the k-th state on the way UP from the rotated state to the
    initial state.  Accepted: any walk whose generic step (sa/symex.py) starts at the rotated state with
    counter 0, is made iff get_parent_id(topology, state) is not None, contributes one rotation with the
    index pair (counter, counter + 1), and continues with that parent and counter + 1 - spelled as a
    recursive local generator or as a `while` loop - or
    `for k, state in enumerate(list_decay_chain_ids(topology, rotated_state)[...])`.  Walking
    the chain downwards (reversed(...)) attaches the angles the other way round: single-topology
    intensities do not notice (unitarity), interfering topologies are no longer rotation invariant.
    Three-valued: what the generic step definitely does wrong is a violation; a step the rule cannot interpret is an
    ANALYSIS-ERROR."""
    fn = tree.func("ampform.helicity.align.axisangle::formulate_helicity_rotation_chain")
    key = f"{fn.qual}::chain-direction"
    before = len(ctx.instances)
    try:
        _chain_order_generic(ctx, tree, fn)
    except AnalysisError as exc:
        if any(i.verdict in {"violation", "known"} for i in ctx.instances[before:]):
            raise
        del ctx.instances[before:]
        try:
            _chain_on_instances(ctx, tree, fn, key, tree.loc(fn.node))
        except AnalysisError as exc2:
            raise AnalysisError(f"{exc}; on concrete chains: {exc2}") from exc2
        return
    if any(i.verdict == "violation" for i in ctx.instances[before:]):
        # a violation found by reading the generic step is confirmed on concrete chains (the evaluation on an instance does
        # not depend on how the walk is spelled); if the two analyses disagree, nothing is reported but "cannot decide"
        probe = Check(ctx.pid, quiet=True, write=False)
        try:
            _chain_on_instances(probe, tree, fn, key, tree.loc(fn.node))
        except AnalysisError:
            return
        if not any(i.verdict in {"violation", "known"} for i in probe.instances):
            found = [str(i.detail)[:120] for i in ctx.instances[before:] if i.verdict == "violation"]
            del ctx.instances[before:]
            raise AnalysisError(f"{fn.qual}: the generic step of the walk looks wrong ({found[0]}) but the rotation chain is right on concrete chains of 1-3 decay nodes: not decided")


def _chain_order_generic(ctx: Check, tree: Tree, fn: FuncInfo) -> None:
    rot_calls = [c for c in walk_function(fn.node, nested=True) if isinstance(c, ast.Call) and tree.callee(c, tree.func_of(c) or fn) == "ampform.helicity.align.axisangle::formulate_helicity_rotation"]
    if len(rot_calls) != 1:
        raise AnalysisError(f"{fn.qual}: expected one call of formulate_helicity_rotation, found {len(rot_calls)}")
    call = rot_calls[0]
    owner = tree.func_of(call) or fn
    key = f"{fn.qual}::chain-direction"
    if owner is not fn or any(isinstance(a, ast.While) for a in ancestors(call)):
        summary = _walk_summary(tree, fn, call, owner)
        if summary is None:
            raise AnalysisError(f"{fn.qual}: rotation neither in a recursive helper nor in a loop")
        problems, unknown = _judge_walk(tree, fn, summary)
        # a chain of a single rotation has no summation left: its index is identified with the helicity symbol
        sx, value, _ = _symex(tree, fn.qual, frozenset({ROTATION, "__multiply_pool_sums"}))
        for pc, v in alternatives(value):
            if v[0] == "call" and v[1][0] == "attr" and v[1][2] in {"subs", "xreplace", "replace"}:
                length = ("call", ("builtin", "len"), (("attr", v[1][1], "indices"),), ())
                one = _exactly_one(pc, length)
                if one is None:
                    unknown.append(f"the single-rotation special case is taken under `{show_pc(pc)[:60]}`, which is no test of the number of summation indices")
                elif not one:
                    problems.append(f"the single-rotation special case is taken under `{show_pc(pc)[:60]}`, not iff exactly one summation index exists")
                # direction of the identification: the dangling summation index is REPLACED BY the helicity symbol handed in
                hel = ("param", "helicity_symbol") if "helicity_symbol" in fn.params else None
                args = v[2]
                if hel is not None and v[1][2] == "subs" and len(args) == 2:
                    if args[0] == hel and args[1] != hel:
                        problems.append(f"the single-rotation special case substitutes the helicity symbol BY the dangling index (`{show(v)[-70:]}`): the rotation is no longer bound to the outer helicity")
                    elif args[1] != hel:
                        unknown.append(f"the single-rotation special case substitutes `{show(args[0])[:30]}` by `{show(args[1])[:30]}`, which is not the helicity symbol that was handed in")
                elif hel is not None and v[1][2] == "xreplace" and len(args) == 1 and args[0][0] == "dict":
                    pass  # a mapping: read by R-WIRING
        if problems or not unknown:
            ctx.verdict(not problems, "R-CHAINORDER", key, tree.loc(call), "axis-angle chain: recursion from the rotated state upwards (get_parent_id) until the initial state, index pair k (k = 0, 1, ...) carries the angles of the k-th state on the way up", problems or None)
        if unknown:
            raise AnalysisError(f"{fn.qual}: cannot decide: " + "; ".join(unknown[:3]))
        return
    # loop idiom
    loops = [a for a in ancestors(call) if isinstance(a, ast.For)]
    if not loops:
        raise AnalysisError(f"{fn.qual}: rotation neither in a recursive helper nor in a loop")
    loop = loops[0]
    sx, _, _ = _symex(tree, fn.qual, frozenset({ROTATION, "__multiply_pool_sums"}))
    info = sx.loops.get(id(loop))
    if info is None or info.each is None:
        raise AnalysisError(f"{fn.qual}: the loop over `{unparse(loop.iter)[:50]}` was not executed generically")
    it = info.each[1]
    if not (it[0] == "call" and it[1] == ("builtin", "enumerate") and it[2] and not it[3]):
        raise AnalysisError(f"{fn.qual}: loop over `{unparse(loop.iter)[:50]}` is not enumerate(<chain>)")
    parsed = _seq_ops(it[2][0])
    src = parsed[0] if parsed is not None else it[2][0]
    while src[0] == "sub" and isinstance(src[2], tuple) and src[2] and src[2][0] == "slice" and src[2][3] in {NONE, ("const", 1)}:
        src = src[1]
    if parsed is None or not (_is_call(src, "list_decay_chain_ids") and not src[3] and src[2][1:] == (("param", fn.params[1]),)) or parsed[2]:
        raise AnalysisError(f"{fn.qual}: the chain `{unparse(loop.iter)[:50]}` does not come from list_decay_chain_ids(topology, {fn.params[1]})")
    down = parsed[1]
    ctx.verdict(not down, "R-CHAINORDER", key, tree.loc(loop), "axis-angle chain: index pair k carries the angles of the k-th state on the way up from the rotated state (list_decay_chain_ids order)",
                None if not down else f"the chain is walked downwards (`{unparse(loop.iter)[:50]}`): the non-commuting rotations are multiplied in reversed order")


@_failclosed
def check_wigner_angle_table(ctx: Check, tree: Tree) -> None:
    """R-TABLE: compute_wigner_angles implements Eqs. (B.2-4) of Marangotto (2019), the reference the
    docstring names: with R = compute_wigner_rotation_matrix(topology, momenta, state_id) and the
    Lorentz indices (0, 1, 2, 3) = (t, x, y, z):
        alpha = atan2(R[3,2], R[3,1]),  beta = acos(R[3,3]),  gamma = atan2(R[2,3], -R[1,3]);
    the three angles are named alpha/beta/gamma + helicity suffix of the same state.
    Judged on the dictionary the function computes (sa/symex.py): temporaries, a local / module-level helper or lambda
    that builds the matrix elements, index names bound to literals give the same values."""
    fn = tree.func("ampform.kinematics.angles::compute_wigner_angles")
    matrix_q = "ampform.kinematics.angles::compute_wigner_rotation_matrix"
    sx, value, _ = _symex(tree, fn.qual, frozenset({"compute_wigner_rotation_matrix", "get_helicity_suffix"}))
    judge = Judge(ctx, "check_wigner_angle_table", ("compute_wigner_rotation_matrix", "get_helicity_suffix", "ArraySlice"))
    alts = alternatives(value)
    if len(alts) != 1 or alts[0][1][0] != "dict" or len(alts[0][1][1]) != 3:
        raise AnalysisError(f"{fn.qual}: does not return a dict of three angles")
    table = alts[0][1][1]
    matrix = ("call", ("global", matrix_q), tuple(("param", p) for p in fn.params[:3]), ())

    def stem(k):
        """name stem of an angle symbol: Symbol(f"alpha{suffix}") / the k-th name of symbols(f"alpha{s} beta{s} gamma{s}")"""
        pos = None
        if k[0] == "item" and _is_call(k[1], "symbols"):
            pos, k = k[2], k[1]
        if not (k[0] == "call" and func_name(k) in {"sympy.Symbol", "sympy.symbols"} and k[2]):
            return None
        name = k[2][0]
        parts = name[1] if name[0] == "fstr" else (name,) if is_const(name, str) else None
        if parts is None:
            return None
        txt = "".join(p[1] if is_const(p, str) else "{}" for p in parts)
        if pos is not None:
            names = txt.replace(",", " ").split()
            txt = names[pos] if isinstance(pos, int) and pos < len(names) else ""
        return txt.split("{")[0] or None

    def element(v):
        """(sign, row, column) of +-ArraySlice(R, (slice(None), row, column)) with R the Wigner rotation matrix; str = why not"""
        sign = 1
        while v[0] == "unop" and v[1] == "-":
            sign, v = -sign, v[2]
        if v[0] == "mul" and len(v[1]) == 2 and as_number(v[1][0]) == -1:
            sign, v = -sign, v[1][1]
        if not (_is_call(v, "ArraySlice") and len(v[2]) == 2 and not v[3]):
            return f"`{show(v)[:50]}` is not an element ArraySlice(R, (slice(None), row, column))"
        base, idx = v[2]
        if base != matrix:
            return f"`{show(base)[:60]}` is not compute_wigner_rotation_matrix({', '.join(fn.params[:3])})"
        if not (idx[0] == "tuple" and len(idx[1]) == 3 and idx[1][0] == ("call", ("builtin", "slice"), (NONE,), ()) and all(is_const(e, int) for e in idx[1][1:])):
            return f"index `{show(idx)[:40]}` is not (slice(None), <row literal>, <column literal>)"
        return (sign, idx[1][1][1], idx[1][2][1])

    want = {
        "alpha": ("atan2", [(1, 3, 2), (1, 3, 1)]),
        "beta": ("acos", [(1, 3, 3)]),
        "gamma": ("atan2", [(1, 2, 3), (-1, 1, 3)]),
    }
    names = [stem(unwrap(k)[2]) for k, _ in table]
    if sorted(n or "" for n in names) != ["alpha", "beta", "gamma"]:
        raise AnalysisError(f"{fn.qual}: angle symbols are {names}, expected alpha/beta/gamma + suffix")
    where = tree.loc(next((r for r in walk_function(fn.node, nested=False) if isinstance(r, ast.Return)), fn.node))
    for name, (_, v) in zip(names, table):
        _, pcs, v = unwrap(v)
        func, args = want[name]
        what = f"Wigner rotation angle {name} = {func}(" + ", ".join(("-" if s < 0 else "") + f"R[{i},{j}]" for s, i, j in args) + ") (Marangotto 2019, B.2-4)"
        key = f"{fn.qual}::{name}"
        if pcs:
            judge.cannot(f"{name} is defined only under `{show_pc(pcs)[:50]}`")
            continue
        if v[0] != "call" or v[3] or func_name(v).split(".")[-1] not in {"atan2", "acos", "asin", "atan", "acot", "cos", "sin"}:
            judge.cannot(f"{name} = `{show(v)[:60]}` is not an inverse trigonometric function of matrix elements")
            continue
        got = [element(a) for a in v[2]]
        bad = [g for g in got if isinstance(g, str)]
        if bad:
            judge.cannot(f"{name}: {bad[0]}")
            continue
        ok = func_name(v).split(".")[-1] == func and got == args
        ctx.verdict(ok, "R-TABLE", key, where, what, None if ok else {"code": show(v)[:120], "elements": got})
    judge.finish()


AXA = "ampform.helicity.align.axisangle"
AXA_KNOWN = ("group_by_topology", "get_outer_state_ids", "create_amplitude_base", "get_opposite_helicity_sign", "create_helicity_symbol",
             "formulate_axis_angle_alignment", "formulate_rotation_chain", "__multiply_pool_sums", "ampform.sympy::PoolSum", "compute_wigner_angles",
             "create_four_momentum_symbols", "get_parent_id", "is_opposite_helicity_state", "create_spin_range", "formulate_helicity_rotation",
             "formulate_helicity_rotation_chain", "formulate_wigner_rotation", "create_spin_projection_symbol", "get_helicity_suffix",
             "get_helicity_angle_symbols", "get_sibling_state_id", "__rationalize")
CASTS = {"sympy.Rational", "sympy.sympify", "sympy.S", "sympy.Integer", "sympy.Float", "sympy.nsimplify", "float", "int", "decimal.Decimal", "Decimal", "fractions.Fraction"}


def _params(fn: FuncInfo) -> list[str]:
    """All parameter names in declaration order, including `*args` / `**kwargs`."""
    a = fn.node.args
    return [x.arg for x in [*a.posonlyargs, *a.args, *a.kwonlyargs]] + ([a.vararg.arg] if a.vararg else []) + ([a.kwarg.arg] if a.kwarg else [])


def _core(v):
    """A value without the numeric conversions around it (``sp.Rational(x)``, ``float(x)``, ``__rationalize(x)``, also when
    the conversion is applied only on some paths)."""
    while isinstance(v, tuple) and v:
        if v[0] == "call" and len(v[2]) == 1 and not v[3] and (func_name(v) in CASTS or func_name(v).endswith("__rationalize")):
            v = v[2][0]
        elif v[0] == "phi":
            cores = {_core(x) for _, x in v[1]}
            if len(cores) != 1:
                return v
            v = next(iter(cores))
        else:
            break
    return v


def _is_call(v, suffix: str) -> bool:
    return isinstance(v, tuple) and bool(v) and v[0] == "call" and (func_name(v) == suffix or func_name(v).endswith("::" + suffix) or func_name(v).endswith("." + suffix))


def _all_of(each, base) -> str | None:
    """Does the generic element ``each`` run over ALL elements of ``base`` (``base`` itself, ``list(base)``, its
    ``.items()`` / ``.values()`` / ``.keys()``, ``enumerate(base)``)?  -> kind of iteration ("elements", "items", "values",
    "enumerate"), "part" if only a slice of them, None if the iterable is something else."""
    if not (isinstance(each, tuple) and each and each[0] == "each"):
        return None
    it = each[1]
    kind, part = "elements", False
    for _ in range(6):
        if it == base:
            return "part" if part else kind
        if it[0] == "call" and it[1][0] == "builtin" and it[1][1] in {"list", "tuple", "iter", "sorted", "set", "frozenset"} and len(it[2]) == 1 and not it[3]:
            it = it[2][0]
        elif it[0] == "call" and it[1] == ("builtin", "enumerate") and len(it[2]) == 1 and kind == "elements":
            it, kind = it[2][0], "enumerate"
        elif it[0] == "call" and it[1][0] == "attr" and it[1][2] in {"items", "values", "keys"} and not it[2] and not it[3] and kind == "elements":
            kind, it = it[1][2], it[1][1]
            if kind == "keys":
                kind = "elements"
        elif it[0] == "sub" and isinstance(it[2], tuple) and it[2] and it[2][0] == "slice":
            it, part = it[1], part or it[2][1:] != (NONE, NONE, NONE)
        else:
            return None
    return None


@_failclosed
def check_axisangle_amplitude(ctx: Check, tree: Tree) -> None:
    """R-SUMMAND (axis-angle): the aligned amplitude is the sum over ALL topology groups of
    PoolSum(alignment rotations * amplitude symbol of that topology, <all alignment indices>).
    Judged on what the method computes (sa/symex.py): an accumulation loop, sum(terms, 0), sp.Add(*terms), terms built
    by a helper function or method give the same sum."""
    fn = tree.func(f"{AXA}::AxisAngleAlignment.formulate_amplitude")
    atoms = frozenset({"formulate_axis_angle_alignment", "group_by_topology", "get_outer_state_ids", "create_amplitude_base", "get_opposite_helicity_sign", "create_helicity_symbol"})
    sx, value, _ = _symex(tree, fn.qual, atoms)
    value = _flat(value)
    judge = Judge(ctx, "check_axisangle_amplitude", AXA_KNOWN)
    key = f"{fn.qual}::sum-over-topologies"
    alts = alternatives(value)
    parts = addends(alts[0][1], sx) if len(alts) == 1 else None
    if parts is None:
        raise AnalysisError(f"{fn.qual}: the amplitude `{show(value)[:80]}` is not a sum over the topology groups (accumulation loop / sum(...) / sp.Add(*...))")
    start, items = parts
    problems = []
    if as_number(start) is None:
        judge.cannot(f"the sum starts at `{show(start)[:40]}`")
    elif as_number(start) != 0:
        problems.append("the accumulator does not start at 0")
    groups = ("call", ("global", "ampform.helicity.decay::group_by_topology"), (("attr", ("param", fn.params[0]), "transitions"),), ())
    good = 0
    for item in items:
        eaches, pcs, term = unwrap(item)
        if not (_is_call(term, "PoolSum") and term[2] and not term[3]):
            judge.cannot(f"the term `{show(term)[:60]}` is not a PoolSum")
            continue
        if len(eaches) != 1:
            judge.cannot(f"the term `{show(term)[:50]}` is added {'once' if not eaches else 'in nested loops'}, not once per topology group")
            continue
        kind = _all_of(eaches[0], groups)
        if kind is None:
            judge.cannot(f"the terms are formulated for `{show(eaches[0][1])[:60]}`, not for group_by_topology(reaction.transitions)")
            continue
        if kind == "part":
            problems.append("the accumulation is not inside the loop over all topology groups")
            good += 1
            continue
        if pcs:
            problems.append(f"the accumulation is conditional ({show_pc(pcs)[:60]})")
        e = eaches[0]
        if kind == "items":
            topo, transitions = [("item", e, 0)], ("item", e, 1)
        elif kind == "values":
            topo, transitions = [], e
        elif kind == "elements":
            topo, transitions = [e], ("sub", groups, e)
        else:
            judge.cannot(f"iteration `{kind}` over the topology groups")
            continue
        aligns = [c for c in calls_of(term, "formulate_axis_angle_alignment")]
        ok_align = [c for c in aligns if not c[3] and len(c[2]) == 1 and c[2][0][0] == "sub" and c[2][0][1] == transitions and is_const(c[2][0][2], int)]
        if not aligns:
            problems.append("the summand does not contain the alignment sum (formulate_axis_angle_alignment)")
            continue
        if len(set(aligns)) != 1 or not ok_align:
            judge.cannot(f"the alignment sum `{show(aligns[0])[:70]}` is not formulated for a transition of the topology group")
            continue
        a = aligns[0]
        topo.append(("attr", a[2][0], "topology"))
        facs = factors(term[2][0], sx)
        want_expr = ("attr", a, "expression")
        amp = [f for f in facs if f[0] == "sub" and _is_call(f[1], "create_amplitude_base")]
        rest = [f for f in facs if f != want_expr and f not in amp and as_number(f) != 1]
        if want_expr not in facs or len(amp) != 1 or rest:
            if all(f == want_expr or f in amp or as_number(f) is not None for f in facs):
                problems.append(f"summand `{show(term[2][0])[:60]}` is not <alignment sum>.expression * <amplitude symbol of the topology>")
            else:
                judge.cannot(f"factor `{show(rest[0])[:50] if rest else show(term[2][0])[:50]}` of the summand is neither the alignment sum's expression nor the amplitude symbol")
        elif not (len(amp[0][1][2]) == 1 and amp[0][1][2][0] in topo):
            if not_followed(amp[0][1][2][0] if amp[0][1][2] else NONE, AXA_KNOWN) is None and amp[0][1][2] and amp[0][1][2][0][0] in {"item", "each", "attr", "sub"} and amp[0][1][2][0] not in topo:
                judge.cannot(f"the amplitude symbol is created for `{show(amp[0][1][2][0])[:50]}`")
        idx = term[2][1:]
        if idx != (("star", ("attr", a, "indices")),):
            if not idx or all(x[0] != "star" for x in idx):
                problems.append("the PoolSum does not range over all indices of the alignment sum")
            else:
                judge.cannot(f"the PoolSum ranges over `{', '.join(show(x)[:40] for x in idx)}`, not over *<alignment sum>.indices")
        good += 1
    if not items or (not good and not judge.undecided):
        problems.append("no term is added for the topology groups")
    judge.decide(not problems, (value,), "R-SUMMAND", key, tree.loc(fn.node),
                 "axis-angle: amplitude = sum over all topology groups of PoolSum(alignment.expression * A^topology[helicities], *alignment.indices)", problems or None)
    judge.finish()


def _call_arg(tree: Tree, call, qual: str, pname: str):
    """Value bound to parameter ``pname`` in a symbolic call of ``qual`` (None if it is not passed)."""
    target = tree.funcs.get(qual)
    if target is None:
        return None
    params = target.params
    if not call[3] and len(call[2]) == len(params) and pname in params:
        v = call[2][params.index(pname)]
        return v
    for k, v in call[3]:
        if k == pname:
            return v
    if pname in params:
        i = params.index(pname)
        if i < len(call[2]) and not any(a[0] == "star" for a in call[2][: i + 1]):
            return call[2][i]
    return None


def _flat(v):
    """``v`` with every iteration over a COLLECTED iteration replaced by the iteration itself (symex.flatten_each: the
    consumer of a generator / comprehension sees what the producer ranged over) and components of known tuples taken out
    (`for a, b in ((x, y) for ...)`: a = x, b = y)."""
    from ..symex import Undecided, flatten_each

    try:
        v = flatten_each(v)
    except Undecided:
        return v

    def reduce(t):
        if not isinstance(t, tuple):
            return t
        t = tuple(reduce(y) for y in t)
        if t and t[0] == "item" and len(t) == 3 and isinstance(t[1], tuple) and t[1] and t[1][0] in {"tuple", "list"} and isinstance(t[2], int) \
                and 0 <= t[2] < len(t[1][1]) and not any(isinstance(x, tuple) and x and x[0] in {"foreach", "star", "when"} for x in t[1][1]):
            return t[1][1][t[2]]
        return t

    return reduce(v)


def _selection(sx, eaches, pcs, s):
    """The elements a value ``s`` (a generic element) runs over, looked through one comprehension / filter that only
    selects (`ids = {i for i in xs if c(i)}; for s in ids`): (underlying generic element, conditions) or None."""
    conds = tuple(pcs)
    for _ in range(3):
        if not (isinstance(s, tuple) and s and s[0] == "each"):
            return None
        it = s[1]
        while it[0] == "call" and it[1][0] == "builtin" and it[1][1] in {"list", "tuple", "set", "frozenset", "sorted", "iter"} and len(it[2]) == 1 and not it[3]:
            it = it[2][0]
        if it[0] in {"set", "list", "tuple"} and len(it[1]) == 1 and it[1][0][0] == "foreach":
            es, cs, elem = unwrap(it[1][0])
            if len(es) == 1 and elem == es[0]:
                s, conds = es[0], conds + cs
                continue
            return None
        return s, conds
    return None


def _product_items(v, mul_q: str, sx, given: tuple = ()) -> list | None:
    """The pool sums that are multiplied, whatever the grouping: ``__multiply_pool_sums([a, b])`` / ``(a, b)`` /
    ``(*xs)``, nested products, a fold ``acc = __multiply_pool_sums([acc, x])`` over an iterable (-> ``foreach`` item).
    ``given``: the path condition under which ``v`` is computed (items of a list built there repeat it)."""
    if v[0] == "fold":
        step, head = v[3], v[4]
        conds = ()
        if step[0] == "when":
            conds, step = step[1], step[2]
        inner = _product_items(step, mul_q, sx, given + conds)
        if inner is None or sum(1 for x in inner if x == head) != 1 or any(x != head and contains_value(x, head) for x in inner):
            return None
        init = _product_items(v[2], mul_q, sx, given)
        if init is None:
            return None
        out = list(init)
        for x in inner:
            if x == head:
                continue
            if conds:
                x = ("when", conds, x)
            for e in reversed(v[1]):
                x = ("foreach", e, x)
            out.append(x)
        return out
    if v[0] == "call" and func_name(v) == mul_q:
        if v[3] or len(v[2]) != 1:
            return None
        seq = sx.as_items(v[2][0])
        if seq is None:
            return None
        out = []
        for x in seq:
            es, cs, plain = unwrap(x)
            if plain[0] == "star":
                return None
            cs = tuple(c for c in cs if c not in given)
            inner = _product_items(plain, mul_q, sx, given) if not es and not cs else [x]
            if inner is None:
                return None
            out += inner
        return out
    return [v]


def contains_value(v, sub) -> bool:
    return any(x == sub for x in subterms(v))


def _rotation_calls(tree: Tree, top: FuncInfo):
    """Every call of formulate_helicity_rotation that `top` (or a recursive local function of it, which the symbolic
    execution does not unfold) makes: [(call value, ast node or None)] with the arguments bound to the parameters."""
    atoms = frozenset({ROTATION, "__multiply_pool_sums"})
    sx, value, _ = _symex(tree, top.qual, atoms)
    found: list = []

    def collect(sx_, *values):
        for v in values:
            for x in subterms(v) if isinstance(v, tuple) else ():
                if x[0] == "call" and func_name(x) == ROTATION and x not in [c for c, _ in found]:
                    found.append((x, sx_.origin.get(x)))

    def harvest(sx_, value_):
        collect(sx_, value_)
        for e in sx_.events:
            collect(sx_, *[p for p in e[2:-1] if isinstance(p, tuple)])
        for info in sx_.loops.values():
            collect(sx_, *[x for extra in info.extras.values() if extra for x in extra], *info.end.values())

    harvest(sx, value)
    done = set()
    for e in list(sx.events):
        if e[0] != "localcall" or e[2][1][0] != "localfunc" or e[2][1][1] in done:
            continue
        owner = tree.funcs.get(e[2][1][1])
        if owner is None:
            continue
        done.add(owner.qual)
        nonlocals = sorted({name for n in walk_function(owner.node, nested=False) if isinstance(n, ast.Nonlocal) for name in n.names})
        closure = dict(e[3])
        closure.update({n: ("carried", n, 0) for n in nonlocals})
        sx2 = SymEx(tree, atoms=atoms)
        try:
            v2, _ = sx2.run(owner, args={p: ("carried", p, 0) for p in owner.params}, closure=closure)
        except AnalysisError:
            raise
        except Exception as exc:  # noqa: BLE001
            raise AnalysisError(f"{owner.qual}: symbolic execution failed ({exc!r})") from exc
        harvest(sx2, v2)
    return found


@_failclosed
def check_wiring(ctx: Check, tree: Tree) -> None:
    """R-WIRING: inside formulate_helicity_rotation the PoolSum runs over create_spin_range(s) of the same s that is j
    of the Wigner-D and sums the index that is m' of the Wigner-D; every caller passes spin and masslessness of the
    rotated state.  Judged on the values of sa/symex.py."""
    rot = tree.func(ROTATION)
    judge = Judge(ctx, "check_wiring", AXA_KNOWN)
    sx, value, _ = _symex(tree, ROTATION, frozenset({"create_spin_range"}))
    alts = alternatives(value)
    if len(alts) != 1 or not (_is_call(alts[0][1], "PoolSum") and not alts[0][1][3]):
        raise AnalysisError(f"{ROTATION}: expected one PoolSum construction, found `{show(value)[:60]}`")
    ps = alts[0][1]
    wd = [c for c in subterms(ps[2][0]) if c[0] == "call" and func_name(c).split(".")[-1] == "D" and "Rotation" in func_name(c)] if ps[2] else []
    if len(set(wd)) != 1:
        raise AnalysisError(f"{ROTATION}: expected one Wigner.D call inside the PoolSum")
    names = ["j", "m", "mp", "alpha", "beta", "gamma"]
    dargs = dict(zip(names, wd[0][2]))
    dargs.update({k: v for k, v in wd[0][3]})
    problems, detail = [], {}
    j_core = _core(dargs.get("j", NONE))
    if len(ps[2]) != 2 or not (ps[2][1][0] == "tuple" and len(ps[2][1][1]) == 2):
        judge.cannot(f"the PoolSum of formulate_helicity_rotation has the indices `{', '.join(show(x)[:40] for x in ps[2][1:])}`, not one (symbol, pool) pair")
    else:
        sym, pool = ps[2][1][1]
        # the pool: the elements of create_spin_range(<spin>, ...), possibly converted one by one
        ranges = list(dict.fromkeys(calls_of(pool, "create_spin_range")))
        elems = None
        plain = pool
        while plain[0] == "call" and plain[1][0] == "builtin" and plain[1][1] in {"list", "tuple", "sorted"} and len(plain[2]) == 1 and not plain[3]:
            plain = plain[2][0]
        if len(ranges) == 1 and plain == ranges[0]:
            elems = ()
        elif len(ranges) == 1 and plain[0] in {"list", "tuple", "set"} and len(plain[1]) == 1:
            es, cs, elem = unwrap(plain[1][0])
            if len(es) == 1 and _all_of(es[0], ranges[0]) == "elements" and _core(elem) == es[0]:
                elems = cs
        if not ranges:
            if not_followed(pool, AXA_KNOWN) is None:
                problems.append("the summation pool is not built from create_spin_range(...)")
            else:
                judge.cannot("the summation pool of formulate_helicity_rotation was not followed")
        elif elems is None:
            judge.cannot(f"the summation pool `{show(pool)[:70]}` is not the elements of create_spin_range(...)")
        else:
            if elems:
                problems.append(f"the summation pool is filtered ({show_pc(elems)[:50]})")
            target = tree.func(SPIN_RANGE)
            spin = _call_arg(tree, ranges[0], SPIN_RANGE, target.params[0])
            pool_core = _core(spin) if spin is not None else None
            detail = {"pool_spin": show(pool_core) if pool_core is not None else None, "wigner_j": show(j_core), "index_is_mp": sym == dargs.get("mp")}
            if pool_core is None or pool_core[0] != "param" or j_core[0] != "param":
                judge.cannot(f"spin of the pool `{detail['pool_spin']}` / j of the Wigner-D `{detail['wigner_j']}` is not a parameter")
            elif pool_core != j_core:
                problems.append(f"the pool is the spin range of `{pool_core[1]}`, j of the Wigner-D is `{j_core[1]}`")
            if sym != dargs.get("mp"):
                problems.append(f"the summed index `{show(sym)[:30]}` is not m' of the Wigner-D (`{show(dargs.get('mp', NONE))[:30]}`)")
    if problems or not judge.undecided:
        judge.decide(not problems, (ps,), "R-WIRING", f"{ROTATION}::pool-vs-j", tree.loc(sx.origin.get(ps) if hasattr(sx.origin.get(ps), "lineno") else rot.node),
                     "formulate_helicity_rotation: PoolSum index pool = create_spin_range(s) of the same s that is j of the Wigner-D, summed index = mp", problems or detail or None)
    # callers pass the spin / mass of the rotated state
    n_calls = 0
    tops = []
    for q, fn in sorted(tree.funcs.items()):
        if not q.startswith("ampform") or fn.qual == ROTATION:
            continue
        if any(callee == ROTATION for _, callee in tree.calls_in(fn, nested=False)):
            top = fn
            while top.outer is not None:
                top = top.outer
            # a private helper that was extracted from a caller is judged as part of its callers (the symbolic execution
            # of the caller runs through it with the caller's arguments)
            todo, entries = [top], []
            for _ in range(4):
                nxt = []
                for t in todo:
                    users = [o for o in tree.funcs.values() if o is not t and o.outer is None and o.module is t.module and any(c == t.qual for _, c in tree.calls_in(o, nested=True))]
                    if t.name.startswith("_") and not t.name.startswith("__") and users:
                        nxt += users
                    else:
                        entries.append(t)
                todo = nxt
                if not todo:
                    break
            for t in entries + todo:
                if t not in tops:
                    tops.append(t)
    for top in tops:
        for call, node in _rotation_calls(tree, top):
            n_calls += 1
            scope = (tree.func_of(node) if node is not None else None) or top
            spin = _call_arg(tree, call, ROTATION, "spin_magnitude")
            nz = _call_arg(tree, call, ROTATION, "no_zero_spin")
            spin_txt = show(spin) if spin is not None else None
            nz_txt = show(nz) if nz is not None else None
            key = f"{scope.qual}::call formulate_helicity_rotation::spin"
            where = tree.loc(node) if node is not None and hasattr(node, "lineno") else tree.loc(top.node)
            what = f"{scope.qual} -> formulate_helicity_rotation(spin_magnitude={spin_txt}, no_zero_spin={nz_txt})"
            if call[3] and spin is None:
                judge.cannot(f"{scope.qual}: the call of formulate_helicity_rotation could not be bound to its parameters")
                continue
            params = [("param", p) for p in top.params]

            def state_of(v, leaf: str):
                """X of `X.particle.<leaf>`"""
                if v[0] == "attr" and v[2] == leaf and v[1][0] == "attr" and v[1][2] == "particle":
                    return v[1][1]
                return None

            def is_rotated_state(x) -> bool:
                return x[0] == "sub" and x[1][0] == "attr" and x[1][2] == "states" and x[1][1] in params and x[2] in params

            why = None
            definite = False
            if spin is None:
                why, definite = "spin_magnitude not passed", True
            else:
                st_spin = state_of(_core(spin), "spin")
                if st_spin is None:
                    why = f"spin_magnitude = {spin_txt} is not <transition>.states[<rotated id>].particle.spin of the caller's parameters"
                elif not is_rotated_state(st_spin):
                    # another state of the transition (`transition.initial_states[-1]`, `transition.states[0]`) is positive
                    # evidence; a state object that is handed in / comes out of a call is not followed to its origin
                    why, definite = f"spin_magnitude = {spin_txt} is not <transition>.states[<rotated id>].particle.spin of the caller's parameters", st_spin[0] in {"sub", "item"} and _leaf(st_spin)
                elif nz is not None:
                    tests = [x for x in subterms(nz) if x[0] == "cmp" and x[1] == "==" and as_number(x[3]) == 0 and state_of(x[2], "mass") is not None]
                    if nz == ("const", False):
                        pass
                    elif len(tests) != 1 or tests[0] != nz:
                        why = f"no_zero_spin = {nz_txt} is not the masslessness of the same state {show(st_spin)}"
                        definite = bool(tests) and all(state_of(t[2], "mass") != st_spin for t in tests)
                    elif state_of(tests[0][2], "mass") != st_spin:
                        why, definite = f"no_zero_spin = {nz_txt} is not the masslessness of the same state {show(st_spin)}", True
            if why is None:
                ctx.verdict(True, "R-WIRING", key, where, what, None)
            elif definite and not_followed(("tuple", tuple(x for x in (spin, nz) if x is not None)), AXA_KNOWN) is None:
                ctx.verdict(False, "R-WIRING", key, where, what, why)
            else:
                judge.cannot(f"{scope.qual}: {why}")
    if n_calls < 2:
        raise AnalysisError(f"only {n_calls} callers of formulate_helicity_rotation (2 confirmed)")
    judge.finish()


def _exactly_one(pc, length) -> bool | None:
    """Is the path condition `len(x) ... k` true exactly for length 1 (of lengths 1..8)?  None if it is no such test."""
    if len(pc) != 1:
        return None
    t, outcome = pc[0]
    if not (t[0] == "cmp" and t[1] in {"==", "<", "<=", ">", ">="}):
        return None
    import operator

    ops = {"==": operator.eq, "<": operator.lt, "<=": operator.le, ">": operator.gt, ">=": operator.ge}
    if t[2] == length and is_const(t[3], int):
        f = lambda n: ops[t[1]](n, t[3][1])  # noqa: E731
    elif t[3] == length and is_const(t[2], int):
        f = lambda n: ops[t[1]](t[2][1], n)  # noqa: E731
    else:
        return None
    return {n for n in range(1, 9) if f(n) == outcome} == {1}


def _offset_from(v, base):
    """k if ``v`` is ``base + k`` (k an int literal, also ``base - k`` / ``k + base`` / ``base``), else None."""
    if v == base:
        return 0
    if v[0] == "binop" and v[1] in {"+", "-"}:
        if is_const(v[3], int):
            inner = _offset_from(v[2], base)
            return None if inner is None else inner + (v[3][1] if v[1] == "+" else -v[3][1])
        if v[1] == "+" and is_const(v[2], int):
            inner = _offset_from(v[3], base)
            return None if inner is None else inner + v[2][1]
    return None


def _leaf(v) -> bool:
    """A plain, completely known operand: parameter, literal, attribute / subscript chain of those."""
    while v[0] in {"attr", "sub", "item"}:
        if v[0] == "sub" and not _leaf(v[2]):
            return False
        v = v[1]
    return v[0] in {"param", "const", "global"}


@_failclosed
def check_axisangle_structure(ctx: Check, tree: Tree) -> None:
    """Further structural obligations of the axis-angle alignment (all in helicity/align/axisangle.py):
    (a) formulate_rotation_chain returns the helicity rotations alone iff there is exactly one
        (the particle is a direct child of the initial state), otherwise their product with the
        Wigner rotation, whose summation index is the next free index name;
    (b) define_symbols defines (alpha, beta, gamma) for exactly the final states whose parent is
        not the initial state and merges every result;
    (c) __multiply_pool_sums multiplies all summands and concatenates ALL index lists;
    (d) get_opposite_helicity_sign is -1 iff the state is not the initial state and is the
        opposite-helicity state, +1 otherwise.
    All judged on what the functions compute (sa/symex.py); three-valued: a shape that is followed completely and
    breaks the obligation is a violation, a shape the rule cannot interpret an ANALYSIS-ERROR."""
    judge = Judge(ctx, "check_axisangle_structure", AXA_KNOWN)
    for part in (_structure_rotation_chain, _structure_define_symbols, _structure_multiply, _structure_all_final_states,
                 _structure_wigner_rotation, _structure_wigner_d, _structure_sign):
        try:
            part(ctx, tree, judge)
        except AnalysisError as exc:
            judge.cannot(str(exc))
    judge.finish()


def _structure_rotation_chain(ctx: Check, tree: Tree, judge: Judge) -> None:
    # (a) judged on what formulate_rotation_chain computes (sa/symex.py): temporaries, helper functions that build
    #     the index symbol, keyword / positional arguments do not matter
    mod = AXA
    fn = tree.func(f"{mod}::formulate_rotation_chain")
    chain_q, wigner_q = f"{mod}::formulate_helicity_rotation_chain", f"{mod}::formulate_wigner_rotation"
    mul_q = f"{mod}::__multiply_pool_sums"
    sx, value, _ = _symex(tree, fn.qual, frozenset({chain_q, wigner_q, "__multiply_pool_sums"}))
    problems = []
    before = len(judge.undecided)
    _require_known(fn.qual, value)
    alts = cases(value)
    is_chain = lambda v: v[0] == "call" and func_name(v) == chain_q  # noqa: E731
    early = [(pc, v) for pc, v in alts if is_chain(v)]
    hr = early[0][1] if early else next((x for x in subterms(value) if is_chain(x)), None)
    if hr is None:
        raise AnalysisError(f"{fn.qual}: expected calls of formulate_helicity_rotation_chain and formulate_wigner_rotation")
    length = ("call", ("builtin", "len"), (("attr", hr, "indices"),), ())
    if len(early) != 1:
        problems.append("no early return of the bare helicity rotations")
    else:
        one = _exactly_one(early[0][0], length)
        if one is None:
            judge.cannot(f"the bare helicity rotations are returned under `{show_pc(early[0][0])[:80]}`, which is no test of the number of rotations")
        elif not one:
            problems.append(f"the bare helicity rotations are returned under `{show_pc(early[0][0])[:80] if early[0][0] else '?'}`, not iff there is exactly one rotation")
    final = [(pc, v) for pc, v in alts if not is_chain(v)]
    wr_calls = list(dict.fromkeys(x for x in subterms(value) if x[0] == "call" and func_name(x) == wigner_q))
    if len(final) != 1 or not (final[0][1][0] == "call" and func_name(final[0][1]) == mul_q):
        problems.append("the general case does not return the product of helicity rotations and Wigner rotation")
    else:
        items = _product_items(final[0][1], mul_q, sx, final[0][0])
        if items is None:
            judge.cannot(f"the factors of the product `{show(final[0][1])[:70]}` are not known one by one")
        elif not (any(is_chain(x) for x in items) and any(x in wr_calls for x in items)):
            problems.append("the product does not contain both the helicity rotations and the Wigner rotation")
        if len(wr_calls) == 1:
            mp = _call_arg(tree, wr_calls[0], wigner_q, "m_prime")
            greek = [x for x in subterms(mp) if x[0] == "sub" and x[1][0] == "global" and x[1][1].endswith("__GREEK_INDEX_NAMES")] if mp is not None else []
            if len(greek) != 1:
                judge.cannot("the Wigner rotation's summation index is not named by one entry of __GREEK_INDEX_NAMES")
            else:
                off = _offset_from(greek[0][2], length)
                if off is None:
                    judge.cannot(f"the Wigner rotation's index name `{show(greek[0])[:60]}` is not chosen by the number of helicity rotations")
                elif off != 0:
                    problems.append("the Wigner rotation's summation index is not the next free index name")
    # both kinds of rotation act on the SAME outer index: the spin-projection symbol of the rotated state.
    # A value that can be None makes formulate_wigner_rotation fall back to the concrete projection of
    # one transition: the D-matrix row is then fixed instead of summed, the rotation no longer unitary.
    def never_none_symbol(v, depth=0) -> bool:
        if v is None or depth > 6:
            return False
        if v[0] == "call" and func_name(v).endswith("create_spin_projection_symbol") and not v[3] and v[2] == (("param", fn.params[1]),):
            return True
        if v[0] == "or":
            return never_none_symbol(v[1][-1], depth + 1)
        if v[0] == "phi":
            return all(never_none_symbol(x, depth + 1) for _, x in v[1])
        return False

    def may_be_none(v, depth=0) -> bool:
        """positive evidence: on some path the value is None, a parameter (callers may pass None / nothing) or a symbol of another state"""
        if v is None or depth > 6:
            return v is None
        if v == NONE or v[0] == "param":
            return True
        if v[0] == "call" and func_name(v).endswith("create_spin_projection_symbol"):
            return v[2] != (("param", fn.params[1]),)
        if v[0] == "or":
            return may_be_none(v[1][-1], depth + 1)
        if v[0] == "phi":
            return any(may_be_none(x, depth + 1) for _, x in v[1])
        return False

    bound = []
    for suffix, q in (("formulate_helicity_rotation_chain", chain_q), ("formulate_wigner_rotation", wigner_q)):
        seen = []
        for c in [x for x in subterms(value) if x[0] == "call" and func_name(x) == q]:
            if c in seen:
                continue
            seen.append(c)
            e = _call_arg(tree, c, q, "helicity_symbol")
            bound.append((suffix, e))
            if e is None and c[3] == () and len(c[2]) == len(tree.func(q).params):
                problems.append(f"{suffix}(...) is called without the outer helicity symbol (falls back to the concrete projection of one transition)")
            elif e is None:
                judge.cannot(f"the call {suffix}(...) could not be bound to its parameters")
            elif not never_none_symbol(e):
                if may_be_none(e):
                    problems.append(f"{suffix}(... helicity_symbol=`{show(e)[:50]}`) is not always create_spin_projection_symbol({fn.params[1]}): it may be None / another symbol")
                else:
                    judge.cannot(f"{suffix}(... helicity_symbol=`{show(e)[:50]}`): not recognised as the spin-projection symbol of the rotated state")
    if len({s_ for s_, _ in bound}) < 2:
        raise AnalysisError(f"{fn.qual}: expected calls of formulate_helicity_rotation_chain and formulate_wigner_rotation")
    if problems or len(judge.undecided) == before:
        judge.decide(not problems, (value,), "R-WIRING", f"{fn.qual}::wigner-iff-nested", tree.loc(fn.node),
                     "formulate_rotation_chain: one helicity rotation -> returned alone; more -> times the Wigner rotation with the next free summation index", problems or None)


def _structure_define_symbols(ctx: Check, tree: Tree, judge: Judge) -> None:
    # (b)
    fn = tree.func(f"{AXA}::AxisAngleAlignment.define_symbols")
    sx, value, _ = _symex(tree, fn.qual, frozenset({"group_by_topology", "get_parent_id", "create_four_momentum_symbols"}))
    value = _flat(value)
    before = len(judge.undecided)
    problems = []
    alts = alternatives(value)
    if len(alts) != 1 or alts[0][1][0] != "dict":
        raise AnalysisError(f"{fn.qual}: the result `{show(value)[:70]}` is not a dictionary that is filled here")
    groups = ("call", ("global", "ampform.helicity.decay::group_by_topology"), (("attr", ("param", fn.params[0]), "transitions"),), ())
    entries = []
    for k, v in alts[0][1][1]:
        eaches, pcs, key = unwrap(k)
        if key[0] == "star" and _is_call(key[1], "compute_wigner_angles"):
            entries.append((eaches, pcs + unwrap(v)[1], key[1]))
        elif key[0] == "star" or calls_of(k, "compute_wigner_angles") or calls_of(v, "compute_wigner_angles"):
            judge.cannot(f"the entry `{show(k)[:60]}` of the returned dictionary")
    if not entries and len(judge.undecided) == before:
        problems.append("the angles returned by compute_wigner_angles are not merged into the returned dictionary")
    for eaches, pcs, call in entries:
        if call[3] or len(call[2]) != 3:
            judge.cannot(f"the call `{show(call)[:60]}` could not be bound")
            continue
        topo, momenta, state = call[2]
        if _all_of(topo, groups) not in {"elements"} or topo not in eaches:
            if _all_of(topo, groups) == "part":
                problems.append("the angles are not defined for all topology groups")
            else:
                judge.cannot(f"the topology `{show(topo)[:50]}` of compute_wigner_angles is not an element of group_by_topology(reaction.transitions)")
            continue
        sel = _selection(sx, eaches, pcs, state)
        if sel is None:
            judge.cannot(f"the rotated states `{show(state)[:60]}` are not a selection of elements")
            continue
        s, conds = sel
        other = [c for t, _ in conds for c in calls_of(t, "get_parent_id") if not c[3] and len(c[2]) == 2 and c[2][1] == s and c[2][0] != topo]
        if other:
            problems.append(f"the rotated states are selected by their parent in `{show(other[0][2][0])[:50]}`, not in the topology the angles are computed for")
            continue
        if s[1] != ("attr", topo, "outgoing_edge_ids"):
            if s[1][0] == "attr" and s[1][1] == topo:
                problems.append(f"the rotated states are taken from `{show(s[1])[:50]}`, not from the final states (outgoing_edge_ids)")
            else:
                judge.cannot(f"the rotated states run over `{show(s[1])[:50]}`")
            continue
        parent = ("call", ("global", "ampform.helicity.decay::get_parent_id"), (topo, s), ())
        want = (("cmp", "==", parent, ("const", -1)), False)
        mine = [c for c in conds if contains_value(c[0], s)]
        if [c for c in conds if c not in mine]:
            problems.append(f"the definition is conditional ({show_pc(tuple(c for c in conds if c not in mine))[:50]})")
        if mine == [want]:
            pass
        elif not mine:
            problems.append("the rotated states are not selected by their parent (get_parent_id): all final states")
        elif len(mine) == 1 and mine[0][0][0] == "cmp" and mine[0][0][2] == parent and is_const(mine[0][0][3]):
            problems.append(f"selection `{show_pc(tuple(mine))[:60]}` is not: final states whose parent is not the initial state")
        else:
            judge.cannot(f"the selection `{show_pc(tuple(mine))[:60]}` of the rotated states")
    if problems or len(judge.undecided) == before:
        judge.decide(not problems, (value,), "R-WIRING", f"{fn.qual}::defines-nested-final-states", tree.loc(fn.node),
                     "AxisAngleAlignment.define_symbols: Wigner angles for every final state whose parent is not the initial state, all merged into the result", problems or None)


def _structure_multiply(ctx: Check, tree: Tree, judge: Judge) -> None:
    # (c)
    fn = tree.func(f"{AXA}::__multiply_pool_sums")
    sx, value, _ = _symex(tree, fn.qual)
    value = _flat(value)
    before = len(judge.undecided)
    problems = []
    seq = ("param", _params(fn)[0])
    alts = alternatives(value)
    if len(alts) != 1 or not (_is_call(alts[0][1], "PoolSum") and alts[0][1][2] and not alts[0][1][3]):
        raise AnalysisError(f"{fn.qual}: does not return one PoolSum(product, *indices): `{show(value)[:70]}`")
    ps = alts[0][1]

    def over_all(item, attr: str, starred: bool) -> str | None:
        """None if `item` is `x.<attr>` (starred: `*x.<attr>`) for EVERY element x of the parameter, else what is wrong ('?...' = not understood)"""
        es, cs, plain = unwrap(item)
        if starred:
            if plain[0] != "star":
                return f"?`{show(item)[:50]}`"
            plain = plain[1]
        if len(es) != 1 or plain != ("attr", es[0], attr):
            if not es and plain[0] == "attr" and plain[2] == attr and plain[1][0] == "sub" and plain[1][1] == seq:
                return f"only `{show(plain)[:40]}` of one factor"
            if len(es) == 1 and plain[0] == "attr" and plain[1] == es[0] and _all_of(es[0], seq) == "elements":
                return f"`.{plain[2]}` instead of `.{attr}` of the factors"
            return f"?`{show(item)[:50]}`"
        kind = _all_of(es[0], seq)
        if kind == "part":
            return f"only a part of the factors (`{show(es[0][1])[:40]}`)"
        if kind != "elements":
            return f"?`{show(es[0][1])[:50]}`"
        if cs:
            return f"only under `{show_pc(cs)[:50]}`"
        return None

    facs = factors(ps[2][0], sx)
    facs = [f for f in facs if as_number(f) != 1]
    bad = [over_all(f, "expression", False) for f in facs]
    if len(facs) != 1 or bad[0]:
        if facs and all(b is not None and not b.startswith("?") for b in bad):
            problems.append("the summand is not the product of the summands of all factors: " + "; ".join(b for b in bad if b))
        elif not facs:
            problems.append("the summand is not the product of the summands of all factors")
        else:
            judge.cannot(f"the summand `{show(ps[2][0])[:70]}` of __multiply_pool_sums")
    idx = ps[2][1:]
    bad = [over_all(x, "indices", True) for x in idx]
    if len(idx) != 1 or bad[0]:
        if not idx:
            problems.append("the index lists of all factors are not concatenated unconditionally: the PoolSum has no indices")
        elif all(b is not None and not b.startswith("?") for b in bad):
            problems.append("the index lists of all factors are not concatenated unconditionally: " + "; ".join(b for b in bad if b))
        else:
            judge.cannot(f"the indices `{', '.join(show(x)[:50] for x in idx)}` of __multiply_pool_sums")
    if problems or len(judge.undecided) == before:
        judge.decide(not problems, (value,), "R-WIRING", f"{fn.qual}::product-of-sums", tree.loc(fn.node), "__multiply_pool_sums: PoolSum(product of all summands, *indices of all factors)", problems or None)


def _structure_all_final_states(ctx: Check, tree: Tree, judge: Judge) -> None:
    # (e) the complete alignment = neutral element times the rotation chain of EVERY final state
    fn = tree.func(f"{AXA}::formulate_axis_angle_alignment")
    mul_q = f"{AXA}::__multiply_pool_sums"
    sx, value, _ = _symex(tree, fn.qual, frozenset({"formulate_rotation_chain", "__multiply_pool_sums"}))
    value = _flat(value)
    before = len(judge.undecided)
    problems = []
    alts = alternatives(value)
    if len(alts) != 1:
        raise AnalysisError(f"{fn.qual}: the result depends on conditions: `{show(value)[:70]}`")
    whole = alts[0][1]
    if whole[0] == "fold" and not contains_value(whole[3], whole[4]) and not_followed(whole[3], AXA_KNOWN) is None:
        judge.decide(False, (value,), "R-WIRING", f"{fn.qual}::all-final-states", tree.loc(fn.node), "formulate_axis_angle_alignment = PoolSum(1) x rotation chain of every final state",
                     ["the accumulator is not multiplied by formulate_rotation_chain(transition, state) for every final state: every step discards the product so far"])
        return
    items = _product_items(whole, mul_q, sx)
    if items is None:
        raise AnalysisError(f"{fn.qual}: the result `{show(value)[:80]}` is not a product of pool sums whose factors are known")
    transition = ("param", fn.params[0])
    finals = ("attr", transition, "final_states")
    chains = 0
    for x in items:
        es, cs, plain = unwrap(x)
        if _is_call(plain, "PoolSum") and not es and not cs:
            n = as_number(plain[2][0]) if len(plain[2]) == 1 and not plain[3] else None
            if n is None:
                judge.cannot(f"the factor `{show(plain)[:50]}`")
            elif n != 1:
                problems.append(f"the product does not start from the neutral element PoolSum(1) ({show(plain)[:30]})")
        elif _is_call(plain, "formulate_rotation_chain"):
            chains += 1
            if plain[3] or len(plain[2]) != 2:
                judge.cannot(f"the call `{show(plain)[:60]}` could not be bound")
                continue
            kind = _all_of(plain[2][1], finals) if len(es) == 1 and plain[2][1] == es[0] else None
            if plain[2][0] != transition or kind is None:
                if not es and _leaf(plain[2][1]):
                    problems.append(f"the rotation chain of the single state `{show(plain[2][1])[:30]}` instead of every final state")
                else:
                    judge.cannot(f"the rotation chains `{show(x)[:70]}` are not formulated for the elements of transition.final_states")
            elif kind != "elements":
                problems.append("the accumulator is not multiplied by formulate_rotation_chain(transition, state) for every final state")
            if cs:
                problems.append(f"the accumulation is conditional ({show_pc(cs)[:50]})")
        else:
            judge.cannot(f"the factor `{show(plain)[:60]}` of the alignment product")
    if not chains and len(judge.undecided) == before:
        problems.append("the accumulator is not multiplied by formulate_rotation_chain(transition, state) for every final state")
    if problems or len(judge.undecided) == before:
        judge.decide(not problems, (value,), "R-WIRING", f"{fn.qual}::all-final-states", tree.loc(fn.node), "formulate_axis_angle_alignment = PoolSum(1) x rotation chain of every final state", problems or None)


def _structure_wigner_rotation(ctx: Check, tree: Tree, judge: Judge) -> None:
    # (f) the Wigner rotation acts on the helicity symbol that is handed in and uses (alpha, beta, gamma) of that state;
    #     judged on the value of every argument on every path (sa/symex.py): an if/else assignment, a conditional
    #     expression in the call and a temporary are the same thing
    mod = AXA
    fn = tree.func(f"{mod}::formulate_wigner_rotation")
    rot_q = f"{mod}::formulate_helicity_rotation"
    sx, value, _ = _symex(tree, fn.qual, frozenset({rot_q}))
    before = len(judge.undecided)
    problems = []
    calls = []
    for x in subterms(value):
        if x[0] == "call" and func_name(x) == rot_q and x not in calls:
            calls.append(x)
    if not calls:
        raise AnalysisError(f"{fn.qual}: expected one call of formulate_helicity_rotation")
    for c_ in calls:
        _require_known(fn.qual, c_)
    if "helicity_symbol" not in fn.params or "m_prime" not in fn.params:
        raise AnalysisError(f"{fn.qual}: parameters helicity_symbol / m_prime not found")
    sym = ("param", "helicity_symbol")
    none_given = ("cmp", "is", sym, NONE)
    # every path returns ONE rotation: `return f(.., k=a if c else b)`, `if c: return f(.., k=a) / return f(.., k=b)` and a
    # temporary are the same thing - the cases are (path condition of the return + conditions inside the call, call)
    seen_cases = []
    for pc0, v0 in alternatives(value):
        here = [x for x in subterms(v0) if x[0] == "call" and func_name(x) == rot_q]
        here = [x for i, x in enumerate(here) if x not in here[:i]]
        if len(here) != 1:
            raise AnalysisError(f"{fn.qual}: expected one call of formulate_helicity_rotation on every path (found {len(here)} under `{show_pc(pc0)[:50]}`)")
        seen_cases += [((*pc0, *pc1), c1) for pc1, c1 in cases(here[0])]
    for pc, c in seen_cases:
        v = _call_arg(tree, c, rot_q, "spin_projection")
        if v is None:
            judge.cannot("the call of formulate_helicity_rotation could not be bound (spin_projection)")
            break
        fallback = (none_given, True) in pc
        if (fallback and v[0] == "attr" and v[2] == "spin_projection") or (not fallback and v == sym):
            continue
        if _leaf(v) or v[0] == "call":
            problems.append("spin_projection is not the helicity symbol that was handed in (state.spin_projection only when none is given)")
        else:
            judge.cannot(f"spin_projection = `{show(v)[:50]}`")
        break
    first = seen_cases[0][1]
    suffix_calls = set()
    for ang in ("alpha", "beta", "gamma"):
        v = _call_arg(tree, first, rot_q, ang)
        name = v[2][0] if v is not None and v[0] == "call" and func_name(v) == "sympy.Symbol" and len(v[2]) == 1 else None
        if name is None:
            if v is not None and (_leaf(v) or as_number(v) is not None):
                problems.append(f"{ang} is `{show(v)[:40]}`, not Symbol('{ang}' + helicity suffix, real=True)")
            else:
                judge.cannot(f"{ang} = `{show(v)[:50] if v is not None else '?'}` is not built with sp.Symbol(...)")
            continue
        ok_a = name[0] == "fstr" and name[1][0] == ("const", ang) and len(name[1]) == 2 and ("real", ("const", True)) in v[3]
        if ok_a:
            suffix_calls.add(name[1][1])
        elif (name[0] == "fstr" and is_const(name[1][0], str)) or is_const(name, str):
            problems.append(f"{ang} is `{show(v)[:40]}`, not Symbol('{ang}' + helicity suffix, real=True)")
        else:
            judge.cannot(f"the name `{show(name)[:50]}` of the angle {ang}")
    if len(suffix_calls) > 1:
        problems.append("alpha, beta and gamma do not carry the same suffix")
    mp = _call_arg(tree, first, rot_q, "m_prime")
    if mp != ("param", "m_prime"):
        if mp is None or _leaf(mp):
            problems.append("m_prime is not passed on")
        else:
            judge.cannot(f"m_prime = `{show(mp)[:50]}`")
    nz = _call_arg(tree, first, rot_q, "no_zero_spin")
    if nz is None or not any(x[0] == "cmp" and x[1] == "==" and x[2][0] == "attr" and x[2][2] == "mass" and as_number(x[3]) == 0 for x in subterms(nz)):
        if nz is None or _leaf(nz) or nz[0] == "cmp":
            problems.append("no_zero_spin is not `mass == 0` of the rotated state")
        else:
            judge.cannot(f"no_zero_spin = `{show(nz)[:50]}`")
    if problems or len(judge.undecided) == before:
        judge.decide(not problems, (calls[0],), "R-WIRING", f"{fn.qual}::arguments", tree.loc(fn.node), "formulate_wigner_rotation: D^s_{m', m}(alpha, beta, gamma) with m = the helicity symbol handed in, the state's own (alpha, beta, gamma) symbols and m'", problems or None)


def _structure_wigner_d(ctx: Check, tree: Tree, judge: Judge) -> None:
    # (g) the Euler rotation: D(j = s, m = projection, mp = m', alpha, beta, gamma) summed over m' in the spin range
    fn = tree.func(ROTATION)
    sx, value, _ = _symex(tree, ROTATION, frozenset({"create_spin_range"}))
    before = len(judge.undecided)
    dcalls = list(dict.fromkeys(c for c in subterms(value) if c[0] == "call" and func_name(c).split(".")[-1] == "D" and "Rotation" in func_name(c)))
    problems = []
    if len(dcalls) != 1:
        raise AnalysisError(f"{fn.qual}: expected one Wigner.D call")
    names = ["j", "m", "mp", "alpha", "beta", "gamma"]
    if any(a[0] == "star" for a in dcalls[0][2]) or any(k not in names for k, _ in dcalls[0][3]):
        raise AnalysisError(f"{fn.qual}: the arguments of Wigner.D could not be bound")
    got = {**dict(zip(names, dcalls[0][2])), **dict(dcalls[0][3])}
    want = {"j": "spin_magnitude", "m": "spin_projection", "mp": "m_prime", "alpha": "alpha", "beta": "beta", "gamma": "gamma"}
    for k_, w in want.items():
        if w not in fn.params:
            raise AnalysisError(f"{fn.qual}: parameter {w} not found")
        v = got.get(k_)
        core = _core(v) if v is not None else None
        if core == ("param", w):
            continue  # the parameter itself, possibly through a numeric conversion (`__rationalize`, `sp.sympify`)
        if v is None or (core is not None and (core[0] == "param" or as_number(core) is not None)):
            problems.append(f"D(..., {k_}={show(v)[:30] if v is not None else None}) instead of {w}")
        else:
            judge.cannot(f"Wigner.D(..., {k_}=`{show(v)[:50]}`)")
    if problems or len(judge.undecided) == before:
        judge.decide(not problems, (dcalls[0],), "R-WIRING", f"{fn.qual}::wigner-d-arguments", tree.loc(fn.node), "formulate_helicity_rotation: Wigner.D(j = spin, m = projection, mp = m', alpha, beta, gamma)", problems or None)


def _structure_sign(ctx: Check, tree: Tree, judge: Judge) -> None:
    # (d) decided on the decision table of the function: guard clauses, De Morgan, swapped branches, a conditional
    #     expression give the same table
    fn = tree.func(f"{AXA}::get_opposite_helicity_sign")
    sx, value, _ = _symex(tree, fn.qual, frozenset({"is_opposite_helicity_state"}))
    _require_known(fn.qual, value)
    atoms, table = decision_table(value)
    topo, state = ("param", fn.params[0]), ("param", fn.params[1])
    opp = [a for a in atoms if _is_call(a, "is_opposite_helicity_state") and not a[3] and a[2] == (topo, state)]
    init = [a for a in atoms if a[0] == "cmp" and a[1] == "==" and {a[2], a[3]} == {state, ("const", -1)}]
    rest = [a for a in atoms if a not in opp and a not in init]
    if rest or len(opp) != 1 or any(as_number(v) not in {1, -1} for v in table.values() if v is not None) or None in table.values():
        if not rest and not opp and all(as_number(v) is not None for v in table.values()):
            ctx.verdict(False, "R-WIRING", f"{fn.qual}::sign", tree.loc(fn.node), "get_opposite_helicity_sign: -1 iff the state is the opposite-helicity state (and not the initial state), else +1",
                        "the sign does not depend on is_opposite_helicity_state(topology, state_id)")
            return
        judge.cannot(f"{fn.qual}: the sign depends on `{show(rest[0])[:60] if rest else show(value)[:60]}`")
        return
    ok_d = True
    for bits, v in table.items():
        env = dict(zip(atoms, bits))
        is_init = bool(init) and env[init[0]]
        want = -1 if (env[opp[0]] and not is_init) else 1
        if is_init and not env[opp[0]]:
            want = 1
        ok_d = ok_d and as_number(v) == want
    ctx.verdict(ok_d, "R-WIRING", f"{fn.qual}::sign", tree.loc(fn.node), "get_opposite_helicity_sign: -1 iff the state is the opposite-helicity state (and not the initial state), else +1",
                None if ok_d else {show_pc(tuple(zip(atoms, bits)))[:80]: show(v) for bits, v in table.items()})


@_failclosed
def check_dpd_generator(ctx: Check, tree: Tree) -> None:
    """R-WIRING (DPD): every Wigner-d rotation is 1 only for spin 0, otherwise
    Wigner.d(j, m, m', zeta) with zeta = formulate_zeta_angle(rotated state, spectator of the term's topology,
    THIS alignment's reference subsystem), and the definition of every zeta it uses is registered in the
    definitions that are handed out; the alignment hands out component 0 as amplitude and component 1 as symbol
    definitions; the relabelling shifts every edge id by one (-1..3 -> 0..4).
    Judged on what _formulate_aligned_amplitude computes with everything of its module inlined (sa/symex.py): whether
    the rotations come from a generator class, an attrs class, a closure or a function bound with functools.partial,
    and how the definitions are collected, does not matter."""
    mod = "ampform.helicity.align.dpd"
    model = _dpd_model(tree)
    fn, sx = model["fn"], model["sx"]
    judge = Judge(ctx, "check_dpd_generator", DPD_KNOWN)
    if sx.imprecise:
        raise AnalysisError(f"{fn.qual}: symbolic execution incomplete: {sx.imprecise[0]}")
    problems = []
    entries = _registered(model, judge)
    seen = []
    values = []
    where = None
    for t in _dpd_terms(model):
        topo = t["bases"][0][1][2][0] if len(t["bases"]) == 1 and t["bases"][0][1][2] else None
        for r in t["rotations"]:
            if r["factor"] in seen:
                continue
            seen.append(r["factor"])
            values.append(r["factor"])
            where = where or _node_of(model, r["d"][0][1], fn.node)
            if r["shape"]:
                judge.cannot(f"rotation factor `{show(r['factor'])[:80]}`: {r['shape']}")
                continue
            problems += [p for p in r["problems"] if p not in problems]
            if r.get("zcall") is None:
                problems.append(f"zeta `{show(r['beta'])[:50]}` is not the symbol returned by formulate_zeta_angle")
                continue
            ref = ("param", model["reference"])
            spect = [c for c in calls_of(r["aligned"], "get_spectator_id")]
            if not spect or (topo is not None and not any(c[2] == (topo,) and not c[3] for c in spect)):
                if r["aligned"] == ref or calls_of(r["reference"], "get_spectator_id"):
                    problems.append(f"formulate_zeta_angle({', '.join(show(a)[:40] for a in r['zcall'][2])}) is not (rotated state, spectator of the topology, reference subsystem)")
                else:
                    judge.cannot(f"the aligned subsystem `{show(r['aligned'])[:50]}` of a zeta angle is not get_spectator_id(<topology of the term>)")
            if entries is not None:
                mine = [(k, v, c) for k, v, c in entries if k == r["beta"]]
                want = {("item", r["zcall"], 1), ("sub", r["zcall"], ("const", 1))}
                if not mine:
                    problems.append(f"the definition of `{show(r['beta'])[:60]}` is not registered in the angle definitions that are handed out")
                elif not any(v in want and all(x in r["general_pc"] or x in t["pcs"] for x in c) for k, v, c in mine):
                    problems.append(f"`{show(r['beta'])[:50]}` is registered as `{show(mine[0][1])[:50]}` under `{show_pc(mine[0][2])[:50]}`, not as the expression returned with it on the general path")
    if not seen:
        raise AnalysisError(f"{fn.qual}: no Wigner-d rotation reaches the summand")
    judge.decide(not problems, values + [model["defs"]], "R-WIRING", f"{DPD_GEN}::generator", tree.loc(where or fn.node),
                 "DPD Wigner-d generator: 1 iff j == 0, else Wigner.d(j, m, m', zeta(rotated state, aligned subsystem, own reference)) with zeta's definition registered", problems or None)
    # components of the memoised pair: x[k] and `a, b = x` (k-th unpacked name) read the same component of the returned pair
    al = tree.cls(f"{mod}::DalitzPlotDecomposition")
    comp, vals = {}, []
    for name in ("formulate_amplitude", "define_symbols"):
        m = al.methods.get(name)
        comp[name] = None
        if m is None:
            raise AnalysisError(f"vanished anchor: {al.qual}.{name}")
        msx, mval, _ = _symex(tree, m.qual)
        vals.append(mval)
        own_ref = ("attr", ("param", m.params[0]), "reference_subsystem")
        found = set()
        for pc, val in alternatives(mval):
            for x in subterms(val):
                c = x[1] if x[0] in {"sub", "item", "attr"} else None
                if c is not None and c[0] == "call" and func_name(c) == DPD_FN:
                    if x[0] == "attr":
                        if not (model["fields"] and x[2] in model["fields"]):
                            continue
                        k = model["fields"].index(x[2])
                    else:
                        k = x[2] if x[0] == "item" else x[2][1] if is_const(x[2], int) else None
                    got = dict(zip(_params(fn), c[2])) if not c[3] and len(c[2]) == len(_params(fn)) else {}
                    found.add((k, got.get(model["reaction"]) == ("param", m.params[1]) and got.get(model["reference"]) == own_ref))
        if len(found) == 1:
            comp[name] = next(iter(found))
        elif not found:
            # not through the memoised function: zeta angles formulated here must still be those of the own reference subsystem
            zs = [c for e in msx.events if e[0] == "store" for c in calls_of(e[2], ZETA_Q) + calls_of(e[3], ZETA_Q)] + calls_of(mval, ZETA_Q)
            wrong = sorted({show(c[2][2])[:40] for c in zs if not c[3] and len(c[2]) == 3 and c[2][2] != own_ref})
            if wrong and not not_followed(("tuple", tuple(c[2][2] for c in zs)), DPD_KNOWN):
                comp[name] = ("zeta angles for reference subsystem " + ", ".join(wrong), False)
            else:
                judge.cannot(f"{m.qual} does not read a component of _formulate_aligned_amplitude(...)")
    if not judge.undecided or all(comp.values()):
        ok = comp["formulate_amplitude"] == (0, True) and comp["define_symbols"] == (1, True)
        judge.decide(ok, vals, "R-WIRING", f"{al.qual}::components", tree.loc(al.node), "DalitzPlotDecomposition: amplitude = component 0, symbol definitions = component 1 of _formulate_aligned_amplitude(reaction, own reference subsystem)",
                     None if ok else {k: list(v) if v else None for k, v in comp.items()})
    # relabelling -1..3 -> 0..4
    rel = tree.func(f"{mod}::__get_default_relabel_mapping")
    _, rval, _ = _symex(tree, rel.qual)
    table = None
    if rval[0] == "dict" and all(is_const(k, int) and is_const(v, int) for k, v in rval[1]):
        table = {k[1]: v[1] for k, v in rval[1]}
    if table is None:
        judge.cannot(f"{rel.qual}: the relabelling `{show(rval)[:60]}` is not a table of literal ids")
    else:
        ctx.verdict(table == {-1: 0, 0: 1, 1: 2, 2: 3, 3: 4}, "R-WIRING", f"{rel.qual}::shift-by-one", tree.loc(rel.node), "DPD relabelling maps the edge ids -1, 0, 1, 2, 3 to 0, 1, 2, 3, 4 (initial state 0, final states 1..3, resonance 4)",
                    None if table == {-1: 0, 0: 1, 1: 2, 2: 3, 3: 4} else table)
    judge.finish()


def _seq_ops(v):
    """A sequence expression as (source sequence, reversed?, [removed elements]): `list(reversed(xs))`, `xs[::-1]`,
    `xs.reverse()`, `xs.remove(a)` and `[x for x in xs if x != a]` in any order and nesting.  None if not of that kind."""
    rev, removed = False, []
    for _ in range(12):
        if v[0] == "seqop" and v[1] == "reverse":
            rev, v = not rev, v[2]
        elif v[0] == "seqop" and v[1] == "remove":
            removed.append(v[3][0])
            v = v[2]
        elif v[0] == "call" and v[1][0] == "builtin" and v[1][1] in {"list", "tuple"} and len(v[2]) == 1 and not v[3]:
            v = v[2][0]
        elif v[0] == "call" and v[1] == ("builtin", "reversed") and len(v[2]) == 1 and not v[3]:
            rev, v = not rev, v[2][0]
        elif v[0] == "sub" and v[2] == ("slice", NONE, NONE, ("const", -1)):
            rev, v = not rev, v[1]
        elif v[0] in {"list", "tuple"} and len(v[1]) == 1 and v[1][0][0] == "foreach":
            es, cs, elem = unwrap(v[1][0])
            if len(es) != 1 or elem != es[0]:
                return None
            for t, outcome in cs:
                if t[0] == "cmp" and t[1] == "==" and not outcome and es[0] in (t[2], t[3]):
                    removed.append(t[3] if t[2] == es[0] else t[2])
                else:
                    return None
            v = es[0][1]
        else:
            break
    return v, rev, removed


@_failclosed
def check_wigner_rotation_matrix(ctx: Check, tree: Tree) -> None:
    """R-WIRING (Wigner rotation, Marangotto 2019 Eq. 36): the rotation matrix of a final state is
    B(-p) . B_n ... B_1, the inverse of the direct boost times the chain of boosts from the first
    resonance down to the state, where B_k = BoostMatrix(momentum of the k-th chain member in the frame
    reached so far) and EVERY boost is applied to all momenta that are still needed and is collected.
    Judged on the values of sa/symex.py (factors collected in a list and unpacked, the pool of momenta kept in a dict
    keyed by state id or in a list parallel to the chain, the chain reversed in place or by `reversed` are the same)."""
    known = ("compute_boost_chain", "__get_boost_chain_ids", "get_four_momentum_sum", "list_decay_chain_ids", "BoostMatrix", "NegativeMomentum",
             "MatrixMultiplication", "ArrayMultiplication")
    judge = Judge(ctx, "check_wigner_rotation_matrix", known)
    # 1. inverse of the direct boost times the chain
    fn = tree.func("ampform.kinematics.angles::compute_wigner_rotation_matrix")
    sx, value, _ = _symex(tree, fn.qual, frozenset({"compute_boost_chain"}))
    topo, momenta, state = (("param", p) for p in fn.params[:3])
    problems = []
    before = len(judge.undecided)
    alts = alternatives(value)
    if len(alts) != 1 or not (_is_call(alts[0][1], "MatrixMultiplication") and not alts[0][1][3]):
        if len(alts) == 1 and alts[0][1][0] == "call" and not_followed(value, known) is None:
            problems.append("does not return a MatrixMultiplication")
        else:
            judge.cannot(f"{fn.qual}: the result `{show(value)[:60]}` is not one MatrixMultiplication(...)")
    else:
        args = alts[0][1][2]
        direct = ("call", ("global", "ampform.kinematics.lorentz::BoostMatrix"), (("call", ("global", "ampform.kinematics.lorentz::NegativeMomentum"), (("sub", momenta, state),), ()),), ())
        chain = ("star", ("call", ("global", "ampform.kinematics.lorentz::compute_boost_chain"), (topo, momenta, state), ()))
        if args != (direct, chain):
            simple = all(a == direct or a == chain or (_is_call(a, "BoostMatrix") and _leaf_tree(a)) or (a[0] == "star" and _is_call(a[1], "compute_boost_chain") and _leaf_tree(a[1])) for a in args)
            if not simple:
                judge.cannot(f"{fn.qual}: the factors `{', '.join(show(a)[:50] for a in args)}` of the matrix product")
            else:
                if not args or args[0] != direct:
                    problems.append("the first factor is not BoostMatrix(NegativeMomentum(momenta[state_id])) - the inverse of the direct boost")
                if len(args) != 2 or args[-1] != chain:
                    problems.append("the remaining factors are not *compute_boost_chain(topology, momenta, state_id), in chain order")
    if problems or len(judge.undecided) == before:
        judge.decide(not problems, (value,), "R-WIRING", f"{fn.qual}::inverse-direct-boost-times-chain", tree.loc(fn.node),
                     "Wigner rotation matrix = BoostMatrix(-p_state) . *compute_boost_chain(topology, momenta, state)", problems or None)
    # 2. the chain of boosts: by its generic step; if the spelling of the loop is not one the rule can read (a queue that
    #    is consumed, a recursion, a generator ...), by its value on small concrete chains
    sub = Judge(ctx, "check_wigner_rotation_matrix", known)
    n_before = len(ctx.instances)
    try:
        _boost_chain(ctx, tree, sub, known)
        sub.finish()
    except AnalysisError as exc:
        try:
            _boost_chain_on_instances(ctx, tree, known)
        except AnalysisError as exc2:
            judge.cannot(f"{exc}; on concrete chains: {exc2}")
    else:
        _confirm_on_instances(ctx, n_before, lambda probe: _boost_chain_on_instances(probe, tree, known), judge, "compute_boost_chain")
    # 3. its order
    ids = tree.func("ampform.kinematics.lorentz::__get_boost_chain_ids")
    sx, value, _ = _symex(tree, ids.qual, frozenset({"list_decay_chain_ids"}))
    topo, state = ("param", ids.params[0]), ("param", ids.params[1])
    before = len(judge.undecided)
    alts = alternatives(value)
    parsed = _seq_ops(alts[0][1]) if len(alts) == 1 else None
    what = "the boost chain runs from the first resonance down to the state (reversed decay chain without the initial state)"
    own = {("param", p_) for p_ in _params(ids)}
    if parsed is not None and _is_call(parsed[0], "list_decay_chain_ids") and not parsed[0][3] and len(parsed[0][2]) == 2 and set(parsed[0][2]) == own and len(own) == 2:
        topo, state = parsed[0][2]  # the roles of the private helper's two parameters: (topology, state) of the public function it calls
    if parsed is None or not (_is_call(parsed[0], "list_decay_chain_ids") and parsed[0][2] == (topo, state) and not parsed[0][3]):
        try:
            _boost_ids_on_instances(ctx, tree, ids, what, known)
        except AnalysisError as exc:
            judge.cannot(f"{ids.qual}: the result `{show(value)[:70]}` is not list_decay_chain_ids(topology, state_id), reversed, without some elements; {exc}")
    else:
        _, rev, removed = parsed
        incoming = ("attr", topo, "incoming_edge_ids")
        odd = [r for r in removed if not contains_value(r, incoming)]
        problems = []
        if not rev:
            problems.append("the decay chain is not reversed: it runs from the state up to the first resonance")
        if not removed:
            problems.append("the initial state is not removed from the chain")
        if odd:
            if all(_leaf_tree(r) for r in odd):
                problems.append(f"`{show(odd[0])[:40]}` is removed from the chain, not the initial state (topology.incoming_edge_ids)")
            else:
                judge.cannot(f"{ids.qual}: the removed element `{show(odd[0])[:50]}`")
        if len(removed) > 1 and not odd:
            judge.cannot(f"{ids.qual}: {len(removed)} elements are removed from the chain")
        if problems or len(judge.undecided) == before:
            n_before = len(ctx.instances)
            judge.decide(not problems, (value,), "R-WIRING", f"{ids.qual}::order", tree.loc(ids.node), what, problems or None)
            _confirm_on_instances(ctx, n_before, lambda probe: _boost_ids_on_instances(probe, tree, ids, what, known), judge, "__get_boost_chain_ids")
    judge.finish()


def _confirm_on_instances(ctx: Check, n_before: int, evaluate, judge: Judge, who: str) -> None:
    """A violation that was found by reading the generic step of a loop is confirmed by the evaluation on small concrete
    instances (which does not depend on the spelling).  If the instances are all right, the two analyses disagree: the
    violation is withdrawn and the rule says "cannot decide"."""
    mine = [i for i in ctx.instances[n_before:] if i.verdict == "violation"]
    if not mine:
        return
    probe = Check(ctx.pid, quiet=True, write=False)
    try:
        evaluate(probe)
    except AnalysisError:
        return
    if not any(i.verdict in {"violation", "known"} for i in probe.instances):
        for i in mine:
            ctx.instances.remove(i)
        judge.cannot(f"{who}: the generic step looks wrong ({str(mine[0].detail)[:100]}) but the result is right on small concrete instances")


def _boost_ids_on_instances(ctx: Check, tree: Tree, ids: FuncInfo, what: str, known: tuple) -> None:
    """__get_boost_chain_ids evaluated on concrete decay chains [state, r1, ..., initial] (list_decay_chain_ids walks up to
    the incoming edge - the recorded invariant - and `topology.incoming_edge_ids` is that one edge): the result must be the
    chain without the initial state, from the first resonance down to the state."""
    wrong = []
    for n in range(1, 5):
        chain = tuple(("sym", f"state{k}") for k in range(n))  # state0 = the state itself ... state(n-1) = the initial state
        stubs = {}
        params = [("param", p) for p in _params(ids)]
        for a in params:
            for b in params:
                if a != b:
                    stubs[("call", ("global", "ampform.helicity.decay::list_decay_chain_ids"), (a, b), ())] = ("list", chain)
            stubs[("attr", a, "incoming_edge_ids")] = ("set", (chain[-1],))
        sx = SymEx(tree, atoms=frozenset({"list_decay_chain_ids"}), stubs=stubs, unroll=8)
        try:
            value, _ = sx.run(ids)
        except AnalysisError:
            raise
        except Exception as exc:  # noqa: BLE001
            raise AnalysisError(f"symbolic execution on a chain of {n} states failed ({exc!r})") from exc
        got = sx.as_items(value) if isinstance(value, tuple) else None
        if got is None or any(x[0] != "sym" for x in got) or sx.imprecise:
            raise AnalysisError(f"the value on the chain {[c[1] for c in chain]} is `{show(value)[:60]}`" + (f" ({sx.imprecise[0]})" if sx.imprecise else ""))
        want = list(reversed(chain[:-1]))
        if list(got) != want:
            wrong.append({"decay chain (state ... initial state)": [c[1] for c in chain], "result": [x[1] for x in got], "expected": [x[1] for x in want]})
    ctx.verdict(not wrong, "R-WIRING", f"{ids.qual}::order", tree.loc(ids.node), what + " (decided on concrete chains of 1-4 states)", wrong[:1] or None)


def _leaf_tree(v) -> bool:
    """Only calls of library / known constructors on plain operands (parameters, literals, attribute chains)."""
    if v[0] == "call":
        return all(_leaf_tree(a) for a in v[2]) and all(_leaf_tree(x) for _, x in v[3])
    if v[0] in {"star", "unop"}:
        return _leaf_tree(v[-1])
    return _leaf(v)


def _boost_chain_on_instances(ctx: Check, tree: Tree, known: tuple) -> None:
    """compute_boost_chain evaluated (sa/symex.py, stubs + unroll) on concrete chains of 0..3 distinct state ids a, b, c:
    the result must be  [B1, B2, B3]  with  B1 = BoostMatrix(P(a)),  B2 = BoostMatrix(B1 . P(b)),
    B3 = BoostMatrix(B2 . B1 . P(c))  and P(i) = get_four_momentum_sum(topology, momenta, i) - whatever loop, recursion,
    queue or generator computes it, and whether momenta that are no longer needed are still boosted or not."""
    ch = tree.func("ampform.kinematics.lorentz::compute_boost_chain")
    topo, momenta, state = (("param", p) for p in ch.params[:3])
    key = f"{ch.qual}::chain"
    what = "compute_boost_chain: for every chain member, in order: boost = BoostMatrix(its momentum in the current frame), all pooled momenta boosted, boost collected"
    ids_q = "ampform.kinematics.lorentz::__get_boost_chain_ids"
    ids_fn = tree.func(ids_q)
    order = [topo if p == ids_fn.params[0] else state for p in ids_fn.params] if len(ids_fn.params) == 2 else [topo, state]
    P = lambda i: ("call", ("global", "ampform.kinematics.lorentz::get_four_momentum_sum"), (topo, momenta, i), ())  # noqa: E731, N806
    B = lambda p_: ("call", ("global", "ampform.kinematics.lorentz::BoostMatrix"), (p_,), ())  # noqa: E731, N806
    AM = lambda b, p_: ("call", ("global", "ampform.sympy._array_expressions::ArrayMultiplication"), (b, p_), ())  # noqa: E731, N806
    wrong = []
    for n in range(4):
        chain = tuple(("sym", f"state{k}") for k in range(n))
        stubs = {}
        for args in ((topo, state), (state, topo), tuple(order)):
            stubs[("call", ("global", ids_q), args, ())] = ("list", chain)
        sx = SymEx(tree, atoms=frozenset({"__get_boost_chain_ids", "get_four_momentum_sum"}), stubs=stubs, unroll=8)
        try:
            value, _ = sx.run(ch)
        except AnalysisError:
            raise
        except Exception as exc:  # noqa: BLE001
            raise AnalysisError(f"{ch.qual}: symbolic execution on a chain of {n} states failed ({exc!r})") from exc
        want, boosts = [], []
        for i in chain:
            p_ = P(i)
            for b in boosts:
                p_ = AM(b, p_)
            boosts.append(B(p_))
            want.append(boosts[-1])
        got = sx.as_items(value) if isinstance(value, tuple) else None
        if got is None or any(unwrap(x)[2] is not x for x in got) or not_followed(value, known) is not None or sx.imprecise:
            raise AnalysisError(f"{ch.qual}: the value on a chain of {n} states is `{show(value)[:70]}`" + (f" ({sx.imprecise[0]})" if sx.imprecise else ""))
        if list(got) != want:
            wrong.append({"chain": [c[1] for c in chain], "result": [show(x)[:160] for x in got], "expected": [show(x)[:160] for x in want]})
    ctx.verdict(not wrong, "R-WIRING", key, tree.loc(ch.node), what + " (decided on concrete chains of 0-3 states)", wrong[:1] or None)


def _boost_chain(ctx: Check, tree: Tree, judge: Judge, known: tuple) -> None:
    ch = tree.func("ampform.kinematics.lorentz::compute_boost_chain")
    sx, value, _ = _symex(tree, ch.qual, frozenset({"__get_boost_chain_ids", "get_four_momentum_sum"}))
    before = len(judge.undecided)
    topo, momenta, state = (("param", p) for p in ch.params[:3])
    ids = ("call", ("global", "ampform.kinematics.lorentz::__get_boost_chain_ids"), (topo, state), ())
    # the private helper may have its parameters in another order: what counts is that it gets this topology and this state
    seen_ids = [c for v_ in [value, *[x for info_ in sx.loops.values() for x in info_.init.values()]] for c in calls_of(v_, "__get_boost_chain_ids") if not c[3] and set(c[2]) == {topo, state}]
    if seen_ids:
        ids = seen_ids[0]
    key = f"{ch.qual}::chain"
    what = "compute_boost_chain: for every chain member, in order: boost = BoostMatrix(its momentum in the current frame), all pooled momenta boosted, boost collected"
    alts = alternatives(value)
    items = sx.as_items(alts[0][1]) if len(alts) == 1 else None
    if items is None or len(items) != 1 or items[0][0] != "foreach":
        raise AnalysisError(f"{ch.qual}: the result `{show(value)[:70]}` is not a list with one boost per step of one loop")
    es, cs, boost = unwrap(items[0])
    loops = [info for info in sx.loops.values() if info.kind == "foreach" and info.each in es]
    if len(es) == 1 and not loops and _is_call(boost, "BoostMatrix") and not_followed(boost, known) is None and _all_of(es[0], ids) is not None:
        # a comprehension: every boost is computed from values that exist before the first boost
        judge.decide(False, (value,), "R-WIRING", key, tree.loc(ch.node), what,
                     ["the collected matrix is not BoostMatrix(current momentum of the loop's state): it does not depend on the boosts made so far",
                      "the momenta are not all transformed by the boost of this step before the next step"])
        return
    if len(es) != 1 or len(loops) != 1:
        raise AnalysisError(f"{ch.qual}: expected `for state in chain: ...; return <list>`")
    info, each = loops[0], es[0]
    problems = []
    # what the loop runs over: the chain ids / the positions of the chain
    it = each[1]
    length = ("call", ("builtin", "len"), (ids,), ())
    if _all_of(each, ids) == "elements":
        mode, index = "id", each
    elif it == ("call", ("builtin", "range"), (length,), ()):
        mode, index = "position", each
    elif _all_of(each, ids) == "enumerate":
        mode, index = "enumerate", None
    else:
        parsed = _seq_ops(it)
        if parsed is not None and parsed[0] == ids and (parsed[1] or parsed[2]):
            problems.append("the loop does not run over the boost chain ids (first resonance ... state)" + (" - reversed" if parsed[1] else ""))
            mode, index = "id", each
        elif _all_of(each, ids) == "part":
            problems.append("the loop does not run over the boost chain ids (first resonance ... state): only a part")
            mode, index = "id", each
        else:
            raise AnalysisError(f"{ch.qual}: the loop runs over `{show(it)[:60]}`, not over __get_boost_chain_ids(topology, state_id)")
    if cs:
        problems.append(f"not every boost of the chain is collected (only under `{show_pc(cs)[:50]}`)")
    # the collected matrix: BoostMatrix(pool[current])
    pools = [n for n in info.init if contains_value(boost, info.head(n))]
    if not (_is_call(boost, "BoostMatrix") and len(boost[2]) == 1 and not boost[3]):
        raise AnalysisError(f"{ch.qual}: what is collected (`{show(boost)[:60]}`) is not a BoostMatrix")
    current = boost[2][0]
    if len(pools) != 1 or not (current[0] == "sub" and current[1] == info.head(pools[0])):
        if not pools and not_followed(current, known) is None:
            problems.append("the collected matrix is not BoostMatrix(current momentum of the loop's state): it does not depend on the boosts made so far")
            judge.decide(False, (value,), "R-WIRING", key, tree.loc(ch.node), what, problems)
            return
        raise AnalysisError(f"{ch.qual}: the boosted momentum `{show(current)[:60]}` is not an entry of one pool of momenta carried through the loop")
    pool, head = pools[0], info.head(pools[0])
    idx = current[2]
    if mode == "enumerate":
        mode = "position" if idx == ("item", each, 0) else "id" if idx == ("item", each, 1) else None
        index = idx
        if mode is None:
            raise AnalysisError(f"{ch.qual}: the pool is indexed by `{show(idx)[:40]}`")
    if idx != index:
        if _leaf(idx) or is_const(idx):
            problems.append(f"the collected matrix is not BoostMatrix(current momentum of the loop's state): the pool is read at `{show(idx)[:30]}`")
        else:
            judge.cannot(f"{ch.qual}: the pool is indexed by `{show(idx)[:40]}`")
    # the pool: one summed momentum per chain member ...
    init = info.init[pool]
    ok_init = False
    entries = init[1] if init[0] in {"dictcomp", "list", "tuple"} else ()
    if len(entries) == 1 and entries[0][0] == "foreach":
        e_es, e_cs, elem = unwrap(entries[0])
        if len(e_es) == 1 and _all_of(e_es[0], ids) == "elements" and not e_cs:
            momentum = ("call", ("global", "ampform.kinematics.lorentz::get_four_momentum_sum"), (topo, momenta, e_es[0]), ())
            ok_init = (mode == "id" and init[0] == "dictcomp" and elem == ("tuple", (e_es[0], momentum))) or (mode == "position" and init[0] in {"list", "tuple"} and elem == momentum)
    if not ok_init:
        judge.cannot(f"{ch.qual}: the initial pool `{show(init)[:70]}` is not one get_four_momentum_sum(topology, momenta, id) per chain member ({'keyed by id' if mode == 'id' else 'in chain order'})")
    # ... all of which are transformed by the boost of the step before the next step
    end = info.end.get(pool)
    ok_end = None
    if end is None or end == head:
        ok_end = False
    else:
        entries = end[1] if end[0] in {"dictcomp", "list", "tuple"} else ()
        if len(entries) == 1 and entries[0][0] == "foreach":
            e_es, e_cs, elem = unwrap(entries[0])
            if len(e_es) == 1:
                e = e_es[0]
                if mode == "id" and end[0] == "dictcomp" and _all_of(e, head) == "items":
                    k_, p_ = ("item", e, 0), ("item", e, 1)
                    shape = elem[0] == "tuple" and len(elem[1]) == 2 and elem[1][0] == k_
                    new = elem[1][1] if shape else None
                elif mode == "id" and end[0] == "dictcomp" and _all_of(e, head) == "elements":
                    # iteration over the keys: {i: f(pool[i]) for i in pool}
                    p_ = ("sub", head, e)
                    new = elem[1][1] if elem[0] == "tuple" and len(elem[1]) == 2 and elem[1][0] == e else None
                elif mode == "position" and end[0] in {"list", "tuple"} and _all_of(e, head) == "elements":
                    p_, new = e, elem
                else:
                    new = None
                if new is not None and _is_call(new, "ArrayMultiplication") and not new[3] and len(new[2]) == 2:
                    if e_cs:
                        ok_end = None  # some momenta are left out: fine if they are no longer needed - not decided here
                    elif new[2] == (boost, p_):
                        ok_end = True
                    elif set(new[2]) == {boost, p_} or (new[2][1] == p_ and _is_call(new[2][0], "BoostMatrix")):
                        ok_end = False
    if ok_end is None:
        judge.cannot(f"{ch.qual}: the pool continues as `{show(end)[:70] if end is not None else '?'}`")
    elif not ok_end:
        problems.append("the momenta are not all transformed by the boost of this step before the next step")
    if problems or len(judge.undecided) == before:
        judge.decide(not problems, (value, init, end if end is not None else NONE), "R-WIRING", key, tree.loc(ch.node), what, problems or None)


def _interpolated_parts(node: ast.AST, inl: Inliner, depth: int = 0) -> list[ast.AST] | None:
    """The non-literal pieces of a text that is built by an f-string, `+`, `%`, `.format(...)`, `sep.join([...])` or a
    local name bound to one of those; [] for a literal; None if the construction is not understood."""
    if isinstance(node, ast.Constant):
        return [] if isinstance(node.value, (str, int, float)) else None
    if depth > 6:
        return None
    if isinstance(node, ast.JoinedStr):
        return [p.value for p in node.values if isinstance(p, ast.FormattedValue)]
    if isinstance(node, ast.BinOp) and isinstance(node.op, (ast.Add, ast.Mod)):
        out = []
        for side in (node.left, node.right):
            sub = _interpolated_parts(side, inl, depth + 1)
            out += [side] if sub is None else sub
        return out
    if isinstance(node, ast.Tuple):
        out = []
        for e in node.elts:
            sub = _interpolated_parts(e, inl, depth + 1)
            out += [e] if sub is None else sub
        return out
    if isinstance(node, ast.Call) and isinstance(node.func, ast.Attribute) and node.func.attr == "format":
        out = _interpolated_parts(node.func.value, inl, depth + 1)
        if out is None:
            return None
        for a in [*node.args, *[k.value for k in node.keywords]]:
            sub = _interpolated_parts(a, inl, depth + 1)
            out += [a] if sub is None else sub
        return out
    if isinstance(node, ast.Call) and isinstance(node.func, ast.Attribute) and node.func.attr == "join" and len(node.args) == 1 and isinstance(node.func.value, ast.Constant):
        seq = node.args[0]
        elts = seq.elts if isinstance(seq, (ast.List, ast.Tuple)) else [seq.elt] if isinstance(seq, (ast.ListComp, ast.GeneratorExp)) else None
        if elts is None:
            return None
        out = []
        for e in elts:
            sub = _interpolated_parts(e, inl, depth + 1)
            out += [e] if sub is None else sub
        return out
    if isinstance(node, ast.Name):
        d = inl.single_def(node)
        if d is not None and d.kind == "assign" and d.index is None and isinstance(d.value, ast.AST):
            sub = _interpolated_parts(d.value, inl, depth + 1)
            return [node] if sub is None else sub
        return [node]
    if isinstance(node, ast.Call) and isinstance(node.func, ast.Name) and node.func.id == "str" and len(node.args) == 1:
        return [node.args[0]]
    return None


@_failclosed
def check_symbols_not_split(ctx: Check, tree: Tree) -> None:
    """R-SYMSPLIT: sp.symbols() splits its argument at commas and spaces.  A name that contains text
    interpolated from a naming function may contain both: the helicity / boost-chain suffix of a state
    below a nested resonance is e.g. `_2^23,123`.  `a, b, c = sp.symbols(f"a{suffix} b{suffix} c{suffix}")`
    then raises `too many values to unpack` - formulating an axis-angle aligned model fails for every
    decay with four or more final states.  Interpolated parts of an sp.symbols() string must be
    separator-free by construction: integer ids, or functions that join digits without separator.
    The text may be built by an f-string, concatenation, `%`, `.format` or `join`; a first argument whose construction
    is not understood is an ANALYSIS-ERROR (it is not assumed to be separator-free)."""
    from ..dataflow import RD as _RD

    def may_contain_separator(qual: str, depth: int = 0) -> bool:
        fn = tree.funcs.get(qual)
        if fn is None or depth > 3:
            return False
        for n in walk_function(fn.node, nested=True):
            if isinstance(n, ast.Constant) and isinstance(n.value, str) and ("," in n.value or " " in n.value) and not (
                isinstance(getattr(n, "_parent", None), ast.Expr)):
                par = getattr(n, "_parent", None)
                # separators that end up in the returned text: f-string parts, join separators, concatenation
                if isinstance(par, (ast.JoinedStr, ast.BinOp)) or (isinstance(par, ast.Attribute) and par.attr in {"join", "format"}):
                    return True
            if isinstance(n, ast.Call):
                callee = tree.callee(n, tree.func_of(n) or fn)
                if callee and callee != qual and callee.startswith("ampform") and may_contain_separator(callee, depth + 1):
                    return True
        return False

    n = 0
    undecided = []
    for q, fn in sorted(tree.funcs.items()):
        if not q.startswith("ampform") or fn.outer is not None:
            continue
        rd = None
        for call in [c for c in walk_function(fn.node, nested=True) if isinstance(c, ast.Call) and c.args and not isinstance(c.args[0], ast.Constant)]:
            try:
                target = tree.callee(call, tree.func_of(call) or fn)
            except Exception:  # noqa: BLE001
                target = None
            if target != "sympy.symbols" and not (target is None and unparse(call.func) in {"sp.symbols", "sympy.symbols", "symbols"}):
                continue
            rd = rd or _RD(fn.node)
            scope = tree.func_of(call) or fn
            inl = Inliner(scope.node, rd if scope is fn else None)
            parts = _interpolated_parts(call.args[0], inl)
            if parts is None:
                undecided.append(f"{q}: the names given to `{unparse(call)[:60]}` are built in a way that is not understood")
                continue
            if not parts:
                continue
            n += 1
            bad = []
            for part in parts:
                exprs = [part] + [d.value for d in rd.closure(rd.uses(part)) if isinstance(d.value, ast.AST)]
                for e in exprs:
                    for c in [x for x in ast.walk(e) if isinstance(x, ast.Call)]:
                        callee = tree.callee(c, tree.func_of(call) or fn)
                        if callee and callee.startswith("ampform") and may_contain_separator(callee):
                            bad.append(f"`{{{unparse(part)}}}` comes from {callee.split('::')[-1]}(), whose result can contain `,` or a space")
            size = len(call.args[0].values) if isinstance(call.args[0], ast.JoinedStr) else len(parts)
            ctx.verdict(not bad, "R-SYMSPLIT", f"{q}::symbols-{size}", tree.loc(call),
                        f"{q}: `{unparse(call)[:70]}` interpolates only separator-free text into sp.symbols()", sorted(set(bad)) or None)
    if n == 0 and not undecided:
        ctx.ok("R-SYMSPLIT", "src/ampform", "no sp.symbols() call with interpolated text")
    if undecided:
        raise AnalysisError("; ".join(undecided[:3]))


@_failclosed
def check_full_range(ctx: Check, tree: Tree) -> None:
    """R-FULLRANGE: a Wigner-D matrix is unitary only over the complete index set -s..s.  Every
    summation pool of the alignment rotations is therefore `create_spin_range(s)` without the
    `no_zero_spin` restriction - with it (massless states) the helicity rotation is a 2x2 block of a 3x3
    unitary matrix and the aligned intensity differs from the unaligned one."""
    target = "ampform.helicity.align._spin::create_spin_range"
    if target not in tree.funcs:
        raise AnalysisError("vanished anchor: create_spin_range")
    tparams = tree.funcs[target].params
    flag_name = tparams[1] if len(tparams) > 1 else None
    callers: dict[str, list] = {}
    for q, fn in tree.funcs.items():
        for call, callee in tree.calls_in(fn):
            if callee:
                callers.setdefault(callee, []).append((fn, call))

    def flag_of(call: ast.Call, callee_params: list[str], name: str):
        for k in call.keywords:
            if k.arg == name:
                return k.value
        if any(k.arg is None for k in call.keywords) or any(isinstance(a, ast.Starred) for a in call.args):
            raise AnalysisError(f"`{unparse(call)[:60]}` passes its arguments through */**: whether `{name}` is switched on is not decided")
        if name in callee_params:
            i = callee_params.index(name)
            if i < len(call.args):
                return call.args[i]
        return None

    def sources(fn, e, depth=0, seen=None) -> list[str]:
        """non-constant origins of a flag expression (follows parameters to the callers)"""
        seen = seen if seen is not None else set()
        if e is None or (isinstance(e, ast.Constant) and e.value is False):
            return []
        if isinstance(e, ast.Name) and e.id in fn.params and depth < 4:
            dflt = None
            a = fn.node.args
            names = [x.arg for x in a.posonlyargs + a.args]
            d = dict(zip(names[len(names) - len(a.defaults):], a.defaults))
            dflt = d.get(e.id)
            out = []
            if dflt is not None and not (isinstance(dflt, ast.Constant) and dflt.value is False):
                out.append(f"default `{unparse(dflt)}` of {fn.qual.split('::')[-1]}")
            for cfn, call in callers.get(fn.qual, []):
                if (cfn.qual, id(call)) in seen:
                    continue
                seen.add((cfn.qual, id(call)))
                out += sources(cfn, flag_of(call, fn.params, e.id), depth + 1, seen)
            return out
        if isinstance(e, ast.Name):
            rd = RD(fn.node if fn.outer is None else fn.outer.node)
            outs = []
            for d_ in rd.reaching(e):
                if d_.value is not None:
                    outs += sources(fn, d_.value, depth + 1, seen)
                else:
                    outs.append(f"`{e.id}` in {fn.qual.split('::')[-1]}")
            return outs
        return [f"`{unparse(e)[:50]}` in {fn.qual.split('::')[-1]}"]

    n = 0
    for fn, call in sorted(callers.get(target, []), key=lambda fc: fc[0].qual):
        if not fn.qual.startswith("ampform.helicity.align"):
            continue
        n += 1
        src = sources(fn, flag_of(call, tparams, flag_name)) if flag_name else []
        ok = not src
        ctx.verdict(ok, "R-FULLRANGE", f"{fn.qual}::restricted-range", tree.loc(call),
                    f"{fn.qual.split('::')[-1]}: the summation pool `{unparse(call)[:60]}` is the complete range -s..s",
                    None if ok else {"the restriction is switched on by": sorted(set(src))[:5],
                                     "why": "D^1 restricted to the rows/columns +-1 is not unitary: sum_{m'} |D_{m m'}|^2 < 1, so the aligned intensity is not the unaligned one"})
    ctx.stats["spin_range_pools"] = n
    if n < 1:
        raise AnalysisError("no summation pool built with create_spin_range found in ampform.helicity.align")


@_failclosed
def check_massless_rest_frame(ctx: Check, tree: Tree) -> None:
    """R-RESTFRAME: the Wigner rotation of a final state is computed with a boost into THAT state's
    rest frame (compute_wigner_rotation_matrix: BoostMatrix(NegativeMomentum(momenta[state_id]))).  A
    massless state has no rest frame (beta = 1): the matrix, its Euler angles and the aligned
    intensity are NaN at every event.  The alignment sums treat massless states specially (`mass ==
    0.0` -> no helicity 0); the path that formulates the angles must know about them too."""
    mod = "ampform.helicity.align.axisangle"
    ds = tree.func(f"{mod}::AxisAngleAlignment.define_symbols")
    target_q = "ampform.kinematics.angles::compute_wigner_rotation_matrix"
    target = tree.func(target_q)
    rest = None
    trd = RD(target.node)
    for n in walk_function(target.node):
        if isinstance(n, ast.Call) and unparse(n.func).split(".")[-1] == "BoostMatrix" and n.args:
            arg = n.args[0]
            if isinstance(arg, ast.Call) and unparse(arg.func).split(".")[-1] == "NegativeMomentum" and arg.args:
                inner = arg.args[0]
                srcs = [inner] + [d.value for d in trd.reaching(inner) if d.value is not None] if isinstance(inner, ast.Name) else [inner]
                if any(isinstance(x, ast.Subscript) and unparse(x.slice) == "state_id" for x in srcs):
                    rest = n
    if rest is None:
        raise AnalysisError(f"{target_q}: the boost into the rest frame of the rotated state (BoostMatrix(NegativeMomentum(momenta[state_id]))) was not found")
    graph = tree.call_graph()
    down = tree.reachable(ds.qual, graph)
    if target_q not in down:
        raise AnalysisError("AxisAngleAlignment.define_symbols no longer reaches compute_wigner_rotation_matrix")
    on_path = sorted(q for q in down if q in tree.funcs and target_q in tree.reachable(q, graph))

    def mass_tests(q):
        return [n for n in walk_function(tree.funcs[q].node) if isinstance(n, ast.Compare) and any(isinstance(x, ast.Attribute) and x.attr == "mass" for x in ast.walk(n))]

    believers = sorted(q.split("::")[-1] for q in tree.funcs if q.startswith(mod + "::") and mass_tests(q))
    guarded = [q for q in on_path if mass_tests(q)]
    ctx.stats["functions_on_wigner_angle_path"] = len(on_path)
    ctx.verdict(bool(guarded), "R-RESTFRAME", f"{ds.qual}::rest-frame-boost-of-massless-state", tree.loc(rest),
                "the Wigner angles (boost into the rotated state's own rest frame) are formulated only for massive states, or massless states are handled on that path",
                None if guarded else {"path": [q.split("::")[-1] for q in on_path], "no test of `.mass` on the path; functions of the same alignment that do special-case mass == 0": believers,
                                      "why": "BoostMatrix of a light-like momentum has beta = 1, gamma = inf: alpha/beta/gamma are NaN for every event"})


def run(ctx: Check, tree: Tree) -> None:
    ctx.decided += [
        'R-WIRING (bound symbol): the outer helicity symbol handed to the helicity rotations and to the Wigner rotation is create_spin_projection_symbol(state) on every reaching definition',
        "R-RESTFRAME: the path that formulates Wigner angles (boost into the rotated state's rest frame) tests the particle's mass",
        'R-FULLRANGE: every summation pool of the alignment rotations is the complete range -s..s',
        "no `.remove(x)` / `.index(x)` in the package can raise: each is dominated by a membership test, inside a handler, or covered by a recorded structural invariant (R-GUARD)",
        "the PoolSum of a helicity/Wigner rotation ranges over create_spin_range(s) of the same s that is j of its Wigner-D, and every caller passes spin and masslessness of the rotated state (R-WIRING)",
        "create_spin_range loops from -s in steps of +1 while <= s (R-RANGE)",
        "DPD alignment: spin, helicity symbols, state index and pool of every Wigner-d refer to the same outer state (R-WIRING)",
        "text interpolated into sp.symbols() is separator-free (R-SYMSPLIT): defining the Wigner angles cannot fail for nested states",
        "compute_wigner_angles extracts (alpha, beta, gamma) from the Wigner rotation matrix as in Marangotto (2019) B.2-4 (R-TABLE)",
        "axis-angle chain: the k-th index pair carries the angles of the k-th state on the way up from the rotated state (R-CHAINORDER)",
        "no memoised mutable result of helicity.align (e.g. a cached spin range) is written by any caller (R-CACHE)",
        "DPD alignment: every term reaching the PoolSum summand is base[summation indices] times one rotation per outer state (R-SUMMAND)",
    ]
    ctx.not_decided += [
        "aligned intensity == unaligned intensity at every event (numerical)",
        "whether _collect_outer_state_helicities sees complete helicity sets (a premise of the property)",
    ]
    ctx.assumptions += ["list.remove / set.remove raise when the element is absent (CPython)"]
    ctx.section(check_removes, ctx, tree)
    ctx.section(check_wiring, ctx, tree)
    ctx.section(check_spin_range, ctx, tree)
    ctx.section(check_dpd_wiring, ctx, tree)
    ctx.section(check_rotation_chain_order, ctx, tree)
    ctx.section(check_wigner_angle_table, ctx, tree)
    ctx.section(check_symbols_not_split, ctx, tree)
    ctx.section(check_wigner_rotation_matrix, ctx, tree)
    ctx.section(check_axisangle_amplitude, ctx, tree)
    ctx.section(check_axisangle_structure, ctx, tree)
    ctx.section(check_dpd_summand, ctx, tree)
    ctx.section(check_dpd_generator, ctx, tree)
    ctx.section(check_spin_range_not_cached_mutable, ctx, tree)
    ctx.section(check_massless_rest_frame, ctx, tree)
    ctx.section(check_full_range, ctx, tree)
