"""C05 - spin alignment never changes a single-topology intensity.

Decided: (a) formulating an aligned model cannot fail on an unguarded ``remove``
(R-GUARD); (b) the alignment sums run over the spin range of the rotated state
(R-WIRING); the loop of ``create_spin_range`` runs -s .. s in unit steps (R-RANGE).
"""

from __future__ import annotations

import ast

from ..dataflow import RD
from ..inline import Inliner
from ..loader import AnalysisError, FuncInfo, Tree, ancestors, unparse, walk_function
from ..report import Check

PID = "C05"

# `.remove(x)` sites whose membership is a structural invariant (read and confirmed)
INVARIANT_REMOVES = {
    ("ampform.helicity.decay::get_sibling_state_id", "state_id"): "state_id (the function's parameter) is by construction one of the outgoing edges of "
    "its own originating node (edge_ids = get_edge_ids_outgoing_from_node(parent node of state_id))",
    ("ampform.kinematics.lorentz::__get_boost_chain_ids", "next(iter(topology.incoming_edge_ids))"): "list_decay_chain_ids walks up to the "
    "incoming edge, so the initial state id is always the last element of the chain",
}

ROTATION = "ampform.helicity.align.axisangle::formulate_helicity_rotation"
SPIN_RANGE = "ampform.helicity.align._spin::create_spin_range"


def _conjuncts(test: ast.AST) -> list[ast.AST]:
    if isinstance(test, ast.BoolOp) and isinstance(test.op, ast.And):
        out = []
        for v in test.values:
            out.extend(_conjuncts(v))
        return out
    return [test]


def remove_is_guarded(call: ast.Call) -> str | None:
    """Reason if ``recv.remove(arg)`` is protected by a membership test or a handler."""
    recv = unparse(call.func.value)
    arg = unparse(call.args[0]) if call.args else ""
    child = call
    for anc in ancestors(call):
        if isinstance(anc, ast.If) and any(child is s or _contains(s, child) for s in anc.body):
            for c in _conjuncts(anc.test):
                if isinstance(c, ast.Compare) and len(c.ops) == 1 and isinstance(c.ops[0], ast.In):
                    if _same_value(c.left, call.args[0]) and unparse(c.comparators[0]) == recv:
                        return f"dominated by `{unparse(c)}`"
                if isinstance(c, ast.Call) and isinstance(c.func, ast.Attribute) and c.func.attr == "count" and unparse(c.func.value) == recv:
                    return f"dominated by `{unparse(c)}`"
        if isinstance(anc, ast.If) and any(child is s or _contains(s, child) for s in anc.orelse):
            for c in [anc.test]:
                if isinstance(c, ast.Compare) and len(c.ops) == 1 and isinstance(c.ops[0], ast.NotIn):
                    if _same_value(c.left, call.args[0]) and unparse(c.comparators[0]) == recv:
                        return f"else-branch of `{unparse(c)}`"
        if isinstance(anc, ast.Try) and any(child is s or _contains(s, child) for s in anc.body):
            for h in anc.handlers:
                names = unparse(h.type) if h.type is not None else "BaseException"
                if any(n in names for n in ("ValueError", "KeyError", "Exception", "BaseException")):
                    return f"inside try/except {names}"
        if isinstance(anc, (ast.FunctionDef, ast.AsyncFunctionDef)):
            # an earlier `if arg not in recv: return/raise/continue` in the same block
            break
        child = anc
    # early-exit guard in a preceding statement of the same block
    blk = _enclosing_block(call)
    if blk is not None:
        body, idx = blk
        for st in body[:idx]:
            if isinstance(st, ast.If) and st.body and isinstance(st.body[-1], (ast.Return, ast.Raise, ast.Continue, ast.Break)):
                c = st.test
                if isinstance(c, ast.Compare) and len(c.ops) == 1 and isinstance(c.ops[0], ast.NotIn):
                    if _same_value(c.left, call.args[0]) and unparse(c.comparators[0]) == recv:
                        return f"early exit on `{unparse(c)}`"
    return None


def _same_value(a: ast.AST, b: ast.AST) -> bool:
    if isinstance(a, ast.Constant) and isinstance(b, ast.Constant):
        return a.value == b.value
    return unparse(a) == unparse(b)


def _contains(root: ast.AST, node: ast.AST) -> bool:
    return any(n is node for n in ast.walk(root))


def _enclosing_block(node: ast.AST):
    child = node
    for anc in ancestors(node):
        for fld in ("body", "orelse", "finalbody"):
            body = getattr(anc, fld, None)
            if isinstance(body, list):
                for i, st in enumerate(body):
                    if st is child:
                        return body, i
        child = anc
    return None


def check_removes(ctx: Check, tree: Tree) -> None:
    n = 0
    for q, fn in sorted(tree.funcs.items()):
        if not q.startswith("ampform"):
            continue
        for node in walk_function(fn.node, nested=False):
            if not (isinstance(node, ast.Call) and isinstance(node.func, ast.Attribute) and node.func.attr == "remove" and len(node.args) == 1):
                continue
            n += 1
            recv, arg = unparse(node.func.value), unparse(node.args[0])
            what = f"{q}: {recv}.remove({arg})"
            reason = remove_is_guarded(node)
            if reason:
                ctx.ok("R-GUARD", tree.loc(node), f"{what} - {reason}")
                continue
            inv = INVARIANT_REMOVES.get((q, unparse(Inliner(fn.node).expr(node.args[0]))))
            if inv:
                ctx.ok("R-GUARD", tree.loc(node), f"{what} - invariant: {inv}")
                continue
            guard = ""
            for anc in ancestors(node):
                if isinstance(anc, ast.If):
                    guard = f" (only guarded by `{unparse(anc.test)}`, which does not imply membership)"
                    break
            ctx.violation(
                "R-GUARD",
                f"{q}::{recv}.remove({arg})",
                tree.loc(node),
                what + guard,
                "list.remove/set.remove raise ValueError/KeyError when the element is absent; "
                "create_spin_range(1/2, no_zero_spin=True) has no 0.0 -> an aligned model with a massless spin-1/2 particle cannot be formulated",
            )
    ctx.stats["remove_sites"] = n
    if n < 3:
        raise AnalysisError(f"only {n} `.remove(` sites in the package (3 confirmed by hand)")


def _kwarg(call: ast.Call, fn: FuncInfo, name: str) -> ast.AST | None:
    for k in call.keywords:
        if k.arg == name:
            return k.value
    params = fn.params
    if name in params:
        i = params.index(name)
        if i < len(call.args) and not any(isinstance(a, ast.Starred) for a in call.args[: i + 1]):
            return call.args[i]
    return None


def check_wiring(ctx: Check, tree: Tree) -> None:
    rot = tree.func(ROTATION)
    rd = RD(rot.node)
    inl = Inliner(rot.node, rd)
    # inside formulate_helicity_rotation: pool of the PoolSum = create_spin_range(<p>, ...) and j = <p>
    poolsum = [c for c in walk_function(rot.node) if isinstance(c, ast.Call) and tree.callee(c, rot) == "ampform.sympy::PoolSum"]
    if len(poolsum) != 1:
        raise AnalysisError(f"{ROTATION}: expected one PoolSum construction, found {len(poolsum)}")
    ps = poolsum[0]
    wd = [c for c in ast.walk(ps) if isinstance(c, ast.Call) and isinstance(c.func, ast.Attribute) and c.func.attr == "D"]
    if len(wd) != 1:
        raise AnalysisError(f"{ROTATION}: expected one Wigner.D call inside the PoolSum")
    j_arg = next((k.value for k in wd[0].keywords if k.arg == "j"), wd[0].args[0] if wd[0].args else None)
    mp_arg = next((k.value for k in wd[0].keywords if k.arg == "mp"), wd[0].args[2] if len(wd[0].args) > 2 else None)
    j_params = {d.name for d in rd.closure(rd.uses(j_arg)) if d.kind == "param"}
    # index tuple(s)
    idx = [a for a in ps.args[1:]]
    ok_pool = False
    detail = None
    for tup in idx:
        t = inl.expr(tup)
        if isinstance(t, ast.Tuple) and len(t.elts) == 2:
            sym, pool = t.elts
            range_calls = [c for c in ast.walk(pool) if isinstance(c, ast.Call) and isinstance(c.func, ast.Name) and c.func.id == "create_spin_range"]
            if range_calls:
                first = range_calls[0].args[0] if range_calls[0].args else next((k.value for k in range_calls[0].keywords if k.arg == "spin_magnitude"), None)
                pool_params = {n.id for n in ast.walk(first) if isinstance(n, ast.Name)} if first is not None else set()
                same_index = mp_arg is not None and unparse(sym) == unparse(inl.expr(mp_arg))
                ok_pool = pool_params == j_params and len(j_params) == 1 and same_index
                detail = {"pool_spin": sorted(pool_params), "wigner_j": sorted(j_params), "index_is_mp": same_index}
    ctx.verdict(
        ok_pool,
        "R-WIRING",
        f"{ROTATION}::pool-vs-j",
        tree.loc(ps),
        "formulate_helicity_rotation: PoolSum index pool = create_spin_range(s) of the same s that is j of the Wigner-D, summed index = mp",
        detail,
    )
    # callers pass the spin / mass of the rotated state
    n_calls = 0
    for q, fn in sorted(tree.funcs.items()):
        if not q.startswith("ampform"):
            continue
        for call, callee in tree.calls_in(fn, nested=False):
            if callee != ROTATION:
                continue
            n_calls += 1
            scope = tree.func_of(call) or fn
            top = scope
            while top.outer is not None:
                top = top.outer
            rd_top = RD(top.node)
            cinl = Inliner(top.node, rd_top)
            spin = _kwarg(call, rot, "spin_magnitude")
            nz = _kwarg(call, rot, "no_zero_spin")
            spin_txt = unparse(cinl.expr(spin)) if spin is not None else None
            nz_txt = unparse(cinl.expr(nz)) if nz is not None else None
            params = set(top.params)
            ok = False
            why = None
            if spin_txt is None:
                why = "spin_magnitude not passed"
            else:
                import re

                m = re.fullmatch(r"(\w+)\.states\[(\w+)\]\.particle\.spin", spin_txt)
                if not m or m.group(1) not in params or m.group(2) not in params:
                    why = f"spin_magnitude = {spin_txt} is not <transition>.states[<rotated id>].particle.spin of the caller's parameters"
                else:
                    state = f"{m.group(1)}.states[{m.group(2)}]"
                    if nz_txt is not None and nz_txt.replace(" ", "") not in {f"{state}.particle.mass==0.0", f"{state}.particle.mass==0"}:
                        why = f"no_zero_spin = {nz_txt} is not the masslessness of the same state {state}"
                    else:
                        ok = True
            ctx.verdict(
                ok,
                "R-WIRING",
                f"{scope.qual}::call formulate_helicity_rotation::spin",
                tree.loc(call),
                f"{scope.qual} -> formulate_helicity_rotation(spin_magnitude={spin_txt}, no_zero_spin={nz_txt})",
                why,
            )
    if n_calls < 2:
        raise AnalysisError(f"only {n_calls} callers of formulate_helicity_rotation (2 confirmed)")


def check_spin_range(ctx: Check, tree: Tree) -> None:
    fn = tree.func(SPIN_RANGE)
    loops = [n for n in walk_function(fn.node) if isinstance(n, ast.While)]
    if not loops:
        ctx.info("R-RANGE", tree.loc(fn.node), "create_spin_range has no while loop any more: range shape not decided (informational)")
        return
    loop = loops[0]
    rd = RD(fn.node)
    spin_param = fn.params[0]
    problems = []
    test = loop.test
    if not (isinstance(test, ast.Compare) and len(test.ops) == 1 and isinstance(test.left, ast.Name)):
        ctx.info("R-RANGE", tree.loc(loop), "loop test shape not recognised: not decided")
        return
    var = test.left.id
    if not isinstance(test.ops[0], ast.LtE):
        problems.append(f"bound `{unparse(test)}` is not `<= s` (upper end +s dropped or overshot)")
    bound_params = {d.name for d in rd.closure(rd.uses(test.comparators[0])) if d.kind == "param"}
    if bound_params != {spin_param}:
        problems.append(f"bound derives from {sorted(bound_params)} instead of {spin_param}")
    # initial value: -s
    init = [d for d in rd.env_at[id(loop)].get(var, ())]
    inl = Inliner(fn.node, rd)
    for d in init:
        txt = unparse(inl.expr(d.value)) if d.value is not None else "?"
        core = txt.replace("Decimal(", "").replace("float(", "").replace(")", "").replace("(", "").replace(" ", "")
        if core != f"-{spin_param}":
            problems.append(f"start value `{txt}` is not -{spin_param}")
    # step
    steps = [n for n in walk_function(loop) if isinstance(n, ast.AugAssign) and isinstance(n.target, ast.Name) and n.target.id == var]
    if len(steps) != 1 or not isinstance(steps[0].op, ast.Add) or not (isinstance(steps[0].value, ast.Constant) and steps[0].value.value == 1):
        problems.append(f"step `{unparse(steps[0]) if steps else '?'}` is not += 1")
    # every iteration appends
    appends = [n for n in walk_function(loop) if isinstance(n, ast.Call) and isinstance(n.func, ast.Attribute) and n.func.attr == "append"]
    cond_append = [a for a in appends if any(isinstance(x, ast.If) for x in _ancestors_until(a, loop))]
    if not appends or len(cond_append) == len(appends):
        problems.append("no unconditional append of the projection in the loop body")
    ctx.verdict(
        not problems,
        "R-RANGE",
        f"{SPIN_RANGE}::while-loop",
        tree.loc(loop),
        f"create_spin_range: start -{spin_param}, `{unparse(test)}`, step +1, unconditional append",
        problems or None,
    )


def _ancestors_until(node, stop):
    for a in ancestors(node):
        if a is stop:
            return
        yield a


def check_dpd_wiring(ctx: Check, tree: Tree) -> None:
    """``wigner_generator(j_k, ..., k, spectator)``: spin, both helicity symbols and the
    literal state index of every call refer to the same outer state k."""
    fn = tree.func("ampform.helicity.align.dpd::_formulate_aligned_amplitude")
    rd = RD(fn.node)
    calls = []
    for node in walk_function(fn.node):
        if isinstance(node, ast.Call) and isinstance(node.func, ast.Name):
            defs = rd.reaching(node.func)
            if any(d.value is not None and "_DPDAlignmentWignerGenerator" in unparse(d.value) for d in defs):
                calls.append(node)
    if len(calls) < 4:
        raise AnalysisError(f"_formulate_aligned_amplitude: {len(calls)} wigner_generator calls (4 confirmed)")
    seen_states = set()
    for call in calls:
        if len(call.args) < 5 or not isinstance(call.args[3], ast.Constant):
            raise AnalysisError(f"wigner_generator call shape changed: {unparse(call)}")
        k = call.args[3].value
        seen_states.add(k)
        idxs = []
        for a in call.args[:3]:
            if not isinstance(a, ast.Name):
                idxs.append(None)
                continue
            ds = rd.reaching(a)
            idxs.append(next(iter(ds)).index if len(ds) == 1 else None)
        names = [unparse(a) for a in call.args[:3]]
        ok = all(i == k for i in idxs) and len(set(names)) == 3
        # spin must come from particle.spin, helicities from the two symbol families
        jdef = next(iter(rd.reaching(call.args[0])), None) if isinstance(call.args[0], ast.Name) else None
        ok = ok and jdef is not None and jdef.value is not None and "particle.spin" in unparse(jdef.value)
        fams = set()
        for a in call.args[1:3]:
            if isinstance(a, ast.Name):
                d = next(iter(rd.reaching(a)), None)
                fams.add("outer" if d is not None and d.value is not None and "create_spin_projection_symbol" in unparse(d.value) else "dummy")
        ok = ok and fams == {"outer", "dummy"}
        ctx.verdict(
            ok,
            "R-WIRING",
            f"{fn.qual}::wigner_generator[{k}]",
            tree.loc(call),
            f"DPD alignment: {unparse(call)} - spin, outer helicity, summed helicity and state index all refer to outer state {k}",
            {"tuple_positions": idxs, "state": k},
        )
    ctx.verdict(
        seen_states == {0, 1, 2, 3},
        "R-WIRING",
        f"{fn.qual}::wigner_generator-states",
        tree.loc(fn.node),
        f"DPD alignment rotates each of the four outer states exactly once per topology: {sorted(seen_states)}",
    )
    # pools of the outer PoolSum: index k <-> outer_helicities[k]
    for node in walk_function(fn.node):
        if isinstance(node, ast.Call) and tree.callee(node, fn) == "ampform.sympy::PoolSum":
            for tup in node.args[1:]:
                if isinstance(tup, ast.Tuple) and len(tup.elts) == 2 and isinstance(tup.elts[0], ast.Name) and isinstance(tup.elts[1], ast.Subscript):
                    d = next(iter(rd.reaching(tup.elts[0])), None)
                    sl = tup.elts[1].slice
                    k = sl.value if isinstance(sl, ast.Constant) else None
                    ctx.verdict(
                        d is not None and d.index == k,
                        "R-WIRING",
                        f"{fn.qual}::pool[{unparse(tup.elts[0])}]",
                        tree.loc(tup),
                        f"DPD alignment: summed helicity {unparse(tup.elts[0])} (position {d.index if d else '?'}) ranges over outer_helicities[{k}]",
                    )


def _factors(node: ast.AST) -> list[ast.AST]:
    if isinstance(node, ast.BinOp) and isinstance(node.op, ast.Mult):
        return _factors(node.left) + _factors(node.right)
    return [node]


def check_dpd_summand(ctx: Check, tree: Tree) -> None:
    """R-SUMMAND: every term that reaches the summand of the PoolSum over the primed helicities
    is  base[primed helicities] * d(state 0) * d(state 1) * d(state 2) * d(state 3).
    A term that does not carry a summation index is added once per index combination (factor
    = product of the pool sizes); a term without its four rotations is not aligned."""
    fn = tree.func("ampform.helicity.align.dpd::_formulate_aligned_amplitude")
    rd = RD(fn.node)
    pools = [n for n in walk_function(fn.node) if isinstance(n, ast.Call) and tree.callee(n, fn) == "ampform.sympy::PoolSum"]
    if len(pools) != 1:
        raise AnalysisError(f"{fn.qual}: expected one PoolSum, found {len(pools)}")
    pool = pools[0]
    bound = []
    for tup in pool.args[1:]:
        if not (isinstance(tup, ast.Tuple) and len(tup.elts) == 2 and isinstance(tup.elts[0], ast.Name)):
            raise AnalysisError(f"{fn.qual}: PoolSum index shape changed: {unparse(tup)}")
        bound.append(tup.elts[0].id)
    summand = pool.args[0]
    if not (isinstance(summand, ast.Call) and unparse(summand.func) in {"sp.Add", "Add", "sum"} and len(summand.args) == 1):
        raise AnalysisError(f"{fn.qual}: PoolSum summand is `{unparse(summand)[:60]}`, not sp.Add(*terms)")
    arg = summand.args[0].value if isinstance(summand.args[0], ast.Starred) else summand.args[0]
    if not isinstance(arg, ast.Name):
        raise AnalysisError(f"{fn.qual}: summand terms are not collected in a local list")
    acc = arg.id
    terms: list[ast.AST] = []
    for d in rd.closure(rd.reaching(arg)):
        if d.name != acc:
            continue
        node = d.node
        if isinstance(node, ast.AnnAssign) or (isinstance(node, ast.Assign) and d.kind == "assign"):
            val = node.value
            if not isinstance(val, (ast.List, ast.Tuple)):
                raise AnalysisError(f"{fn.qual}: `{acc}` initialised with `{unparse(val)[:50]}`")
            terms += val.elts
        elif isinstance(node, ast.AugAssign) and isinstance(node.op, ast.Add) and isinstance(node.value, (ast.List, ast.Tuple)):
            terms += node.value.elts
        elif isinstance(node, ast.Call) and isinstance(node.func, ast.Attribute) and node.func.attr == "append" and len(node.args) == 1:
            terms.append(node.args[0])
        elif isinstance(node, ast.Call) and isinstance(node.func, ast.Attribute) and node.func.attr == "extend" and len(node.args) == 1 and isinstance(node.args[0], (ast.List, ast.Tuple)):
            terms += node.args[0].elts
        elif isinstance(node, ast.Expr) and isinstance(node.value, ast.Call):
            c = node.value
            if isinstance(c.func, ast.Attribute) and c.func.attr == "append" and len(c.args) == 1:
                terms.append(c.args[0])
            elif isinstance(c.func, ast.Attribute) and c.func.attr == "extend" and len(c.args) == 1 and isinstance(c.args[0], (ast.List, ast.Tuple)):
                terms += c.args[0].elts
            else:
                raise AnalysisError(f"{fn.qual}: `{acc}` modified by `{unparse(c)[:60]}`")
        else:
            raise AnalysisError(f"{fn.qual}: `{acc}` defined by an unknown shape `{unparse(node)[:60]}` ({d.kind})")
    if not terms:
        raise AnalysisError(f"{fn.qual}: no term reaches the PoolSum summand")
    for n_t, term in enumerate(terms):
        problems = []
        facs = _factors(term)
        bases = []
        states = []
        for f in facs:
            if isinstance(f, ast.Subscript) and isinstance(f.value, ast.Name) and any(
                d.value is not None and "create_amplitude_base" in unparse(d.value) for d in rd.reaching(f.value)
            ):
                bases.append(f)
            elif isinstance(f, ast.Call) and isinstance(f.func, ast.Name) and any(
                d.value is not None and "_DPDAlignmentWignerGenerator" in unparse(d.value) for d in rd.reaching(f.func)
            ):
                if len(f.args) >= 4 and isinstance(f.args[3], ast.Constant):
                    states.append(f.args[3].value)
                    used = {a.id for a in f.args[1:3] if isinstance(a, ast.Name)}
                    k = f.args[3].value
                    if isinstance(k, int) and 0 <= k < len(bound) and bound[k] not in used:
                        problems.append(f"rotation of state {k} does not carry the summation index {bound[k]}")
            else:
                problems.append(f"unexpected factor `{unparse(f)[:50]}`")
        if len(bases) != 1:
            problems.append(f"{len(bases)} amplitude-base factors")
        else:
            sl = bases[0].slice
            idx = [e.id if isinstance(e, ast.Name) else None for e in sl.elts] if isinstance(sl, ast.Tuple) else [None]
            if idx != bound:
                problems.append(f"the amplitude base is indexed by {idx}, not by the summation indices {bound}: the term is added once per combination of the indices it does not carry")
        if sorted(states, key=str) != [0, 1, 2, 3]:
            problems.append(f"rotations for outer states {states}, not exactly one each for 0, 1, 2, 3")
        ctx.verdict(not problems, "R-SUMMAND", f"{fn.qual}::term::{canon_text(term)}", tree.loc(term),
                    f"DPD summand term `{unparse(term)[:70]}...` = base[{', '.join(bound)}] * d_0 * d_1 * d_2 * d_3 (every summation index carried, every outer state rotated once)",
                    problems or None)


def canon_text(node: ast.AST) -> str:
    import re

    return re.sub(r"\s+", "", unparse(node))[:80]


def check_spin_range_not_cached_mutable(ctx: Check, tree: Tree) -> None:
    """R-CACHE: "exactly -s..s" must hold for the k-th call as for the first: if any function of
    the alignment package hands out a memoised mutable object (a cached spin range), nobody
    may write into it (create_spin_range itself removes 0 for massless states)."""
    from .c06 import AliasFlow, memoised_functions, mutable_result

    pkg = "ampform.helicity.align"
    sources = {f.qual: f"memoised {f.qual}" for f in memoised_functions(tree) if f.qual.startswith(pkg) and mutable_result(f)}
    if not sources:
        ctx.ok("R-CACHE", "src/ampform/helicity/align", "no memoised function of helicity.align returns a mutable container (nothing shared between calls can be written)")
        return
    flow = AliasFlow(tree, sources)
    flow.fixpoint()
    bad = [(fn, node, origin) for fn, node, origin in flow.mutations() if fn.qual not in sources]
    for fn, node, origin in bad:
        ctx.violation("R-CACHE", f"{fn.qual}::{unparse(node)[:60]}::mutates-cached", tree.loc(node),
                      f"{fn.qual}: `{unparse(node)[:60]}` writes into an object that aliases a memoised result ({origin.split(' -> ')[0]})",
                      "the cached container is shared by all later calls: e.g. a spin range that lost its 0 for a massless state is then also used for massive states of that spin")
    if not bad:
        ctx.ok("R-CACHE", "src/ampform/helicity/align", f"the {len(sources)} memoised mutable results of helicity.align are never written")


def check_rotation_chain_order(ctx: Check, tree: Tree) -> None:
    """R-CHAINORDER: the helicity rotations of the axis-angle chain do not commute.  The k-th pair of
    summation indices (m' = index k, projection = index k+1, k = 0 at the rotated particle's own
    helicity) carries the angles of the k-th state on the way UP from the rotated state to the
    initial state.  Accepted idioms: the recursion rotated_state -> get_parent_id(...) with a counter,
    or `for k, state in enumerate(list_decay_chain_ids(topology, rotated_state)[...])`.  Walking
    the chain downwards (reversed(...)) attaches the angles the other way round: single-topology
    intensities do not notice (unitarity), interfering topologies are no longer rotation invariant."""
    fn = tree.func("ampform.helicity.align.axisangle::formulate_helicity_rotation_chain")
    rot_calls = [c for c in walk_function(fn.node, nested=True) if isinstance(c, ast.Call) and tree.callee(c, tree.func_of(c) or fn) == "ampform.helicity.align.axisangle::formulate_helicity_rotation"]
    if len(rot_calls) != 1:
        raise AnalysisError(f"{fn.qual}: expected one call of formulate_helicity_rotation, found {len(rot_calls)}")
    call = rot_calls[0]
    owner = tree.func_of(call) or fn
    key = f"{fn.qual}::chain-direction"
    if owner is not fn:
        # recursive generator idiom
        rec = [c for c in walk_function(owner.node) if isinstance(c, ast.Call) and isinstance(c.func, ast.Name) and c.func.id == owner.name]
        first = [c for c in walk_function(fn.node, nested=False) if isinstance(c, ast.Call) and isinstance(c.func, ast.Name) and c.func.id == owner.name]
        rd = RD(fn.node)
        up = False
        for c in rec:
            if c.args and isinstance(c.args[0], ast.Name):
                from ..prov import _rd_for

                ord_ = _rd_for(owner, {})
                defs = ord_.reaching(c.args[0])
                up = bool(defs) and all(d.value is not None and "get_parent_id(" in unparse(d.value) for d in defs)
        starts = bool(first) and all(c.args and unparse(c.args[0]) == fn.params[1] for c in first)
        problems = []
        if not up:
            problems.append("the recursion does not continue with get_parent_id(topology, state_id)")
        if not starts:
            problems.append(f"the recursion does not start at `{fn.params[1]}`")
        kw = {k.arg: unparse(k.value) for k in call.keywords}
        mp, sp_ = kw.get("m_prime", ""), kw.get("spin_projection", "")
        ord_ = _rd_for(owner, {})
        def root_index(expr_txt, kwname):
            node = next((k.value for k in call.keywords if k.arg == kwname), None)
            if node is None:
                return None
            txt = unparse(node) + " ".join(unparse(d.value) for d in ord_.closure(ord_.uses(node)) if isinstance(d.value, ast.AST))
            return "next" if "+ 1]" in txt.replace("+1]", "+ 1]") else "current"
        if root_index(mp, "m_prime") != "current" or root_index(sp_, "spin_projection") != "next":
            problems.append("m_prime / spin_projection do not use index k / k+1 of the counter")
        # the counter: starts at 0 (index 0 is the helicity symbol the Wigner rotation / the amplitude connects to)
        # and advances by exactly one per rotation; the recursion ends at the initial state (no parent)
        frd = RD(fn.node)
        counters = {n.value.id for k_ in call.keywords for n in ast.walk(k_.value) if False}
        cnames = set()
        for kw_ in call.keywords:
            if kw_.arg in {"m_prime", "spin_projection"}:
                for d in ord_.closure(ord_.uses(kw_.value)):
                    if isinstance(d.value, ast.Subscript) and "__GREEK_INDEX_NAMES" in unparse(d.value.value):
                        cnames |= {n.id for n in ast.walk(d.value.slice) if isinstance(n, ast.Name)}
        if len(cnames) != 1:
            problems.append(f"index counter not identified ({sorted(cnames)})")
        else:
            cn = next(iter(cnames))
            inits = [n for n in walk_function(fn.node, nested=False) if isinstance(n, ast.Assign) and isinstance(n.targets[0], ast.Name) and n.targets[0].id == cn]
            if not (len(inits) == 1 and isinstance(inits[0].value, ast.Constant) and inits[0].value.value == 0):
                problems.append(f"the index counter `{cn}` does not start at 0")
            incs = [n for n in walk_function(owner.node) if isinstance(n, ast.AugAssign) and isinstance(n.target, ast.Name) and n.target.id == cn]
            if not (len(incs) == 1 and isinstance(incs[0].op, ast.Add) and isinstance(incs[0].value, ast.Constant) and incs[0].value.value == 1
                    and not any(isinstance(a, (ast.If, ast.For, ast.While)) for a in ancestors(incs[0]) if a is not owner.node and any(a is x for x in ast.walk(owner.node)))):
                problems.append(f"the index counter `{cn}` is not advanced by exactly 1 per rotation")
        # Euler angles of a helicity rotation: (phi, theta, 0) of the helicity state of that level
        angle_syms = None
        for d in ord_.defs:
            if isinstance(d.value, ast.Call) and unparse(d.value.func).endswith("get_helicity_angle_symbols") and d.index is not None:
                angle_syms = angle_syms or {}
                angle_syms[d.name] = d.index
        kwv = {k.arg: k.value for k in call.keywords}
        conv_ok = (angle_syms is not None and isinstance(kwv.get("alpha"), ast.Name) and angle_syms.get(kwv["alpha"].id) == 0
                   and isinstance(kwv.get("beta"), ast.Name) and angle_syms.get(kwv["beta"].id) == 1
                   and isinstance(kwv.get("gamma"), ast.Constant) and kwv["gamma"].value == 0)
        if not conv_ok:
            problems.append("the helicity rotation does not use (alpha, beta, gamma) = (phi, theta, 0) of get_helicity_angle_symbols")
        # a chain of a single rotation has no summation left: its index is identified with the helicity symbol
        tails = [n for n in walk_function(fn.node, nested=False) if isinstance(n, ast.If) and any(isinstance(b, ast.Return) and b.value is not None and ".subs(" in unparse(b.value) for b in n.body)]
        if tails:
            t = tails[0].test
            ok_tail = (isinstance(t, ast.Compare) and len(t.ops) == 1 and isinstance(t.ops[0], ast.Eq) and isinstance(t.comparators[0], ast.Constant) and t.comparators[0].value == 1
                       and unparse(t.left).replace(" ", "").startswith("len(") and unparse(t.left).endswith(".indices)"))
            if not ok_tail:
                problems.append(f"the single-rotation special case is taken under `{unparse(t)}`, not iff exactly one summation index exists")
        stops = [n for n in walk_function(owner.node) if isinstance(n, ast.If) and any(isinstance(b, ast.Return) for b in n.body)]
        if not any(isinstance(n.test, ast.Compare) and len(n.test.ops) == 1 and isinstance(n.test.ops[0], ast.Is) and isinstance(n.test.comparators[0], ast.Constant)
                   and n.test.comparators[0].value is None and any(d.value is not None and "get_parent_id(" in unparse(d.value) for d in ord_.reaching(n.test.left) ) for n in stops if isinstance(n.test, ast.Compare) and isinstance(n.test.left, ast.Name)):
            problems.append("the recursion does not stop exactly when the state has no parent (`parent_id is None`)")
        ctx.verdict(not problems, "R-CHAINORDER", key, tree.loc(call), "axis-angle chain: recursion from the rotated state upwards (get_parent_id) until the initial state, index pair k (k = 0, 1, ...) carries the angles of the k-th state on the way up", problems or None)
        return
    # loop idiom
    loops = [a for a in ancestors(call) if isinstance(a, ast.For)]
    if not loops:
        raise AnalysisError(f"{fn.qual}: rotation neither in a recursive helper nor in a loop")
    loop = loops[0]
    it = loop.iter
    rd = RD(fn.node)
    if not (isinstance(it, ast.Call) and isinstance(it.func, ast.Name) and it.func.id == "enumerate" and it.args):
        raise AnalysisError(f"{fn.qual}: loop over `{unparse(it)[:50]}` is not enumerate(<chain>)")
    src = it.args[0]
    texts = [unparse(src)] + [unparse(d.value) for d in rd.closure(rd.uses(src)) if isinstance(d.value, ast.AST)]
    if not any("list_decay_chain_ids(" in t for t in texts):
        raise AnalysisError(f"{fn.qual}: the chain `{unparse(src)[:50]}` does not come from list_decay_chain_ids")
    down = any(t.startswith("reversed(") or "reversed(" in t or "[::-1]" in t for t in texts)
    ctx.verdict(not down, "R-CHAINORDER", key, tree.loc(loop), "axis-angle chain: index pair k carries the angles of the k-th state on the way up from the rotated state (list_decay_chain_ids order)",
                None if not down else f"the chain is walked downwards (`{unparse(src)[:50]}`): the non-commuting rotations are multiplied in reversed order")


def check_wigner_angle_table(ctx: Check, tree: Tree) -> None:
    """R-TABLE: compute_wigner_angles implements Eqs. (B.2-4) of Marangotto (2019), the reference the
    docstring names: with R = compute_wigner_rotation_matrix(topology, momenta, state_id) and the
    Lorentz indices (0, 1, 2, 3) = (t, x, y, z):
        alpha = atan2(R[3,2], R[3,1]),  beta = acos(R[3,3]),  gamma = atan2(R[2,3], -R[1,3]);
    the three angles are named alpha/beta/gamma + helicity suffix of the same state."""
    from ..inline import Inliner

    fn = tree.func("ampform.kinematics.angles::compute_wigner_angles")
    rd = RD(fn.node)
    inl = Inliner(fn.node, rd)
    rets = [r for r in walk_function(fn.node, nested=False) if isinstance(r, ast.Return) and r.value is not None]
    if len(rets) != 1:
        raise AnalysisError(f"{fn.qual}: expected one return")
    val = rets[0].value
    if isinstance(val, ast.Name):
        defs = list(rd.reaching(val))
        val = defs[0].value if len(defs) == 1 and isinstance(defs[0].value, ast.AST) else val
    if not isinstance(val, ast.Dict) or len(val.keys) != 3:
        raise AnalysisError(f"{fn.qual}: does not return a dict of three angles")

    helpers = {
        n.name: n for n in fn.node.body
        if isinstance(n, ast.FunctionDef) and isinstance(n.body[-1], ast.Return) and n.body[-1].value is not None
        and all(isinstance(b, ast.Expr) and isinstance(b.value, ast.Constant) for b in n.body[:-1])
    }

    def const_index(e):
        """a name bound once to an int literal (also through `x, y, z = 1, 2, 3`) -> the literal"""
        if isinstance(e, ast.Name):
            defs = list(rd.reaching(e))
            if len(defs) == 1 and defs[0].value is not None:
                v = defs[0].value
                if defs[0].index is not None and isinstance(v, (ast.Tuple, ast.List)) and defs[0].index < len(v.elts):
                    v = v.elts[defs[0].index]
                if isinstance(v, ast.Constant) and isinstance(v.value, int):
                    return v
        return e

    def element(node):
        """(sign, row, col) of +-ArraySlice(R, (slice(None), row, col)) with R the Wigner rotation matrix"""
        sign = 1
        node = inl.expr(node)
        if isinstance(node, ast.UnaryOp) and isinstance(node.op, ast.USub):
            sign, node = -1, inl.expr(node.operand)
        if isinstance(node, ast.Call) and isinstance(node.func, ast.Name) and node.func.id in helpers and not node.keywords:
            # a local one-expression helper `def element(row, column): return ArraySlice(R, (slice(None), row, column))`
            h = helpers[node.func.id]
            hparams = [a.arg for a in h.args.args]
            if len(hparams) == len(node.args):
                import copy

                sub = dict(zip(hparams, node.args))

                class _S(ast.NodeTransformer):
                    def visit_Name(self, n):  # noqa: N802
                        if n.id in sub:
                            return copy.deepcopy(sub[n.id])
                        outer = [d for d in rd.defs if d.name == n.id and d.value is not None and d.index is None]
                        if len(outer) == 1 and len([d for d in rd.defs if d.name == n.id]) == 1:
                            return outer[0].value  # a closure variable bound exactly once in the enclosing function
                        return n

                node = _S().visit(copy.deepcopy(h.body[-1].value))
        if not (isinstance(node, ast.Call) and unparse(node.func).endswith("ArraySlice") and len(node.args) == 2):
            return None
        base, idx = inl.expr(node.args[0]), node.args[1]
        if isinstance(idx, ast.Tuple):
            idx = ast.Tuple(elts=[const_index(e) for e in idx.elts], ctx=ast.Load())
        if not (isinstance(base, ast.Call) and tree.resolve(fn.module, base.func, fn) == "ampform.kinematics.angles::compute_wigner_rotation_matrix"):
            return None
        if [unparse(a) for a in base.args] != fn.params[:3]:
            return None
        if not (isinstance(idx, ast.Tuple) and len(idx.elts) == 3 and unparse(idx.elts[0]) == "slice(None)" and all(isinstance(e, ast.Constant) for e in idx.elts[1:])):
            return None
        return (sign, idx.elts[1].value, idx.elts[2].value)

    want = {
        "alpha": ("atan2", [(1, 3, 2), (1, 3, 1)]),
        "beta": ("acos", [(1, 3, 3)]),
        "gamma": ("atan2", [(1, 2, 3), (-1, 1, 3)]),
    }
    # which key is which angle: by position in the symbols() call / by the name stem
    names = []
    for k in val.keys:
        defs = list(rd.reaching(k)) if isinstance(k, ast.Name) else []
        stem = None
        for d in defs:
            if isinstance(d.value, ast.Call) and d.index is not None:
                arg0 = d.value.args[0] if d.value.args else None
                txt = "".join(str(v.value) if isinstance(v, ast.Constant) else "{}" for v in arg0.values) if isinstance(arg0, ast.JoinedStr) else (arg0.value if isinstance(arg0, ast.Constant) else "")
                parts = txt.split()
                if d.index < len(parts):
                    stem = parts[d.index].split("{")[0]
            elif isinstance(d.value, ast.Call) and unparse(d.value.func) in {"sp.Symbol", "sympy.Symbol", "Symbol"} and d.value.args:
                arg0 = d.value.args[0]
                txt = "".join(str(v.value) if isinstance(v, ast.Constant) else "{}" for v in arg0.values) if isinstance(arg0, ast.JoinedStr) else (arg0.value if isinstance(arg0, ast.Constant) else "")
                stem = txt.split("{")[0]
        names.append(stem)
    if sorted(n or "" for n in names) != ["alpha", "beta", "gamma"]:
        raise AnalysisError(f"{fn.qual}: angle symbols are {names}, expected alpha/beta/gamma + suffix")
    for name, v in zip(names, val.values):
        v = inl.expr(v)
        func, args = want[name]
        got = None
        if isinstance(v, ast.Call) and unparse(v.func).split(".")[-1] == func and len(v.args) == len(args):
            got = [element(a) for a in v.args]
        ok = got == args
        ctx.verdict(ok, "R-TABLE", f"{fn.qual}::{name}", tree.loc(rets[0]),
                    f"Wigner rotation angle {name} = {func}(" + ", ".join(("-" if s < 0 else "") + f"R[{i},{j}]" for s, i, j in args) + ") (Marangotto 2019, B.2-4)",
                    None if ok else {"code": unparse(v)[:120], "elements": got})


def check_axisangle_amplitude(ctx: Check, tree: Tree) -> None:
    """R-SUMMAND (axis-angle): the aligned amplitude is the sum over ALL topology groups of
    PoolSum(alignment rotations * amplitude symbol of that topology, <all alignment indices>)."""
    fn = tree.func("ampform.helicity.align.axisangle::AxisAngleAlignment.formulate_amplitude")
    rd = RD(fn.node)
    rets = [r for r, _ in rd.returns if r.value is not None]
    if len(rets) != 1 or not isinstance(rets[0].value, ast.Name):
        raise AnalysisError(f"{fn.qual}: expected `return <accumulator>`")
    acc = rets[0].value.id
    loops = [n for n in walk_function(fn.node) if isinstance(n, ast.For)]
    incs = [n for n in walk_function(fn.node) if isinstance(n, ast.AugAssign) and isinstance(n.target, ast.Name) and n.target.id == acc]
    problems = []
    inits = [d for d in rd.defs if d.name == acc and d.kind == "assign"]
    if not (len(inits) == 1 and unparse(inits[0].value) in {"sp.S.Zero", "0", "sp.Integer(0)"}):
        problems.append("the accumulator does not start at 0")
    if len(incs) != 1 or not isinstance(incs[0].op, ast.Add):
        problems.append(f"{len(incs)} accumulation statements (one `+=` expected)")
    else:
        inc = incs[0]
        outer = [a for a in ancestors(inc) if isinstance(a, ast.For)]
        if not outer or "group_by_topology" not in " ".join([unparse(outer[-1].iter)] + [unparse(d.value) for d in rd.closure(rd.uses(outer[-1].iter)) if isinstance(d.value, ast.AST)]):
            problems.append("the accumulation is not inside the loop over all topology groups")
        if any(isinstance(a, ast.If) for a in ancestors(inc) if a is not fn.node and any(a is x for x in ast.walk(fn.node))):
            problems.append("the accumulation is conditional")
        v = inc.value
        if not (isinstance(v, ast.Call) and unparse(v.func).endswith("PoolSum") and v.args):
            problems.append(f"`{unparse(v)[:50]}` is not a PoolSum")
        else:
            summand = v.args[0]
            facs = _factors(summand)
            texts = []
            for f in facs:
                texts.append(" ".join([unparse(f)] + [unparse(d.value) for d in rd.closure(rd.uses(f)) if isinstance(d.value, ast.AST)]))
            has_align = any("formulate_axis_angle_alignment(" in t and ".expression" in unparse(f) for f, t in zip(facs, texts))
            has_amp = any("create_amplitude_base(" in t for t in texts)
            if not (len(facs) == 2 and has_align and has_amp):
                problems.append(f"summand `{unparse(summand)[:60]}` is not <alignment sum>.expression * <amplitude symbol of the topology>")
            stars = [a for a in v.args[1:] if isinstance(a, ast.Starred)]
            if not (len(stars) == 1 and unparse(stars[0].value).endswith(".indices") and "formulate_axis_angle_alignment(" in " ".join(unparse(d.value) for d in rd.closure(rd.uses(stars[0].value)) if isinstance(d.value, ast.AST))):
                problems.append("the PoolSum does not range over all indices of the alignment sum")
    ctx.verdict(not problems, "R-SUMMAND", f"{fn.qual}::sum-over-topologies", tree.loc(fn.node),
                "axis-angle: amplitude = sum over all topology groups of PoolSum(alignment.expression * A^topology[helicities], *alignment.indices)", problems or None)


def check_axisangle_structure(ctx: Check, tree: Tree) -> None:
    """Further structural obligations of the axis-angle alignment (all in helicity/align/axisangle.py):
    (a) formulate_rotation_chain returns the helicity rotations alone iff there is exactly one
        (the particle is a direct child of the initial state), otherwise their product with the
        Wigner rotation, whose summation index is the next free index name;
    (b) define_symbols defines (alpha, beta, gamma) for exactly the final states whose parent is
        not the initial state and merges every result;
    (c) __multiply_pool_sums multiplies all summands and concatenates ALL index lists;
    (d) get_opposite_helicity_sign is -1 iff the state is not the initial state and is the
        opposite-helicity state, +1 otherwise."""
    mod = "ampform.helicity.align.axisangle"
    # (a)
    fn = tree.func(f"{mod}::formulate_rotation_chain")
    rd = RD(fn.node)
    problems = []
    rets = [r for r, _ in rd.returns if r.value is not None]
    early = [r for r in rets if isinstance(r.value, ast.Name) and any(d.value is not None and "formulate_helicity_rotation_chain(" in unparse(d.value) for d in rd.reaching(r.value))]
    if len(early) != 1:
        problems.append("no early return of the bare helicity rotations")
    else:
        guards = [a for a in ancestors(early[0]) if isinstance(a, ast.If)]
        name = early[0].value.id
        t = guards[0].test if len(guards) == 1 else None
        ok_t = (isinstance(t, ast.Compare) and len(t.ops) == 1 and isinstance(t.ops[0], ast.Eq) and isinstance(t.comparators[0], ast.Constant) and t.comparators[0].value == 1
                and unparse(t.left).replace(" ", "") == f"len({name}.indices)")
        if not ok_t:
            problems.append(f"the bare helicity rotations are returned under `{unparse(t) if t is not None else '?'}`, not iff there is exactly one rotation")
    final = [r for r in rets if r not in early]
    if len(final) != 1 or not (isinstance(final[0].value, ast.Call) and "__multiply_pool_sums" in unparse(final[0].value.func)):
        problems.append("the general case does not return the product of helicity rotations and Wigner rotation")
    else:
        txt = " ".join(unparse(d.value) for d in rd.closure(rd.uses(final[0].value)) if isinstance(d.value, ast.AST)) + unparse(final[0].value)
        if "formulate_wigner_rotation(" not in txt or "formulate_helicity_rotation_chain(" not in txt:
            problems.append("the product does not contain both the helicity rotations and the Wigner rotation")
        wr = [c for c in walk_function(fn.node) if isinstance(c, ast.Call) and unparse(c.func).endswith("formulate_wigner_rotation")]
        if len(wr) == 1:
            mp = next((k.value for k in wr[0].keywords if k.arg == "m_prime"), None)
            mtxt = " ".join(unparse(d.value) for d in rd.closure(rd.uses(mp)) if isinstance(d.value, ast.AST)) if mp is not None else ""
            if early and f"__GREEK_INDEX_NAMES[len({early[0].value.id}.indices)]" not in mtxt.replace(" ", "").replace("len(", "len(") and "__GREEK_INDEX_NAMES[len(" not in mtxt:
                problems.append("the Wigner rotation's summation index is not the next free index name")
    # both kinds of rotation act on the SAME outer index: the spin-projection symbol of the rotated state.
    # A value that can be None makes formulate_wigner_rotation fall back to the concrete projection of
    # one transition: the D-matrix row is then fixed instead of summed, the rotation no longer unitary.
    def bound_symbol(call: ast.Call, callee_q: str, pname: str):
        target = tree.funcs.get(callee_q)
        if target is None:
            return None
        for k in call.keywords:
            if k.arg == pname:
                return k.value
        if pname in target.params:
            i = target.params.index(pname)
            if i < len(call.args) and not any(isinstance(a, ast.Starred) for a in call.args[: i + 1]):
                return call.args[i]
        return None

    def never_none_symbol(e, depth=0) -> bool:
        if e is None or depth > 4:
            return False
        if isinstance(e, ast.Call) and unparse(e.func).endswith("create_spin_projection_symbol") and len(e.args) == 1 and unparse(e.args[0]) == fn.params[1]:
            return True
        if isinstance(e, ast.BoolOp) and isinstance(e.op, ast.Or):
            return never_none_symbol(e.values[-1], depth + 1)
        if isinstance(e, ast.IfExp):
            return never_none_symbol(e.body, depth + 1) and never_none_symbol(e.orelse, depth + 1)
        if isinstance(e, ast.Name):
            defs = list(rd.reaching(e))
            return bool(defs) and all(d.value is not None and d.index is None and never_none_symbol(d.value, depth + 1) for d in defs)
        return False

    bound = []
    for suffix, q in (("formulate_helicity_rotation_chain", f"{mod}::formulate_helicity_rotation_chain"), ("formulate_wigner_rotation", f"{mod}::formulate_wigner_rotation")):
        for c in [c for c in walk_function(fn.node) if isinstance(c, ast.Call) and unparse(c.func).endswith(suffix)]:
            e = bound_symbol(c, q, "helicity_symbol")
            bound.append((suffix, e))
            if e is None:
                problems.append(f"{suffix}(...) is called without the outer helicity symbol (falls back to the concrete projection of one transition)")
            elif not never_none_symbol(e):
                problems.append(f"{suffix}(... helicity_symbol=`{unparse(e)[:50]}`) is not always create_spin_projection_symbol({fn.params[1]}): it may be None / another symbol")
    if len(bound) < 2:
        raise AnalysisError(f"{fn.qual}: expected calls of formulate_helicity_rotation_chain and formulate_wigner_rotation")
    ctx.verdict(not problems, "R-WIRING", f"{fn.qual}::wigner-iff-nested", tree.loc(fn.node),
                "formulate_rotation_chain: one helicity rotation -> returned alone; more -> times the Wigner rotation with the next free summation index", problems or None)
    # (b)
    fn = tree.func(f"{mod}::AxisAngleAlignment.define_symbols")
    rd = RD(fn.node)
    problems = []
    calls = [c for c in walk_function(fn.node) if isinstance(c, ast.Call) and unparse(c.func).endswith("compute_wigner_angles")]
    if len(calls) != 1:
        raise AnalysisError(f"{fn.qual}: expected one call of compute_wigner_angles")
    c = calls[0]
    returned = {n.id for r, _ in rd.returns if r.value is not None for n in ast.walk(r.value) if isinstance(n, ast.Name)}
    merged = False
    for d in rd.defs:
        if d.value is c:
            for node in walk_function(fn.node):
                if isinstance(node, ast.Call) and isinstance(node.func, ast.Attribute) and node.func.attr == "update" and isinstance(node.func.value, ast.Name) and node.func.value.id in returned:
                    if any(isinstance(n, ast.Name) and d in rd.reaching(n) for a_ in node.args for n in ast.walk(a_)):
                        merged = True
    for a in ancestors(c):
        if isinstance(a, ast.Call) and isinstance(a.func, ast.Attribute) and a.func.attr == "update" and isinstance(a.func.value, ast.Name) and a.func.value.id in returned:
            merged = True
    if not merged:
        problems.append("the angles returned by compute_wigner_angles are not merged into the returned dictionary")
    sid = c.args[2] if len(c.args) > 2 else None
    stexts = [unparse(d.value) for d in rd.closure(rd.uses(sid)) if isinstance(d.value, ast.AST)] + [unparse(d.node.iter) for d in rd.closure(rd.uses(sid)) if d.kind == "for" and isinstance(d.node, ast.For)] if sid is not None else []
    filt = None
    for node in walk_function(fn.node):
        if isinstance(node, (ast.SetComp, ast.ListComp, ast.GeneratorExp)) and any("get_parent_id" in unparse(i) for g in node.generators for i in g.ifs):
            filt = node
    if filt is None:
        problems.append("the rotated states are not selected by their parent (get_parent_id)")
    else:
        g = filt.generators[0]
        cond = next(i for i in g.ifs if "get_parent_id" in unparse(i))
        ok_c = isinstance(cond, ast.Compare) and len(cond.ops) == 1 and isinstance(cond.ops[0], ast.NotEq) and unparse(cond.comparators[0]) in {"-1"} and "outgoing_edge_ids" in unparse(g.iter)
        if not ok_c:
            problems.append(f"selection `{unparse(cond)}` over `{unparse(g.iter)}` is not: final states whose parent is not the initial state")
    ctx.verdict(not problems, "R-WIRING", f"{fn.qual}::defines-nested-final-states", tree.loc(fn.node),
                "AxisAngleAlignment.define_symbols: Wigner angles for every final state whose parent is not the initial state, all merged into the result", problems or None)
    # (c)
    fn = tree.func(f"{mod}::__multiply_pool_sums")
    rd = RD(fn.node)
    problems = []
    param = fn.params[0]
    rets = [r for r, _ in rd.returns if r.value is not None]
    if len(rets) != 1 or not (isinstance(rets[0].value, ast.Call) and unparse(rets[0].value.func).endswith("PoolSum") and len(rets[0].value.args) == 2 and isinstance(rets[0].value.args[1], ast.Starred)):
        problems.append("does not return PoolSum(product, *indices)")
    else:
        prod, idx = rets[0].value.args[0], rets[0].value.args[1].value
        ptxt = " ".join([unparse(prod)] + [unparse(d.value) for d in rd.closure(rd.uses(prod)) if isinstance(d.value, ast.AST)])
        if not ("sp.Mul(*" in ptxt and ".expression" in ptxt and f"in {param}" in ptxt):
            problems.append("the summand is not the product of the summands of all factors")
        ext = [n for n in walk_function(fn.node) if isinstance(n, ast.Call) and isinstance(n.func, ast.Attribute) and n.func.attr in {"extend"} and isinstance(idx, ast.Name) and unparse(n.func.value) == idx.id]
        ok_e = len(ext) == 1 and unparse(ext[0].args[0]).endswith(".indices") and any(isinstance(a, ast.For) and unparse(a.iter) == param for a in ancestors(ext[0])) and not any(isinstance(a, ast.If) for a in ancestors(ext[0]) if any(a is x for x in ast.walk(fn.node)) and a is not fn.node)
        if not ok_e:
            problems.append("the index lists of all factors are not concatenated unconditionally")
    ctx.verdict(not problems, "R-WIRING", f"{fn.qual}::product-of-sums", tree.loc(fn.node), "__multiply_pool_sums: PoolSum(product of all summands, *indices of all factors)", problems or None)
    # (e) the complete alignment = neutral element times the rotation chain of EVERY final state
    fn = tree.func(f"{mod}::formulate_axis_angle_alignment")
    rd = RD(fn.node)
    problems = []
    rets = [r for r, _ in rd.returns if r.value is not None]
    acc = rets[0].value.id if len(rets) == 1 and isinstance(rets[0].value, ast.Name) else None
    if acc is None:
        problems.append("does not return an accumulator")
    else:
        inits = [d for d in rd.defs if d.name == acc and d.kind == "assign" and not any(isinstance(a, ast.For) for a in ancestors(d.node))]
        if not (len(inits) == 1 and unparse(inits[0].value).replace(" ", "") in {"PoolSum(1)", "PoolSum(sp.S.One)", "PoolSum(sp.Integer(1))"}):
            problems.append(f"the product does not start from the neutral element PoolSum(1) ({[unparse(d.value) for d in inits]})")
        steps = [d for d in rd.defs if d.name == acc and d.kind == "assign" and any(isinstance(a, ast.For) for a in ancestors(d.node))]
        if len(steps) != 1:
            problems.append("no single accumulation step inside the loop over the final states")
        else:
            st = steps[0]
            loop = next(a for a in ancestors(st.node) if isinstance(a, ast.For))
            txt = unparse(st.value) + " ".join(unparse(d.value) for d in rd.closure(rd.uses(st.value)) if isinstance(d.value, ast.AST))
            if not (unparse(loop.iter).endswith(".final_states") and "__multiply_pool_sums" in unparse(st.value) and "formulate_rotation_chain(" in txt and acc in {n.id for n in ast.walk(st.value) if isinstance(n, ast.Name)}):
                problems.append("the accumulator is not multiplied by formulate_rotation_chain(transition, state) for every final state")
            if any(isinstance(a, ast.If) for a in ancestors(st.node) if any(a is x for x in ast.walk(fn.node)) and a is not fn.node):
                problems.append("the accumulation is conditional")
    ctx.verdict(not problems, "R-WIRING", f"{fn.qual}::all-final-states", tree.loc(fn.node), "formulate_axis_angle_alignment = PoolSum(1) x rotation chain of every final state", problems or None)
    # (f) the Wigner rotation acts on the helicity symbol that is handed in and uses (alpha, beta, gamma) of that state
    fn = tree.func(f"{mod}::formulate_wigner_rotation")
    rd = RD(fn.node)
    problems = []
    calls = [c for c in walk_function(fn.node) if isinstance(c, ast.Call) and unparse(c.func).endswith("formulate_helicity_rotation")]
    if len(calls) != 1:
        raise AnalysisError(f"{fn.qual}: expected one call of formulate_helicity_rotation")
    kw = {k.arg: k.value for k in calls[0].keywords}
    spd = list(rd.reaching(kw["spin_projection"])) if isinstance(kw.get("spin_projection"), ast.Name) else []
    ok_sp = False
    if len(spd) == 2:
        by = {}
        for d in spd:
            g = [a for a in ancestors(d.node) if isinstance(a, ast.If)]
            if len(g) == 1:
                in_body = any(d.node is n for b in g[0].body for n in ast.walk(b))
                t = g[0].test
                negated = False
                while isinstance(t, ast.UnaryOp) and isinstance(t.op, ast.Not):
                    t, negated = t.operand, not negated
                is_none = isinstance(t, ast.Compare) and isinstance(t.ops[0], ast.Is) and unparse(t.left) == "helicity_symbol" and unparse(t.comparators[0]) == "None"
                is_not_none = isinstance(t, ast.Compare) and isinstance(t.ops[0], ast.IsNot) and unparse(t.left) == "helicity_symbol" and unparse(t.comparators[0]) == "None"
                if negated:
                    is_none, is_not_none = is_not_none, is_none
                symbol_given = (is_none and not in_body) or (is_not_none and in_body)
                by["given" if symbol_given else "none"] = unparse(d.value)
        ok_sp = by.get("given") == "helicity_symbol" and by.get("none", "").endswith(".spin_projection")
    elif len(spd) == 1:
        ok_sp = unparse(spd[0].value) == "helicity_symbol"
    if not ok_sp:
        problems.append("spin_projection is not the helicity symbol that was handed in (state.spin_projection only when none is given)")
    for ang in ("alpha", "beta", "gamma"):
        v = kw.get(ang)
        txt = unparse(v) if v is not None else ""
        if not (txt.startswith("sp.Symbol(f'" + ang + "{") and "real=True" in txt):
            problems.append(f"{ang} is `{txt[:40]}`, not Symbol('{ang}' + helicity suffix, real=True)")
    if unparse(kw.get("m_prime", ast.Constant(None))) != "m_prime":
        problems.append("m_prime is not passed on")
    if "mass == 0" not in " ".join(unparse(d.value) for d in rd.closure(rd.uses(kw["no_zero_spin"])) if isinstance(d.value, ast.AST)) if "no_zero_spin" in kw else True:
        problems.append("no_zero_spin is not `mass == 0` of the rotated state")
    ctx.verdict(not problems, "R-WIRING", f"{fn.qual}::arguments", tree.loc(fn.node), "formulate_wigner_rotation: D^s_{m', m}(alpha, beta, gamma) with m = the helicity symbol handed in, the state's own (alpha, beta, gamma) symbols and m'", problems or None)
    # (g) the Euler rotation: D(j = s, m = projection, mp = m', alpha, beta, gamma) summed over m' in the spin range
    fn = tree.func(f"{mod}::formulate_helicity_rotation")
    dcalls = [c for c in walk_function(fn.node) if isinstance(c, ast.Call) and isinstance(c.func, ast.Attribute) and c.func.attr == "D"]
    problems = []
    if len(dcalls) != 1:
        raise AnalysisError(f"{fn.qual}: expected one Wigner.D call")
    kw = {k.arg: unparse(k.value) for k in dcalls[0].keywords}
    pos = [unparse(a) for a in dcalls[0].args]
    got = {**dict(zip(["j", "m", "mp", "alpha", "beta", "gamma"], pos)), **kw}
    want = {"mp": "m_prime", "alpha": "alpha", "beta": "beta", "gamma": "gamma"}
    for k_, w in want.items():
        if got.get(k_) != w:
            problems.append(f"D(..., {k_}={got.get(k_)}) instead of {w}")
    if "spin_magnitude" not in got.get("j", "") or "spin_projection" not in got.get("m", ""):
        problems.append(f"j = {got.get('j')}, m = {got.get('m')}")
    ctx.verdict(not problems, "R-WIRING", f"{fn.qual}::wigner-d-arguments", tree.loc(fn.node), "formulate_helicity_rotation: Wigner.D(j = spin, m = projection, mp = m', alpha, beta, gamma)", problems or None)
    # (d)
    fn = tree.func(f"{mod}::get_opposite_helicity_sign")
    problems = []
    ifs = [n for n in walk_function(fn.node) if isinstance(n, ast.If)]
    rets_all = [r for r in walk_function(fn.node) if isinstance(r, ast.Return)]
    ok_d = False
    if len(ifs) == 1 and len(rets_all) == 2:
        t = ifs[0].test
        ops = t.values if isinstance(t, ast.BoolOp) and isinstance(t.op, ast.And) else [t]
        opp = [o for o in ops if isinstance(o, ast.Call) and unparse(o.func).endswith("is_opposite_helicity_state") and [unparse(a) for a in o.args] == fn.params[:2]]
        rest = [o for o in ops if o not in opp]
        rest_ok = all(isinstance(o, ast.Compare) and len(o.ops) == 1 and isinstance(o.ops[0], ast.NotEq) and unparse(o.left) == fn.params[1] and unparse(o.comparators[0]) == "-1" for o in rest)
        inner = [r for r in ifs[0].body if isinstance(r, ast.Return)]
        outer = [r for r in rets_all if r not in inner]
        ok_d = len(opp) == 1 and rest_ok and len(inner) == 1 and unparse(inner[0].value) == "-1" and len(outer) == 1 and unparse(outer[0].value) == "1"
    ctx.verdict(ok_d, "R-WIRING", f"{fn.qual}::sign", tree.loc(fn.node), "get_opposite_helicity_sign: -1 iff the state is the opposite-helicity state (and not the initial state), else +1")


def check_dpd_generator(ctx: Check, tree: Tree) -> None:
    """R-WIRING (DPD): the Wigner-d generator returns 1 only for spin 0, otherwise
    Wigner.d(j, m, m', zeta) with zeta = formulate_zeta_angle(rotated state, aligned subsystem,
    THIS alignment's reference subsystem), and registers the definition of every zeta it uses;
    the alignment hands out component 0 as amplitude and component 1 as symbol definitions; the
    relabelling shifts every edge id by one (-1..3 -> 0..4)."""
    mod = "ampform.helicity.align.dpd"
    cls = tree.cls(f"{mod}::_DPDAlignmentWignerGenerator")
    call = cls.methods.get("__call__")
    init = cls.methods.get("__init__")
    if call is None or init is None:
        raise AnalysisError("vanished anchor: _DPDAlignmentWignerGenerator.__call__/__init__")
    rd = RD(call.node)
    problems = []
    j = call.params[1]
    short = [n for n in walk_function(call.node) if isinstance(n, ast.If) and any(isinstance(b, ast.Return) for b in n.body)]
    for n in short:
        t = n.test
        ok_t = isinstance(t, ast.Compare) and len(t.ops) == 1 and isinstance(t.ops[0], ast.Eq) and unparse(t.left) == j and unparse(t.comparators[0]) == "0"
        r = next(b for b in n.body if isinstance(b, ast.Return))
        ok_v = unparse(r.value) in {"sp.Rational(1)", "1", "sp.S.One", "sp.Integer(1)"}
        if not (ok_t and ok_v):
            problems.append(f"shortcut `if {unparse(t)}: return {unparse(r.value)}` is not `if {j} == 0: return 1`")
    finals = [r for r in walk_function(call.node, nested=False) if isinstance(r, ast.Return) and not any(isinstance(a, ast.If) for a in ancestors(r))]
    if len(finals) != 1 or not (isinstance(finals[0].value, ast.Call) and unparse(finals[0].value.func).endswith(".d")):
        problems.append("the general case does not return Wigner.d(...)")
    else:
        dargs = [unparse(a) for a in finals[0].value.args]
        if dargs[:3] != call.params[1:4]:
            problems.append(f"Wigner.d arguments {dargs[:3]} are not (j, m, m_prime) as received")
        zeta = finals[0].value.args[3] if len(finals[0].value.args) > 3 else None
        zdefs = list(rd.reaching(zeta)) if isinstance(zeta, ast.Name) else []
        zcall = zdefs[0].value if len(zdefs) == 1 and isinstance(zdefs[0].value, ast.Call) else None
        if zcall is None or not unparse(zcall.func).endswith("formulate_zeta_angle") or zdefs[0].index != 0:
            problems.append("zeta is not the symbol returned by formulate_zeta_angle")
        else:
            zargs = [unparse(a) for a in zcall.args]
            if zargs != [call.params[4], call.params[5], "self.reference_subsystem"]:
                problems.append(f"formulate_zeta_angle{tuple(zargs)} is not (rotated_state, aligned_subsystem, self.reference_subsystem)")
            stores = [n for n in walk_function(call.node) if isinstance(n, ast.Assign) and isinstance(n.targets[0], ast.Subscript) and unparse(n.targets[0].value) == "self.angle_definitions"]
            ok_store = len(stores) == 1 and isinstance(stores[0].value, ast.Name) and any(d.value is zcall and d.index == 1 for d in rd.reaching(stores[0].value)) and unparse(stores[0].targets[0].slice) == unparse(zeta) \
                and not any(isinstance(a, ast.If) for a in ancestors(stores[0]))
            if not ok_store:
                problems.append("the definition of zeta is not registered in self.angle_definitions on the general path")
    ok_init = any(isinstance(n, ast.Assign) and unparse(n.targets[0]) == "self.reference_subsystem" and unparse(n.value) == init.params[1] for n in walk_function(init.node))
    if not ok_init:
        problems.append("__init__ does not keep the reference subsystem")
    ctx.verdict(not problems, "R-WIRING", f"{cls.qual}::generator", tree.loc(call.node),
                "DPD Wigner-d generator: 1 iff j == 0, else Wigner.d(j, m, m', zeta(rotated state, aligned subsystem, own reference)) with zeta's definition registered", problems or None)
    # components of the memoised pair
    al = tree.cls(f"{mod}::DalitzPlotDecomposition")
    comp = {}
    for name in ("formulate_amplitude", "define_symbols"):
        m = al.methods.get(name)
        subs_ = [n for n in walk_function(m.node) if isinstance(n, ast.Subscript) and isinstance(n.value, ast.Call) and unparse(n.value.func).endswith("_formulate_aligned_amplitude")] if m else []
        comp[name] = (unparse(subs_[0].slice), [unparse(a) for a in subs_[0].value.args]) if len(subs_) == 1 else None
    ok = comp["formulate_amplitude"] == ("0", ["reaction", "self.reference_subsystem"]) and comp["define_symbols"] == ("1", ["reaction", "self.reference_subsystem"])
    ctx.verdict(ok, "R-WIRING", f"{al.qual}::components", tree.loc(al.node), "DalitzPlotDecomposition: amplitude = component 0, symbol definitions = component 1 of _formulate_aligned_amplitude(reaction, own reference subsystem)",
                None if ok else comp)
    # relabelling -1..3 -> 0..4
    rel = tree.func(f"{mod}::__get_default_relabel_mapping")
    rets = [r for r in walk_function(rel.node) if isinstance(r, ast.Return) and r.value is not None]
    ok = False
    if len(rets) == 1 and isinstance(rets[0].value, ast.DictComp) and len(rets[0].value.generators) == 1 and isinstance(rets[0].value.generators[0].target, ast.Name):
        dc = rets[0].value
        v = dc.generators[0].target.id
        import re as _re

        txt = _re.sub(rf"\b{_re.escape(v)}\b", "_", unparse(dc)).replace(" ", "")
        ok = txt in {"{_-1:_for_inrange(5)}", "{_:_+1for_inrange(-1,4)}"}
    if not ok and len(rets) == 1 and isinstance(rets[0].value, ast.Dict):
        try:
            lit = {ast.literal_eval(k): ast.literal_eval(v) for k, v in zip(rets[0].value.keys, rets[0].value.values)}
            ok = lit == {-1: 0, 0: 1, 1: 2, 2: 3, 3: 4}
        except Exception:  # noqa: BLE001
            ok = False
    ctx.verdict(ok, "R-WIRING", f"{rel.qual}::shift-by-one", tree.loc(rel.node), "DPD relabelling maps the edge ids -1, 0, 1, 2, 3 to 0, 1, 2, 3, 4 (initial state 0, final states 1..3, resonance 4)")


def check_wigner_rotation_matrix(ctx: Check, tree: Tree) -> None:
    """R-WIRING (Wigner rotation, Marangotto 2019 Eq. 36): the rotation matrix of a final state is
    B(-p) . B_n ... B_1, the inverse of the direct boost times the chain of boosts from the first
    resonance down to the state, where B_k = BoostMatrix(momentum of the k-th chain member in the frame
    reached so far) and EVERY boost is applied to all momenta that are still needed and is collected."""
    fn = tree.func("ampform.kinematics.angles::compute_wigner_rotation_matrix")
    rd = RD(fn.node)
    rets = [r for r, _ in rd.returns if r.value is not None]
    problems = []
    if len(rets) != 1 or not (isinstance(rets[0].value, ast.Call) and unparse(rets[0].value.func).endswith("MatrixMultiplication")):
        problems.append("does not return a MatrixMultiplication")
    else:
        args = rets[0].value.args
        first = args[0] if args else None
        ftxt = " ".join([unparse(first)] + [unparse(d.value) for d in rd.closure(rd.uses(first)) if isinstance(d.value, ast.AST)]) if first is not None else ""
        if not ("BoostMatrix(NegativeMomentum(" in ftxt.replace(" ", "") and f"{fn.params[1]}[{fn.params[2]}]" in ftxt.replace(" ", "")):
            problems.append("the first factor is not BoostMatrix(NegativeMomentum(momenta[state_id])) - the inverse of the direct boost")
        star = [a for a in args[1:] if isinstance(a, ast.Starred)]
        stxt = " ".join(unparse(d.value) for d in rd.closure(rd.uses(star[0].value)) if isinstance(d.value, ast.AST)) if len(star) == 1 else ""
        if len(args) != 2 or len(star) != 1 or f"compute_boost_chain({', '.join(fn.params[:3])})" not in stxt:
            problems.append("the remaining factors are not *compute_boost_chain(topology, momenta, state_id), in chain order")
    ctx.verdict(not problems, "R-WIRING", f"{fn.qual}::inverse-direct-boost-times-chain", tree.loc(fn.node),
                "Wigner rotation matrix = BoostMatrix(-p_state) . *compute_boost_chain(topology, momenta, state)", problems or None)
    ch = tree.func("ampform.kinematics.lorentz::compute_boost_chain")
    rd = RD(ch.node)
    problems = []
    rets = [r for r, _ in rd.returns if r.value is not None]
    acc = rets[0].value.id if len(rets) == 1 and isinstance(rets[0].value, ast.Name) else None
    loops = [n for n in walk_function(ch.node) if isinstance(n, ast.For)]
    if acc is None or len(loops) != 1:
        raise AnalysisError(f"{ch.qual}: expected `for state in chain: ...; return <list>`")
    loop = loops[0]
    ltxt = " ".join([unparse(loop.iter)] + [unparse(d.value) for d in rd.closure(rd.uses(loop.iter)) if isinstance(d.value, ast.AST)])
    if "__get_boost_chain_ids(" not in ltxt:
        problems.append("the loop does not run over the boost chain ids (first resonance ... state)")
    apps = [n for n in walk_function(loop) if isinstance(n, ast.Call) and isinstance(n.func, ast.Attribute) and n.func.attr == "append" and unparse(n.func.value) == acc]
    if len(apps) != 1 or any(isinstance(a, ast.If) for a in ancestors(apps[0]) if any(a is x for x in ast.walk(loop))):
        problems.append("not every boost of the chain is collected")
    else:
        b = apps[0].args[0]
        btxt = " ".join([unparse(b)] + [unparse(d.value) for d in rd.closure(rd.uses(b)) if isinstance(d.value, ast.AST)])
        if "BoostMatrix(" not in btxt or f"[{unparse(loop.target)}]" not in btxt.replace(" ", ""):
            problems.append("the collected matrix is not BoostMatrix(current momentum of the loop's state)")
        # the pool of momenta is re-boosted in every step
        rebinds = [n for n in walk_function(loop) if isinstance(n, ast.Assign) and isinstance(n.value, ast.DictComp)]
        ok_re = False
        for r_ in rebinds:
            v = r_.value
            if isinstance(v.value, ast.Call) and unparse(v.value.func).endswith("ArrayMultiplication") and len(v.value.args) == 2 and not v.generators[0].ifs:
                first_ok = isinstance(v.value.args[0], ast.Name) and isinstance(b, ast.Name) and rd.reaching(v.value.args[0]) == rd.reaching(b)
                src_ok = unparse(v.generators[0].iter) == f"{unparse(r_.targets[0])}.items()"
                ok_re = ok_re or (first_ok and src_ok)
        if not ok_re:
            problems.append("the momenta are not all transformed by the boost of this step before the next step")
    ctx.verdict(not problems, "R-WIRING", f"{ch.qual}::chain", tree.loc(ch.node),
                "compute_boost_chain: for every chain member, in order: boost = BoostMatrix(its momentum in the current frame), all pooled momenta boosted, boost collected", problems or None)
    ids = tree.func("ampform.kinematics.lorentz::__get_boost_chain_ids")
    txt = unparse(ids.node).replace(" ", "")
    ok = "list(reversed(list_decay_chain_ids(topology,state_id)))" in txt and ".remove(" in txt and "incoming_edge_ids" in txt
    ctx.verdict(ok, "R-WIRING", f"{ids.qual}::order", tree.loc(ids.node), "the boost chain runs from the first resonance down to the state (reversed decay chain without the initial state)")


def check_symbols_not_split(ctx: Check, tree: Tree) -> None:
    """R-SYMSPLIT: sp.symbols() splits its argument at commas and spaces.  A name that contains text
    interpolated from a naming function may contain both: the helicity / boost-chain suffix of a state
    below a nested resonance is e.g. `_2^23,123`.  `a, b, c = sp.symbols(f"a{suffix} b{suffix} c{suffix}")`
    then raises `too many values to unpack` - formulating an axis-angle aligned model fails for every
    decay with four or more final states.  Interpolated parts of an sp.symbols() string must be
    separator-free by construction: integer ids, or functions that join digits without separator."""
    from ..dataflow import RD as _RD

    def may_contain_separator(qual: str, depth: int = 0) -> bool:
        fn = tree.funcs.get(qual)
        if fn is None or depth > 3:
            return False
        for n in walk_function(fn.node, nested=True):
            if isinstance(n, ast.Constant) and isinstance(n.value, str) and ("," in n.value or " " in n.value) and not (
                isinstance(getattr(n, "_parent", None), ast.Expr)):
                par = getattr(n, "_parent", None)
                # separators that end up in the returned text: f-string parts, join separators, concatenation
                if isinstance(par, (ast.JoinedStr, ast.BinOp)) or (isinstance(par, ast.Attribute) and par.attr == "join"):
                    return True
            if isinstance(n, ast.Call):
                callee = tree.callee(n, tree.func_of(n) or fn)
                if callee and callee != qual and callee.startswith("ampform") and may_contain_separator(callee, depth + 1):
                    return True
        return False

    n = 0
    for q, fn in sorted(tree.funcs.items()):
        if not q.startswith("ampform") or fn.outer is not None:
            continue
        rd = None
        for call in [c for c in walk_function(fn.node, nested=True) if isinstance(c, ast.Call) and unparse(c.func) in {"sp.symbols", "sympy.symbols", "symbols"} and c.args and isinstance(c.args[0], ast.JoinedStr)]:
            rd = rd or _RD(fn.node)
            n += 1
            bad = []
            for part in call.args[0].values:
                if not isinstance(part, ast.FormattedValue):
                    continue
                exprs = [part.value] + [d.value for d in rd.closure(rd.uses(part.value)) if isinstance(d.value, ast.AST)]
                for e in exprs:
                    for c in [x for x in ast.walk(e) if isinstance(x, ast.Call)]:
                        callee = tree.callee(c, tree.func_of(call) or fn)
                        if callee and callee.startswith("ampform") and may_contain_separator(callee):
                            bad.append(f"`{{{unparse(part.value)}}}` comes from {callee.split('::')[-1]}(), whose result can contain `,` or a space")
            ctx.verdict(not bad, "R-SYMSPLIT", f"{q}::symbols-{len(call.args[0].values)}", tree.loc(call),
                        f"{q}: `{unparse(call)[:70]}` interpolates only separator-free text into sp.symbols()", sorted(set(bad)) or None)
    if n == 0:
        ctx.ok("R-SYMSPLIT", "src/ampform", "no sp.symbols() call with interpolated text")


def check_full_range(ctx: Check, tree: Tree) -> None:
    """R-FULLRANGE: a Wigner-D matrix is unitary only over the complete index set -s..s.  Every
    summation pool of the alignment rotations is therefore `create_spin_range(s)` without the
    `no_zero_spin` restriction - with it (massless states) the helicity rotation is a 2x2 block of a 3x3
    unitary matrix and the aligned intensity differs from the unaligned one."""
    target = "ampform.helicity.align._spin::create_spin_range"
    if target not in tree.funcs:
        raise AnalysisError("vanished anchor: create_spin_range")
    tparams = tree.funcs[target].params
    flag_name = tparams[1] if len(tparams) > 1 else None
    callers: dict[str, list] = {}
    for q, fn in tree.funcs.items():
        for call, callee in tree.calls_in(fn):
            if callee:
                callers.setdefault(callee, []).append((fn, call))

    def flag_of(call: ast.Call, callee_params: list[str], name: str):
        for k in call.keywords:
            if k.arg == name:
                return k.value
        if name in callee_params:
            i = callee_params.index(name)
            if i < len(call.args):
                return call.args[i]
        return None

    def sources(fn, e, depth=0, seen=None) -> list[str]:
        """non-constant origins of a flag expression (follows parameters to the callers)"""
        seen = seen if seen is not None else set()
        if e is None or (isinstance(e, ast.Constant) and e.value is False):
            return []
        if isinstance(e, ast.Name) and e.id in fn.params and depth < 4:
            dflt = None
            a = fn.node.args
            names = [x.arg for x in a.posonlyargs + a.args]
            d = dict(zip(names[len(names) - len(a.defaults):], a.defaults))
            dflt = d.get(e.id)
            out = []
            if dflt is not None and not (isinstance(dflt, ast.Constant) and dflt.value is False):
                out.append(f"default `{unparse(dflt)}` of {fn.qual.split('::')[-1]}")
            for cfn, call in callers.get(fn.qual, []):
                if (cfn.qual, id(call)) in seen:
                    continue
                seen.add((cfn.qual, id(call)))
                out += sources(cfn, flag_of(call, fn.params, e.id), depth + 1, seen)
            return out
        if isinstance(e, ast.Name):
            rd = RD(fn.node if fn.outer is None else fn.outer.node)
            outs = []
            for d_ in rd.reaching(e):
                if d_.value is not None:
                    outs += sources(fn, d_.value, depth + 1, seen)
                else:
                    outs.append(f"`{e.id}` in {fn.qual.split('::')[-1]}")
            return outs
        return [f"`{unparse(e)[:50]}` in {fn.qual.split('::')[-1]}"]

    n = 0
    for fn, call in sorted(callers.get(target, []), key=lambda fc: fc[0].qual):
        if not fn.qual.startswith("ampform.helicity.align"):
            continue
        n += 1
        src = sources(fn, flag_of(call, tparams, flag_name)) if flag_name else []
        ok = not src
        ctx.verdict(ok, "R-FULLRANGE", f"{fn.qual}::restricted-range", tree.loc(call),
                    f"{fn.qual.split('::')[-1]}: the summation pool `{unparse(call)[:60]}` is the complete range -s..s",
                    None if ok else {"the restriction is switched on by": sorted(set(src))[:5],
                                     "why": "D^1 restricted to the rows/columns +-1 is not unitary: sum_{m'} |D_{m m'}|^2 < 1, so the aligned intensity is not the unaligned one"})
    ctx.stats["spin_range_pools"] = n
    if n < 1:
        raise AnalysisError("no summation pool built with create_spin_range found in ampform.helicity.align")


def check_massless_rest_frame(ctx: Check, tree: Tree) -> None:
    """R-RESTFRAME: the Wigner rotation of a final state is computed with a boost into THAT state's
    rest frame (compute_wigner_rotation_matrix: BoostMatrix(NegativeMomentum(momenta[state_id]))).  A
    massless state has no rest frame (beta = 1): the matrix, its Euler angles and the aligned
    intensity are NaN at every event.  The alignment sums treat massless states specially (`mass ==
    0.0` -> no helicity 0); the path that formulates the angles must know about them too."""
    mod = "ampform.helicity.align.axisangle"
    ds = tree.func(f"{mod}::AxisAngleAlignment.define_symbols")
    target_q = "ampform.kinematics.angles::compute_wigner_rotation_matrix"
    target = tree.func(target_q)
    rest = None
    trd = RD(target.node)
    for n in walk_function(target.node):
        if isinstance(n, ast.Call) and unparse(n.func).split(".")[-1] == "BoostMatrix" and n.args:
            arg = n.args[0]
            if isinstance(arg, ast.Call) and unparse(arg.func).split(".")[-1] == "NegativeMomentum" and arg.args:
                inner = arg.args[0]
                srcs = [inner] + [d.value for d in trd.reaching(inner) if d.value is not None] if isinstance(inner, ast.Name) else [inner]
                if any(isinstance(x, ast.Subscript) and unparse(x.slice) == "state_id" for x in srcs):
                    rest = n
    if rest is None:
        raise AnalysisError(f"{target_q}: the boost into the rest frame of the rotated state (BoostMatrix(NegativeMomentum(momenta[state_id]))) was not found")
    graph = tree.call_graph()
    down = tree.reachable(ds.qual, graph)
    if target_q not in down:
        raise AnalysisError("AxisAngleAlignment.define_symbols no longer reaches compute_wigner_rotation_matrix")
    on_path = sorted(q for q in down if q in tree.funcs and target_q in tree.reachable(q, graph))

    def mass_tests(q):
        return [n for n in walk_function(tree.funcs[q].node) if isinstance(n, ast.Compare) and any(isinstance(x, ast.Attribute) and x.attr == "mass" for x in ast.walk(n))]

    believers = sorted(q.split("::")[-1] for q in tree.funcs if q.startswith(mod + "::") and mass_tests(q))
    guarded = [q for q in on_path if mass_tests(q)]
    ctx.stats["functions_on_wigner_angle_path"] = len(on_path)
    ctx.verdict(bool(guarded), "R-RESTFRAME", f"{ds.qual}::rest-frame-boost-of-massless-state", tree.loc(rest),
                "the Wigner angles (boost into the rotated state's own rest frame) are formulated only for massive states, or massless states are handled on that path",
                None if guarded else {"path": [q.split("::")[-1] for q in on_path], "no test of `.mass` on the path; functions of the same alignment that do special-case mass == 0": believers,
                                      "why": "BoostMatrix of a light-like momentum has beta = 1, gamma = inf: alpha/beta/gamma are NaN for every event"})


def run(ctx: Check, tree: Tree) -> None:
    ctx.decided += [
        'R-WIRING (bound symbol): the outer helicity symbol handed to the helicity rotations and to the Wigner rotation is create_spin_projection_symbol(state) on every reaching definition',
        "R-RESTFRAME: the path that formulates Wigner angles (boost into the rotated state's rest frame) tests the particle's mass",
        'R-FULLRANGE: every summation pool of the alignment rotations is the complete range -s..s',
        "no `.remove(x)` reachable in the package can raise: each is dominated by a membership test, inside a handler, or covered by a recorded structural invariant (R-GUARD)",
        "the PoolSum of a helicity/Wigner rotation ranges over create_spin_range(s) of the same s that is j of its Wigner-D, and every caller passes spin and masslessness of the rotated state (R-WIRING)",
        "create_spin_range loops from -s in steps of +1 while <= s (R-RANGE)",
        "DPD alignment: spin, helicity symbols, state index and pool of every Wigner-d refer to the same outer state (R-WIRING)",
        "text interpolated into sp.symbols() is separator-free (R-SYMSPLIT): defining the Wigner angles cannot fail for nested states",
        "compute_wigner_angles extracts (alpha, beta, gamma) from the Wigner rotation matrix as in Marangotto (2019) B.2-4 (R-TABLE)",
        "axis-angle chain: the k-th index pair carries the angles of the k-th state on the way up from the rotated state (R-CHAINORDER)",
        "no memoised mutable result of helicity.align (e.g. a cached spin range) is written by any caller (R-CACHE)",
        "DPD alignment: every term reaching the PoolSum summand is base[summation indices] times one rotation per outer state (R-SUMMAND)",
    ]
    ctx.not_decided += [
        "aligned intensity == unaligned intensity at every event (numerical)",
        "whether _collect_outer_state_helicities sees complete helicity sets (a premise of the property)",
    ]
    ctx.assumptions += ["list.remove / set.remove raise when the element is absent (CPython)"]
    ctx.section(check_removes, ctx, tree)
    ctx.section(check_wiring, ctx, tree)
    ctx.section(check_spin_range, ctx, tree)
    ctx.section(check_dpd_wiring, ctx, tree)
    ctx.section(check_rotation_chain_order, ctx, tree)
    ctx.section(check_wigner_angle_table, ctx, tree)
    ctx.section(check_symbols_not_split, ctx, tree)
    ctx.section(check_wigner_rotation_matrix, ctx, tree)
    ctx.section(check_axisangle_amplitude, ctx, tree)
    ctx.section(check_axisangle_structure, ctx, tree)
    ctx.section(check_dpd_summand, ctx, tree)
    ctx.section(check_dpd_generator, ctx, tree)
    ctx.section(check_spin_range_not_cached_mutable, ctx, tree)
    ctx.section(check_massless_rest_frame, ctx, tree)
    ctx.section(check_full_range, ctx, tree)
