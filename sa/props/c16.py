"""C16 - cached unfolding equals doit() whatever the cache has seen.

How the code is read.  ``perform_cached_doit`` and everything it calls (``get_readable_hash``, the load / dump
helpers, whatever a maintainer extracts or inlines) is INTERPRETED (``sa/pyexec.py``; CPython never imports or runs
the package, no real file is touched) in a model world: a file system (directories, files with complete / partial /
foreign content, handles, atomic rename), ``pathlib`` / ``os`` / ``tempfile`` / ``pickle`` / ``open`` with the behaviour
the property is about (a load of damaged bytes raises, a temporary name is unique per call and process), a clock, and
model expressions (two DIFFERENT expressions that print and hash alike).  The property's own quantifiers are then run
as scenarios - histories of calls in one or several processes, every kind of foreign / damaged / half-written
cache file, a kill after every file-system operation of a writing call, with and without PYTHONHASHSEED - and the
observable outcome (returned value, exception, file-system events) is compared with the specification.  How the
function is spelled (helpers, parameter order, walrus, ``read_bytes`` + ``loads``, ``NamedTemporaryFile`` ...) does not
matter; what has no model is a ``ModelError`` (exit 2), never a pass and never a violation.

R-VERIFY    every call returns the unfolding (``doit()``) of ITS expression - or a stored value whose stored key equals
            the expression -, whatever is in the directory or in the memory of the process.
R-TOLERATE  no content of the directory (missing, damaged, truncated, foreign, unreadable) makes the call raise.
R-PUBLISH   the final file is never opened for writing; it only ever appears by a rename from a temporary file that is
            closed and whose name is unique to the call.
R-OWNFILES  the call deletes / overwrites / renames away no file that it did not create itself.
R-NOWAIT    no unbounded wait: what a killed process left behind cannot hang a later call.
R-HASHKEY   get_readable_hash is a function of the object and the environment only.
"""

from __future__ import annotations

import ast
import hashlib
import os.path as _osp

from ..loader import AnalysisError, FuncInfo, Tree, unparse
from ..pyexec import MObj, ModelError, ModelRaise, PyExec, plain
from ..report import Check

PID = "C16"
ENTRY = "ampform.sympy::perform_cached_doit"
HASHFN = "ampform.sympy._cache::get_readable_hash"
LOAD_FAILURES = ("UnpicklingError", "EOFError", "AttributeError", "ImportError", "IndexError")
OPEN_FAILURES = ("IsADirectoryError", "PermissionError")
CACHE_ROOT = "/home/user/.cache"


class Killed(BaseException):
    """The interpreted process is killed (no handler, no finally runs)."""


class Hang(BaseException):
    """The interpreted call waits without bound."""


class Pickled:
    """The bytes ``pickle.dumps(obj)`` produces."""

    def __init__(self, obj) -> None:
        self.obj = obj


class Damaged:
    """Bytes whose ``pickle.load`` raises ``kind``."""

    def __init__(self, kind: str) -> None:
        self.kind = kind


PARTIAL = Damaged("EOFError")  # what a writer that was killed before closing leaves behind


class File:
    def __init__(self, content, owner: str, mode: str = "rw") -> None:
        self.content, self.owner, self.mode = content, owner, mode
        self.writers = 0


class FileSystem:
    def __init__(self) -> None:
        self.files: dict[str, File] = {}
        self.dirs: set[str] = {"/", "/home", "/home/user", "/tmp"}  # noqa: S108
        self.events: list[tuple] = []
        self.kill_at: int | None = None
        self.call = "call-0"
        self.unique = 0

    def tick(self, *event) -> None:
        self.events.append((self.call, *event))
        if self.kill_at is not None and len([e for e in self.events if e[0] == self.call]) >= self.kill_at:
            raise Killed

    def copy(self) -> "FileSystem":
        out = FileSystem()
        out.files = {p: File(f.content, f.owner, f.mode) for p, f in self.files.items()}
        out.dirs = set(self.dirs)
        out.unique = self.unique
        return out


# --------------------------------------------------------------------------- the model world
class CacheWorld:
    """One PROCESS: an interpreter (module-level state of the package lives in it) on a file system that may be
    shared with earlier processes."""

    def __init__(self, tree: Tree, fs: FileSystem, hash_seed: str | None, process: int = 1) -> None:
        self.tree, self.fs, self.process = tree, fs, process
        self.env = {"HOME": "/home/user"} | ({"PYTHONHASHSEED": hash_seed} if hash_seed is not None else {})
        self.clock = 1000.0 * process
        self.slept = 0.0
        self.ex = PyExec(tree, max_steps=300_000)
        self.paths: dict[str, MObj] = {}
        self.path_class = MObj("class pathlib.Path", {"__qual__": "pathlib.Path", "__name__": "Path", "__call__": lambda a, k: self.path(self.join(a)),
                                                      "home": lambda a, k: self.path("/home/user"), "cwd": lambda a, k: self.path("/home/user")}, kinds={"class"})
        self.ex.externals.update(self.externals())

    # ---- strings and paths
    def fspath(self, x) -> str:
        if isinstance(x, str):
            return x
        if isinstance(x, MObj) and "__fspath__" in x.attrs:
            return x.attrs["__fspath__"]([], {})
        raise ModelRaise("TypeError", f"expected str, bytes or os.PathLike object, not {x!r}")

    def join(self, parts) -> str:
        parts = [self.fspath(p) for p in parts] or ["."]
        return _osp.normpath(_osp.join("/home/user", *parts))

    def path(self, text: str) -> MObj:
        if text in self.paths:
            return self.paths[text]
        fs = self.fs
        p = MObj(f"Path({text!r})", kinds={"pathlib.Path", "pathlib.PurePath", "os.PathLike", "pathlib.PosixPath"}, open=False)
        self.paths[text] = p
        sub = lambda t: self.path(t)  # noqa: E731

        def mkdir(a, k):
            fs.tick("mkdir", text)
            if text in fs.files:
                raise ModelRaise("FileExistsError", text)
            if text in fs.dirs:
                if k.get("exist_ok"):
                    return None
                raise ModelRaise("FileExistsError", text)
            parent = _osp.dirname(text)
            if parent not in fs.dirs:
                if not k.get("parents"):
                    raise ModelRaise("FileNotFoundError", parent)
                d = parent
                while d not in fs.dirs:
                    fs.dirs.add(d)
                    d = _osp.dirname(d)
            fs.dirs.add(text)
            return None

        def listing(pattern=None):
            import fnmatch

            fs.tick("listdir", text)
            names = sorted({q for q in [*fs.files, *fs.dirs] if _osp.dirname(q) == text and q != text})
            return [sub(q) for q in names if pattern is None or fnmatch.fnmatch(_osp.basename(q), pattern)]

        def unlink(a, k):
            try:
                self.remove(text)
            except ModelRaise as exc:
                if exc.kind == "FileNotFoundError" and k.get("missing_ok", a[0] if a else False):
                    return None
                raise

        p.attrs.update({
            "__fspath__": lambda a, k: text, "__str__": lambda a, k: text, "__truediv__": lambda a, k: sub(self.join([text, a[0]])),
            "__rtruediv__": lambda a, k: sub(self.join([a[0], text])), "__eq__": lambda a, k: a[0] is p, "__hash__": lambda a, k: hash(text),
            "name": _osp.basename(text), "suffix": _osp.splitext(text)[1], "stem": _osp.splitext(_osp.basename(text))[0], "parts": tuple(x for x in text.split("/") if x),
            "joinpath": lambda a, k: sub(self.join([text, *a])), "with_suffix": lambda a, k: sub(_osp.splitext(text)[0] + a[0]),
            "with_name": lambda a, k: sub(_osp.join(_osp.dirname(text), a[0])), "resolve": lambda a, k: p, "absolute": lambda a, k: p, "expanduser": lambda a, k: p,
            "as_posix": lambda a, k: text, "is_absolute": lambda a, k: True,
            "exists": lambda a, k: self.stat("exists", text), "is_file": lambda a, k: self.stat("is_file", text), "is_dir": lambda a, k: self.stat("is_dir", text),
            "mkdir": mkdir, "open": lambda a, k: self.open(text, a[0] if a else k.get("mode", "r")), "unlink": unlink,
            "read_bytes": lambda a, k: self.read_whole(text), "write_bytes": lambda a, k: self.write_whole(text, a[0]),
            "replace": lambda a, k: self.rename(text, self.fspath(a[0])) or sub(self.fspath(a[0])), "rename": lambda a, k: self.rename(text, self.fspath(a[0])) or sub(self.fspath(a[0])),
            "touch": lambda a, k: self.close(self.open(text, "ab")), "glob": lambda a, k: listing(a[0]), "iterdir": lambda a, k: listing(), "rglob": lambda a, k: listing(a[0]),
            "stat": lambda a, k: self.stat_result(text), "rmdir": lambda a, k: self.rmtree(text),
        })
        p.dynamic = {"parent": lambda: sub(_osp.dirname(text))}  # type: ignore[attr-defined]
        return p

    def stat(self, what: str, path: str) -> bool:
        self.fs.tick("stat", path)
        if what == "exists":
            return path in self.fs.files or path in self.fs.dirs
        return path in (self.fs.files if what == "is_file" else self.fs.dirs)

    def stat_result(self, path: str):
        self.fs.tick("stat", path)
        if path not in self.fs.files and path not in self.fs.dirs:
            raise ModelRaise("FileNotFoundError", path)
        return MObj(f"stat({path})", {"st_mtime": 0.0, "st_size": 100, "st_ctime": 0.0}, open=False)

    # ---- files
    def _check_dir(self, path: str) -> None:
        if _osp.dirname(path) not in self.fs.dirs:
            raise ModelRaise("FileNotFoundError", path)

    def open(self, path: str, mode: str = "r", exclusive: bool = False) -> MObj:
        fs = self.fs
        writing = any(c in mode for c in "wax+")
        fs.tick("open", path, mode)
        if path in fs.dirs:
            raise ModelRaise("IsADirectoryError", path)
        f = fs.files.get(path)
        if f is not None and f.mode == "unreadable" and not writing:
            raise ModelRaise("PermissionError", path)
        if not writing:
            if f is None:
                raise ModelRaise("FileNotFoundError", path)
        else:
            self._check_dir(path)
            if ("x" in mode or exclusive) and f is not None:
                raise ModelRaise("FileExistsError", path)
            if f is None:
                f = fs.files[path] = File(PARTIAL, fs.call)
            elif "w" in mode:
                fs.tick("truncate", path, f.owner)
                f.content = PARTIAL
            f.writers += 1
        return self.handle(path, f, mode)

    def handle(self, path: str, f: File, mode: str, delete_on_close: bool = False) -> MObj:
        fs = self.fs
        writing = any(c in mode for c in "wax+")
        state = {"closed": False}
        h = MObj(f"file {path!r} ({mode})", {"name": path, "mode": mode}, open=False)

        def close(a, k):
            if state["closed"]:
                return None
            state["closed"] = True
            fs.tick("close", path)
            if writing:
                f.writers -= 1
                if isinstance(f.content, list):
                    f.content = f.content[0] if len(f.content) == 1 else PARTIAL
            if delete_on_close and fs.files.get(path) is f:
                fs.tick("unlink", path, f.owner)
                del fs.files[path]
            return None

        def write(a, k):
            if state["closed"] or not writing:
                raise ModelRaise("ValueError", "I/O operation on closed / read-only file")
            fs.tick("write", path)
            f.content = [*f.content, a[0]] if isinstance(f.content, list) else [a[0]]
            return 1

        def read(a, k):
            if state["closed"]:
                raise ModelRaise("ValueError", "I/O operation on closed file")
            fs.tick("read", path)
            return f.content if not isinstance(f.content, list) else PARTIAL

        h.attrs.update({"close": close, "write": write, "read": read, "flush": lambda a, k: None, "fileno": lambda a, k: h, "__enter__": lambda a, k: h,
                        "__exit__": lambda a, k: close([], {}) and False, "closed": False, "readable": lambda a, k: not writing, "writable": lambda a, k: writing,
                        "__file__": f, "__path__": path})
        return h

    def close(self, h) -> None:
        if isinstance(h, MObj) and "close" in h.attrs:
            h.attrs["close"]([], {})

    def read_whole(self, path: str):
        h = self.open(path, "rb")
        try:
            return h.attrs["read"]([], {})
        finally:
            self.close(h)

    def write_whole(self, path: str, data) -> None:
        h = self.open(path, "wb")
        h.attrs["write"]([data], {})
        self.close(h)

    def remove(self, path: str) -> None:
        fs = self.fs
        f = fs.files.get(path)
        fs.tick("unlink", path, f.owner if f is not None else None)
        if path in fs.dirs:
            raise ModelRaise("IsADirectoryError", path)
        if f is None:
            raise ModelRaise("FileNotFoundError", path)
        del fs.files[path]

    def rmtree(self, path: str) -> None:
        fs = self.fs
        for q in [q for q in fs.files if q == path or q.startswith(path + "/")]:
            fs.tick("unlink", q, fs.files[q].owner)
            del fs.files[q]
        fs.dirs -= {d for d in fs.dirs if d == path or d.startswith(path + "/")}

    def rename(self, src: str, dst: str) -> None:
        fs = self.fs
        f = fs.files.get(src)
        fs.tick("rename", src, dst, f.owner if f is not None else None, f.writers if f is not None else 0, fs.files[dst].owner if dst in fs.files else None)
        if f is None:
            raise ModelRaise("FileNotFoundError", src)
        if dst in fs.dirs:
            raise ModelRaise("IsADirectoryError", dst)
        self._check_dir(dst)
        fs.files[dst] = f
        del fs.files[src]
        return None

    def unique_name(self, directory: str, prefix: str, suffix: str) -> str:
        self.fs.unique += 1
        return _osp.join(directory, f"{prefix}{self.process:02d}x{self.fs.unique:04d}{suffix}")

    # ---- externals
    def externals(self) -> dict:  # noqa: C901
        fs = self.fs

        def mkstemp(a, k):
            directory = self.fspath(k.get("dir") if k.get("dir") is not None else (a[2] if len(a) > 2 else "/tmp"))  # noqa: S108
            suffix = k.get("suffix") or (a[0] if a else "") or ""
            prefix = k.get("prefix") or (a[1] if len(a) > 1 else "tmp") or "tmp"
            name = self.unique_name(directory, prefix, suffix)
            h = self.open(name, "w+b", exclusive=True)
            return (h, name)

        def named_temporary_file(a, k):
            mode = k.get("mode", a[0] if a else "w+b")
            directory = self.fspath(k["dir"]) if k.get("dir") is not None else "/tmp"  # noqa: S108
            name = self.unique_name(directory, k.get("prefix") or "tmp", k.get("suffix") or "")
            fs.tick("open", name, "x" + mode)
            self._check_dir(name)
            f = fs.files[name] = File(PARTIAL, fs.call)
            f.writers = 1
            return self.handle(name, f, "w+b" if not any(c in mode for c in "wax+") else mode, delete_on_close=bool(k.get("delete", True)))

        def fdopen(a, k):
            h = a[0]
            if not (isinstance(h, MObj) and "__file__" in h.attrs):
                raise ModelError("os.fdopen of something that is not a descriptor of the model")
            return h

        def os_open(a, k):
            flags = a[1] if len(a) > 1 else 0
            if not isinstance(flags, int):
                raise ModelError("os.open with flags that have no model")
            mode = "rb"
            if flags & (1 | 2 | 64):  # O_WRONLY | O_RDWR | O_CREAT
                mode = "ab"
            if flags & 512:  # O_TRUNC
                mode = "wb"
            return self.open(self.fspath(a[0]), mode, exclusive=bool(flags & 128 and flags & 64))

        def load(a, k):
            h = a[0]
            if not (isinstance(h, MObj) and "read" in h.attrs):
                raise ModelRaise("TypeError", "file must have 'read' and 'readline' attributes")
            return loads([h.attrs["read"]([], {})], {})

        def loads(a, k):
            data = a[0]
            if isinstance(data, Pickled):
                return data.obj
            if isinstance(data, Damaged):
                raise ModelRaise(data.kind, "the cache file cannot be unpickled")
            if isinstance(data, bytes):
                raise ModelRaise("UnpicklingError", "invalid load key")
            raise ModelRaise("TypeError", "a bytes-like object is required")

        def dump(a, k):
            h = a[1] if len(a) > 1 else k.get("file")
            if not (isinstance(h, MObj) and "write" in h.attrs):
                raise ModelRaise("TypeError", "file must have a 'write' attribute")
            h.attrs["write"]([Pickled(a[0])], {})

        def sleep(a, k):
            dt = float(a[0]) if a and isinstance(a[0], (int, float)) else 1.0
            self.clock += max(dt, 0.001)
            self.slept += max(dt, 0.001)
            fs.tick("sleep", dt)
            if self.slept > 7200 or len([e for e in fs.events if e[1] == "sleep"]) > 400:
                raise Hang
            return None

        def now(a, k):
            self.clock += 0.001
            return self.clock

        def as_bytes(data):
            if isinstance(data, Pickled):
                if not plain(data.obj):
                    raise ModelError("the bytes of a pickled model object have no model")
                return b"pickle:" + repr(data.obj).encode()
            if not isinstance(data, bytes):
                raise ModelRaise("TypeError", "Strings must be encoded before hashing")
            return data

        def sha(name):
            def make(a, k):
                state = {"data": as_bytes(a[0]) if a else b""}

                def update(a2, k2):
                    state["data"] += as_bytes(a2[0])

                return MObj(f"hashlib.{name}", {"update": update, "hexdigest": lambda a2, k2: getattr(hashlib, name)(state["data"]).hexdigest(),
                                                "digest": lambda a2, k2: getattr(hashlib, name)(state["data"]).digest()}, open=False)

            return make

        def getenv(a, k):
            return self.env.get(a[0], a[1] if len(a) > 1 else k.get("default"))

        def env_item(a, k):
            if a[0] not in self.env:
                raise ModelRaise("KeyError", a[0])
            return self.env[a[0]]

        environ = MObj("os.environ", {"get": getenv, "__getitem__": env_item, "__contains__": lambda a, k: a[0] in self.env}, open=False)
        uniq = lambda tag: lambda a, k: f"{tag}-{self.process}-{self._next()}"  # noqa: E731
        str_only = lambda f: lambda a, k: f(*[self.fspath(x) for x in a])  # noqa: E731
        out = {
            "pathlib.Path": self.path_class, "pathlib.PurePath": self.path_class, "pathlib.PosixPath": self.path_class,
            "open": lambda a, k: self.open(self.fspath(a[0]), a[1] if len(a) > 1 else k.get("mode", "r")) if not (isinstance(a[0], MObj) and "__file__" in a[0].attrs) else a[0],
            "io.open": lambda a, k: self.open(self.fspath(a[0]), a[1] if len(a) > 1 else k.get("mode", "r")),
            "os.fdopen": fdopen, "os.open": os_open, "os.close": lambda a, k: self.close(a[0]), "os.fsync": lambda a, k: None,
            "os.O_CREAT": 64, "os.O_EXCL": 128, "os.O_WRONLY": 1, "os.O_RDWR": 2, "os.O_RDONLY": 0, "os.O_TRUNC": 512, "os.O_APPEND": 1024,
            "os.replace": lambda a, k: self.rename(self.fspath(a[0]), self.fspath(a[1])), "os.rename": lambda a, k: self.rename(self.fspath(a[0]), self.fspath(a[1])),
            "shutil.move": lambda a, k: self.rename(self.fspath(a[0]), self.fspath(a[1])),
            "os.remove": lambda a, k: self.remove(self.fspath(a[0])), "os.unlink": lambda a, k: self.remove(self.fspath(a[0])),
            "shutil.rmtree": lambda a, k: self.rmtree(self.fspath(a[0])), "os.rmdir": lambda a, k: self.rmtree(self.fspath(a[0])),
            "os.makedirs": lambda a, k: self.path(self.fspath(a[0])).attrs["mkdir"]([], {"parents": True, "exist_ok": k.get("exist_ok", False)}),
            "os.mkdir": lambda a, k: self.path(self.fspath(a[0])).attrs["mkdir"]([], {}),
            "os.listdir": lambda a, k: [_osp.basename(self.fspath(p)) for p in self.path(self.fspath(a[0]) if a else "/home/user").attrs["iterdir"]([], {})],
            "os.scandir": lambda a, k: self.path(self.fspath(a[0])).attrs["iterdir"]([], {}),
            "os.path.exists": lambda a, k: self.stat("exists", self.fspath(a[0])), "os.path.isfile": lambda a, k: self.stat("is_file", self.fspath(a[0])),
            "os.path.isdir": lambda a, k: self.stat("is_dir", self.fspath(a[0])),
            "os.path.join": str_only(_osp.join), "os.path.dirname": str_only(_osp.dirname), "os.path.basename": str_only(_osp.basename), "os.path.splitext": str_only(_osp.splitext),
            "os.path.expanduser": lambda a, k: self.fspath(a[0]).replace("~", "/home/user", 1), "os.path.abspath": lambda a, k: self.join([a[0]]), "os.fspath": lambda a, k: self.fspath(a[0]),
            "os.getenv": getenv, "os.environ": environ, "os.environ.get": getenv, "os.getpid": lambda a, k: 4000 + self.process, "os.sep": "/",
            "tempfile.mkstemp": mkstemp, "tempfile.NamedTemporaryFile": named_temporary_file, "tempfile.gettempdir": lambda a, k: "/tmp",  # noqa: S108
            "tempfile.mktemp": lambda a, k: self.unique_name(self.fspath(k.get("dir", "/tmp")), k.get("prefix") or "tmp", k.get("suffix") or ""),  # noqa: S108
            "uuid.uuid4": lambda a, k: MObj("uuid", {"hex": uniq("uuid")([], {}), "__str__": lambda a2, k2, u=uniq("uuid")([], {}): u}, open=False), "uuid.uuid1": uniq("uuid1"),
            "secrets.token_hex": uniq("token"), "random.random": lambda a, k: 0.001 * self._next() + 0.1 * self.process, "random.randint": lambda a, k: 17 * self.process + self._next(),
            "pickle.load": load, "pickle.loads": loads, "pickle.dump": dump, "pickle.dumps": lambda a, k: Pickled(a[0]),
            "pickle.Pickler": lambda a, k: MObj("pickle.Pickler", {"dump": lambda a2, k2, h=a[0]: dump([a2[0], h], {})}, open=False),
            "pickle.Unpickler": lambda a, k: MObj("pickle.Unpickler", {"load": lambda a2, k2, h=a[0]: load([h], {})}, open=False),
            "pickle.HIGHEST_PROTOCOL": 5, "pickle.DEFAULT_PROTOCOL": 4,
            "time.sleep": sleep, "time.time": now, "time.monotonic": now, "time.perf_counter": now, "time.time_ns": lambda a, k: int(now(a, k) * 1e9),
            "hashlib.sha256": sha("sha256"), "hashlib.md5": sha("md5"), "hashlib.sha1": sha("sha1"), "hashlib.blake2b": sha("blake2b"),
            "importlib.metadata.version": lambda a, k: "1.12", "sys.platform": "linux", "sys.version_info": (3, 12, 0),
            "textwrap.dedent": lambda a, k: __import__("textwrap").dedent(a[0]),
            "warnings.warn": lambda a, k: None,
            "id": lambda a, k: 140_000_000 + 1_000_003 * self.process + 16 * (abs(hash(getattr(a[0], "label", repr(a[0])))) % 9973),
            "hash": self.hash_of,
        }
        return out

    _counter = 0

    def _next(self) -> int:
        self._counter += 1
        return self._counter

    def hash_of(self, a, k):
        v = a[0]
        if isinstance(v, MObj):
            if "__hash__" in v.attrs:
                return v.attrs["__hash__"]([], {})
            raise ModelError(f"hash({v!r}) has no model")
        if isinstance(v, str):  # str hashes are salted by PYTHONHASHSEED / the process
            seed = self.env.get("PYTHONHASHSEED")
            salt = seed if seed is not None and seed != "0" and seed.isdigit() else ("" if seed == "0" else f"process-{self.process}")
            return int(hashlib.sha256((salt + v).encode()).hexdigest()[:12], 16)
        if plain(v):
            try:
                return hash(v) if not isinstance(v, (tuple, frozenset)) or all(not isinstance(x, str) for x in v) else int(hashlib.sha256(repr(v).encode()).hexdigest()[:12], 16)
            except TypeError:
                raise ModelRaise("TypeError", "unhashable") from None
        raise ModelError(f"hash({v!r}) has no model")

    # ---- expressions
    @staticmethod
    def expression(name: str, text: str, hash_value: int) -> MObj:
        """A model expression; ``text`` / ``hash_value`` are what ``str`` / ``hash`` give (two different expressions may agree in both)."""
        unfolded = MObj(f"unfolded({name})", {"__str__": lambda a, k: f"unfolded {text}"}, kinds={"sympy.Expr", "sympy.Basic"}, open=False)
        e = MObj(f"expression {name}", kinds={"sympy.Expr", "sympy.Basic"}, open=False)
        unfolded.attrs.update({"doit": lambda a, k: unfolded, "__eq__": lambda a, k: a[0] is unfolded, "__hash__": lambda a, k: hash_value + 1})
        e.attrs.update({"doit": lambda a, k: unfolded, "__str__": lambda a, k: text, "__eq__": lambda a, k: a[0] is e, "__hash__": lambda a, k: hash_value,
                        "__unfolded__": unfolded, "func": MObj("class of the expression", open=False), "args": ()})
        return e


# --------------------------------------------------------------------------- running scenarios
class Outcome:
    def __init__(self, kind: str, value=None, events=()) -> None:
        self.kind, self.value, self.events = kind, value, list(events)  # kind: returned | raised | killed | hang


def call(world: CacheWorld, entry: FuncInfo, expr: MObj, directory, tag: str, kill_at: int | None = None) -> Outcome:
    fs = world.fs
    fs.call, fs.kill_at = tag, kill_at
    start = len(fs.events)
    args = [expr] if directory is None else [expr, directory]
    try:
        value = world.ex.run(entry, args)
        return Outcome("returned", value, fs.events[start:])
    except ModelRaise as exc:
        return Outcome("raised", exc, fs.events[start:])
    except Killed:
        for f in fs.files.values():  # whatever was open for writing stays as it is: not closed, possibly incomplete
            if f.writers:
                f.writers = 0
                f.content = PARTIAL
        return Outcome("killed", None, fs.events[start:])
    except Hang:
        return Outcome("hang", None, fs.events[start:])
    except ModelError as exc:
        raise AnalysisError(f"perform_cached_doit ({tag}): cannot interpret - {exc}") from exc
    finally:
        fs.kill_at = None


class Findings:
    def __init__(self) -> None:
        self.items: dict[tuple[str, str], tuple[str, list[str]]] = {}
        self.checked: dict[str, int] = {}

    def add(self, rule: str, key: str, what: str, scenario: str) -> None:
        self.items.setdefault((rule, key), (what, []))[1].append(scenario)

    def count(self, rule: str) -> None:
        self.checked[rule] = self.checked.get(rule, 0) + 1


def judge_result(found: Findings, out: Outcome, expr: MObj, scenario: str, stored_values: list, directory_problem: bool = True) -> None:
    """R-VERIFY / R-TOLERATE / R-NOWAIT on the outcome of one call."""
    found.count("R-VERIFY")
    found.count("R-TOLERATE")
    found.count("R-NOWAIT")
    if out.kind == "hang":
        found.add("R-NOWAIT", f"{ENTRY}::wait-loop", "perform_cached_doit waits without bound on the state of the cache directory", scenario)
        return
    if out.kind == "raised":
        if directory_problem:
            found.add("R-TOLERATE", f"{ENTRY}::{out.value.kind}::escapes",
                      f"perform_cached_doit raises {out.value.kind} because of what is in the cache directory - a truncated or foreign file makes every later call raise", scenario)
        return
    if out.kind != "returned":
        return
    v = out.value
    if v is expr.attrs["__unfolded__"]:
        return
    if any(v is s for s in stored_values):
        found.add("R-VERIFY", f"{ENTRY}::return::unverified-load",
                  "perform_cached_doit returns a value stored for ANOTHER expression / an unverifiable cache entry - the file name (hash or sha256 of str(expr)) is not injective", scenario)
    else:
        found.add("R-VERIFY", f"{ENTRY}::return::neither-cache-nor-doit",
                  f"perform_cached_doit returns `{getattr(v, 'label', repr(v))[:60]}`: neither the unfolding of its expression nor a verified cache entry", scenario)


def judge_events(found: Findings, out: Outcome, final: str | None, scenario: str) -> None:
    """R-PUBLISH / R-OWNFILES on the file-system events of one call."""
    found.count("R-PUBLISH")
    found.count("R-OWNFILES")
    me = out.events[0][0] if out.events else None
    for ev in out.events:
        kind = ev[1]
        if kind == "open" and any(c in ev[3] for c in "wax+") and final is not None and ev[2] == final:
            found.add("R-PUBLISH", f"{ENTRY}::open-final-for-write", f"the final cache file is opened for writing (mode {ev[3]!r}): a reader or a crash sees a partial file, two writers interleave", scenario)
        if kind == "truncate" and ev[3] != me:
            if final is None or ev[2] != final:
                found.add("R-OWNFILES", f"{ENTRY}::overwrites-foreign-file", f"the call truncates `{_osp.basename(ev[2])}`, a file it did not create (it may be the temporary of a concurrent writer)", scenario)
        if kind == "unlink" and ev[3] is not None and ev[3] != me:
            found.add("R-OWNFILES", f"{ENTRY}::removes-foreign-file", f"the call removes `{_osp.basename(ev[2])}`, a file it did not create - it may belong to a concurrent process that is between creating its temporary and os.replace", scenario)
        if kind == "rename":
            _, _, src, dst, owner, writers, dst_owner = ev
            if owner is not None and owner != me:
                found.add("R-OWNFILES", f"{ENTRY}::renames-foreign-file", f"the call renames `{_osp.basename(src)}`, a file it did not create", scenario)
            if final is not None and dst == final and writers:
                found.add("R-PUBLISH", f"{ENTRY}::rename-before-close", "the temporary file is renamed to the final name while it is still open for writing (data may be unflushed)", scenario)
            if final is not None and dst != final and dst_owner is not None and dst_owner != me:
                found.add("R-OWNFILES", f"{ENTRY}::overwrites-foreign-file", f"the call renames onto `{_osp.basename(dst)}`, a file it did not create", scenario)


def written_names(out: Outcome) -> set[str]:
    return {ev[2] for ev in out.events if ev[1] == "open" and any(c in ev[3] for c in "wax+")}


def final_name(out: Outcome, directory: str) -> str | None:
    """The cache file of the expression: what the call tries to read first / publishes to (None: the cache is not used)."""
    reads = [ev[2] for ev in out.events if ev[1] == "open" and not any(c in ev[3] for c in "wax+") and ev[2].startswith(directory)]
    renames = [ev[3] for ev in out.events if ev[1] == "rename" and ev[3].startswith(directory)]
    stats = [ev[2] for ev in out.events if ev[1] == "stat" and ev[2].startswith(directory) and ev[2] != directory]
    for cands in (reads, renames, stats):
        if cands:
            return cands[0]
    return None


def check_protocol(ctx: Check, tree: Tree) -> None:  # noqa: C901, PLR0912, PLR0915
    entry = tree.funcs.get(ENTRY)
    if entry is None:
        raise AnalysisError("vanished anchor: perform_cached_doit")
    found = Findings()
    n_scenarios = 0
    for seed in (None, "0", "42"):
        env = f"PYTHONHASHSEED={'unset' if seed is None else seed}"
        e1 = CacheWorld.expression("E1", "f(x)", 1234567)
        e2 = CacheWorld.expression("E2 (prints and hashes like E1)", "f(x)", 1234567)
        for dir_kind in ("path", "str", "default"):
            if dir_kind != "path" and seed != "0":
                continue  # the directory argument is independent of the hash seed
            base_dir = CACHE_ROOT + "/ampform/sympy-v1.12" if dir_kind == "default" else "/data/cache"
            def directory_arg(world, dir_kind=dir_kind, base_dir=base_dir):
                return None if dir_kind == "default" else base_dir if dir_kind == "str" else world.path(base_dir)

            def fresh_fs(base_dir=base_dir, populated=True):
                fs = FileSystem()
                fs.dirs |= {"/data"}
                if populated:
                    d = base_dir
                    while d not in fs.dirs:
                        fs.dirs.add(d)
                        d = _osp.dirname(d)
                    # what other processes have in the shared directory: an in-flight temporary, another entry
                    fs.files[f"{base_dir}/tmp_other_process.tmp"] = File(PARTIAL, "another process")
                    fs.files[f"{base_dir}/other-entry.pkl"] = File(Pickled((CacheWorld.expression("E0", "g(y)", 99), MObj("unfolded(E0)", kinds={"sympy.Expr"}, open=False))), "another process")
                return fs

            # ---- A. a first call on an empty / not yet existing directory; a second call in the same process; a colliding expression
            for populated in (True, False):
                fs = fresh_fs(populated=populated)
                w = CacheWorld(tree, fs, seed, process=1)
                sc = f"{env}, directory as {dir_kind}{'' if populated else ' (does not exist yet)'}"
                o1 = call(w, entry, e1, directory_arg(w), "first call")
                judge_result(found, o1, e1, f"{sc}: first call, nothing cached", [])
                final = final_name(o1, base_dir)
                judge_events(found, o1, final, f"{sc}: first call")
                n_scenarios += 1
                if not populated:
                    continue
                stored = [e1.attrs["__unfolded__"]]
                o2 = call(w, entry, e1, directory_arg(w), "second call")
                judge_result(found, o2, e1, f"{sc}: second call for the same expression in the same process", [])
                judge_events(found, o2, final, f"{sc}: second call")
                o3 = call(w, entry, e2, directory_arg(w), "third call")
                judge_result(found, o3, e2, f"{sc}: a DIFFERENT expression with the same str() and hash() in the same process", stored)
                judge_events(found, o3, final, f"{sc}: colliding expression")
                # another process finds the file of the first
                w2 = CacheWorld(tree, fs, seed, process=2)
                o4 = call(w2, entry, e2, directory_arg(w2), "fourth call")
                judge_result(found, o4, e2, f"{sc}: a different expression with the same str() and hash() in another process", stored)
                w3 = CacheWorld(tree, fs.copy(), seed, process=3)
                o5 = call(w3, entry, e1, directory_arg(w3), "fifth call")
                judge_result(found, o5, e1, f"{sc}: the same expression in another process", [])
                n_scenarios += 4
                # ---- uniqueness of the temporary: a concurrent writer of the same expression must not share names
                fs_b = fresh_fs()
                wb = CacheWorld(tree, fs_b, seed, process=7)  # (another process: what tempfile hands out differs, what is derived from the expression does not)
                mine = written_names(o1) - ({final} if final else set())
                for name in mine:
                    fs_b.files[name] = File(PARTIAL, "a concurrent writer of the same expression")
                ob = call(wb, entry, e1, directory_arg(wb), "concurrent call")
                found.count("R-PUBLISH")
                shared = [ev for ev in ob.events if (ev[1] in {"truncate", "unlink"} and ev[3] == "a concurrent writer of the same expression")
                          or (ev[1] == "rename" and ev[4] == "a concurrent writer of the same expression")]
                if shared:
                    found.add("R-PUBLISH", f"{ENTRY}::rename-source-not-unique",
                              f"the temporary file `{_osp.basename(shared[0][2])}` is not unique to the call (derived from the hash only): concurrent writers of the same expression share it", f"{sc}: two writers")
                elif ob.kind == "raised":
                    found.add("R-PUBLISH", f"{ENTRY}::rename-source-not-unique", f"a concurrent writer that uses the same temporary name makes the call raise {ob.value.kind}", f"{sc}: two writers")
                n_scenarios += 1
                if final is None or dir_kind != "path":
                    continue
                # ---- B. every kind of unusable final file
                unknown = MObj("an unfolded expression of unknown origin", kinds={"sympy.Expr", "sympy.Basic"}, open=False)
                contents = [(f"a file on which pickle.load raises {k}", Damaged(k), "rw", []) for k in LOAD_FAILURES]
                contents += [("a half-written file", PARTIAL, "rw", []), ("a file without read permission", Pickled((e1, e1.attrs["__unfolded__"])), "unreadable", []),
                             ("a pickle of a bare expression (no key stored)", Pickled(unknown), "rw", [unknown]),
                             ("a pickle of None", Pickled(None), "rw", []),
                             ("a pickle of a 3-tuple", Pickled((e1, e1.attrs["__unfolded__"], 0)), "rw", []),
                             ("an entry for a different expression with the same str() and hash()", Pickled((e2, e2.attrs["__unfolded__"])), "rw", [e2.attrs["__unfolded__"]])]
                for what, content, mode, bad in contents:
                    fs_c = fresh_fs()
                    fs_c.files[final] = File(content, "an earlier process", mode)
                    wc = CacheWorld(tree, fs_c, seed, process=4)
                    oc = call(wc, entry, e1, directory_arg(wc), "call")
                    judge_result(found, oc, e1, f"{sc}: the cache file is {what}", bad)
                    judge_events(found, oc, final, f"{sc}: the cache file is {what}")
                    n_scenarios += 1
                # (not judged: a DIRECTORY at the cache file name - the load is tolerated, but os.replace onto a directory raises; outside
                #  "what was stored in the directory before" as the recorded rules read it, reported in DESIGN.md as an observation)
                # ---- C. a writing call killed after each of its file-system operations; then a fresh process
                n_ops = len(o1.events)
                for k in range(1, n_ops + 1):
                    fs_k = fresh_fs()
                    wk = CacheWorld(tree, fs_k, seed, process=5)
                    killed = call(wk, entry, e1, directory_arg(wk), "killed call", kill_at=k)
                    if killed.kind != "killed":
                        continue
                    state = f"{sc}: after a call that was killed right before its `{' '.join(_osp.basename(str(x)) for x in killed.events[-1][1:3])[:60]}`"
                    for expr, who in ((e1, "the same expression"), (e2, "a colliding expression")):
                        wn = CacheWorld(tree, fs_k.copy(), seed, process=6)
                        on = call(wn, entry, expr, directory_arg(wn), "later call")
                        judge_result(found, on, expr, f"{state}, {who}", [e1.attrs["__unfolded__"]] if expr is e2 else [])
                        leftovers = {ev[2] for ev in killed.events if ev[1] == "open"}
                        for ev in on.events:
                            if ev[1] in {"unlink", "truncate"} and ev[2] in leftovers and ev[3] == "killed call" and ev[2] != final:
                                found.add("R-OWNFILES", f"{ENTRY}::removes-foreign-file", f"the call removes / overwrites `{_osp.basename(ev[2])}`, which another (here: killed, but indistinguishable from a running) process created", state)
                        n_scenarios += 1
    ctx.stats["scenarios"] = n_scenarios
    where = tree.loc(entry.node)
    for (rule, key), (what, scenarios) in sorted(found.items.items()):
        ctx.violation(rule, key, where, what, {"scenarios": sorted(set(scenarios))[:6], "count": len(scenarios)})
    bad_rules = {r for r, _ in found.items}
    texts = {
        "R-VERIFY": "every call returns the unfolding of its own expression or a stored value whose key equals it",
        "R-TOLERATE": "no content of the cache directory makes the call raise",
        "R-PUBLISH": "the final cache file is never opened for writing; it appears by a rename from a closed temporary whose name is unique to the call",
        "R-OWNFILES": "the call removes / overwrites / renames only files it created itself",
        "R-NOWAIT": "no call waits without bound (also after a call that was killed at any point)",
    }
    for rule, text in texts.items():
        if rule not in bad_rules:
            ctx.ok(rule, where, f"{n_scenarios} scenarios (histories, damaged / foreign files, kill points, PYTHONHASHSEED unset / 0 / 42): {text}")


def check_hash_function(ctx: Check, tree: Tree) -> None:
    """R-HASHKEY: interpreted in two processes (different id(), clock, pid, random state) with the same environment:
    the key of an object must be the same; and in one process it must not change from call to call."""
    fn = tree.funcs.get(HASHFN)
    if fn is None:
        raise AnalysisError("vanished anchor: get_readable_hash")
    problems = []
    n = 0
    for seed in (None, "0", "42"):
        e = CacheWorld.expression("E1", "f(x)", 1234567)
        for obj, what in ((e, "an expression"), (("a", 1), "a tuple")):
            got = []
            for process in (1, 2):
                w = CacheWorld(tree, FileSystem(), seed, process=process)
                for _ in range(2):
                    try:
                        got.append(w.ex.run(fn, [obj]))
                    except ModelRaise as exc:
                        got.append(f"raises {exc}")
                    except ModelError as exc:
                        raise AnalysisError(f"get_readable_hash: cannot interpret - {exc}") from exc
            n += 1
            if seed is None and what == "a tuple":
                continue  # pickle.dumps / salted hashes of a non-SymPy object without a fixed seed: outside the property (the key of perform_cached_doit is an expression)
            if len({str(g) for g in got}) != 1:
                problems.append(f"PYTHONHASHSEED={'unset' if seed is None else seed}, {what}: {sorted({str(g)[:40] for g in got})}")
    ctx.verdict(not problems, "R-HASHKEY", f"{fn.qual}::deterministic", tree.loc(fn.node),
                f"get_readable_hash gives the same key in two processes and on repeated calls ({n} cases; key is a function of the object and PYTHONHASHSEED only)", problems or None)


def run(ctx: Check, tree: Tree) -> None:
    ctx.decided += [
        "R-VERIFY: in every scenario the call returns doit() of its own expression or a stored value whose stored key equals it (colliding expressions, same / other process, memory of the process)",
        "R-TOLERATE: no missing / damaged / truncated / unreadable / foreign cache file and no leftover of a killed call makes the call raise",
        "R-PUBLISH: the final file name is only the destination of a rename from a call-unique temporary that has been closed; it is never opened for writing",
        "R-INJECTIVE (shared with C14): the key comparison distinguishes expressions that differ only in a non-SymPy attribute",
        "R-NOWAIT: no unbounded wait on the state of a file (a lock left by a killed process cannot hang later calls)",
        "R-OWNFILES: the only files ever deleted / overwritten are the call's own (never files found by listing the shared directory)",
        "R-HASHKEY: get_readable_hash depends on the object and the environment variable only",
    ]
    ctx.not_decided += ["that == on SymPy objects is the structural equality the property means (C14 ties it to non-SymPy attributes)", "atomicity of rename (POSIX)", "that doit() itself is deterministic"]
    ctx.assumptions += [
        "pickle.load on arbitrary bytes may raise UnpicklingError, EOFError, AttributeError, ImportError, IndexError (Python docs)",
        "os.replace/os.rename within one directory is atomic (POSIX); tempfile.mkstemp / NamedTemporaryFile names are unique per call",
        "str(expr) and hash(expr) are not injective on expressions (assumptions / non-SymPy attributes are not printed): the model has two different expressions that agree in both",
        "the function is interpreted on a model of pathlib / os / tempfile / pickle / open / time (sa/props/c16.py::CacheWorld); a writer that is killed leaves what it had open as a partial file",
    ]
    ctx.section(check_protocol, ctx, tree)
    ctx.section(check_hash_function, ctx, tree)
    # the stored key is compared with `==`: for expressions that differ only in a non-SymPy attribute that
    # comparison is decided by the hashable content (rule shared with C14)
    from .c14 import check_content_injective

    hook = tree.funcs.get("ampform.sympy._decorator::_hashable_content_method")
    if hook is None:
        raise AnalysisError("vanished anchor: _hashable_content_method")
    ctx.section(check_content_injective, ctx, tree, hook)


_ = (ast, unparse)
