"""C16 - cached unfolding equals doit() whatever the cache has seen.

Protocol rules on ``perform_cached_doit`` and the same-package helpers it calls:

R-VERIFY    a value that comes out of ``pickle.load`` is returned only on paths on which it
            was compared for equality with the query expression (matching outcome); every
            returned value is either such a verified value or the result of ``.doit()``.
R-TOLERATE  a load (or opening the cache file for reading) that raises is caught, and the
            handler path goes on to recompute; nothing about the directory's contents can
            propagate out of the function.
R-PUBLISH   the final file name is never opened for writing; it is only the destination of
            an atomic rename whose source is a fresh, process-unique temporary name, after
            the temporary has been closed.
R-HASHKEY   get_readable_hash is a function of the object and the environment only.
"""

from __future__ import annotations

import ast

from ..loader import AnalysisError, FuncInfo, Tree, unparse, walk_function
from ..paths import PathWalker, handler_covers
from ..report import Check

PID = "C16"
ENTRY = "ampform.sympy::perform_cached_doit"
LOADS = {"pickle.load", "pickle.loads", "_pickle.load", "_pickle.loads", "cloudpickle.load", "dill.load"}
DUMPS = {"pickle.dump", "pickle.dumps"}
NEEDED_LOAD = {"UnpicklingError", "EOFError", "AttributeError", "ImportError", "IndexError"}
NEEDED_OPEN = {"FileNotFoundError", "IsADirectoryError", "PermissionError"}
RENAMES = {"os.replace", "os.rename", "shutil.move"}
TMP_SOURCES = {"tempfile.mkstemp", "tempfile.NamedTemporaryFile", "tempfile.mktemp", "uuid.uuid4", "uuid.uuid1", "os.getpid", "secrets.token_hex", "tempfile.TemporaryDirectory", "tempfile.mkdtemp"}


def _is_open_call(call: ast.Call, callee: str | None) -> str | None:
    """Return the mode string if this is open(...)/Path.open(...)/os.fdopen(...)."""
    name = None
    if isinstance(call.func, ast.Name) and call.func.id == "open":
        name = "open"
        mode = call.args[1] if len(call.args) > 1 else next((k.value for k in call.keywords if k.arg == "mode"), None)
    elif isinstance(call.func, ast.Attribute) and call.func.attr == "open" and callee not in {"os.open"}:
        name = "path.open"
        mode = call.args[0] if call.args else next((k.value for k in call.keywords if k.arg == "mode"), None)
    elif callee == "os.fdopen":
        name = "fdopen"
        mode = call.args[1] if len(call.args) > 1 else next((k.value for k in call.keywords if k.arg == "mode"), None)
    else:
        return None
    if mode is None:
        return "r"
    if isinstance(mode, ast.Constant) and isinstance(mode.value, str):
        return mode.value
    return "?"


class Infeasible(Exception):
    pass


class State:
    def __init__(self) -> None:
        self.tags: dict[str, set[str]] = {}
        self.verified = False
        self.verified_src: set[str] = set()  # the load call sites whose value was compared equal to the key on this path
        self.open_writes: list[tuple[ast.AST, set[str]]] = []  # active `with` items writing
        self.frames: list[dict[str, set[str]]] = []
        self.last_call: ast.AST | None = None
        self.load_failed: tuple | None = None
        self.is_tuple: set[str] = set()  # names known (on this path) to hold a tuple
        self.unread_shape_test: str | None = None  # a test on the loaded object that the rule could not read
        self.length: dict[str, int] = {}  # names known (on this path) to have this length


class Interp:
    """Interprets one path of the walker with a small taint state."""

    def __init__(self, tree: Tree, ctx: Check, entry: FuncInfo) -> None:
        self.tree = tree
        self.ctx = ctx
        self.entry = entry
        self.findings: dict[str, tuple] = {}
        self.ok_counts = {"verified_returns": 0, "doit_returns": 0, "tolerated": 0, "publishes": 0}

    # ---- taint of an expression
    def tags(self, expr: ast.AST | None, st: State, fn: FuncInfo) -> set[str]:
        out: set[str] = set()
        if expr is None:
            return out
        self._tags(expr, st, fn, out)
        if "hash" in out and isinstance(expr, (ast.BinOp, ast.JoinedStr, ast.Call)):
            out.add("final")
        return out

    def _tags(self, n: ast.AST, st: State, fn: FuncInfo, out: set[str]) -> None:
        if isinstance(n, ast.Name) and isinstance(n.ctx, ast.Load):
            out |= st.tags.get(n.id, set())
            return
        if isinstance(n, ast.Call):
            callee = self.tree.callee(n, fn)
            name = n.func.id if isinstance(n.func, ast.Name) else None
            if callee == "ampform.sympy._cache::get_readable_hash":
                out.add("hash")
                return  # a digest of the key is not the key
            if name in {"str", "hash", "repr", "id"} or (callee or "").startswith("hashlib.") or (callee or "").endswith(("srepr", "latex")):
                inner: set[str] = set()
                for c in ast.iter_child_nodes(n):
                    self._tags(c, st, fn, inner)
                out |= {("hash" if t in {"key"} else t) for t in inner if t not in {"load"}} | ({"digest-of-load"} if "load" in inner else set())
                return
            if callee in LOADS:
                out.add("load")
                out.add(f"src@{getattr(n, 'lineno', 0)}:{getattr(n, 'col_offset', 0)}:{fn.qual}")
            if callee in TMP_SOURCES:
                out.add("tmp")
            helper = self.tree.funcs.get(callee) if callee else None
            if helper is not None and helper.qual.startswith("ampform") and len(getattr(self, "_summarising", ())) < 4 and helper.qual not in getattr(self, "_summarising", ()):
                # a helper of the package applied to tagged values: what it RETURNS carries the tags (a helper that
                # returns a digest of the key - str / srepr / hash of it - does not return the key)
                summary = self.return_tags(helper, n, st, fn)
                if summary is not None:
                    if "load" in summary:  # each call of a loading helper is a load of its own (of the file it is given)
                        summary = {t for t in summary if not t.startswith("src@")} | {f"src@{getattr(n, 'lineno', 0)}:{getattr(n, 'col_offset', 0)}:{fn.qual}"}
                    out |= summary
                    return
                out.add("opaque")  # a helper of the package whose result the rule cannot attribute
            elif callee is None and isinstance(n.func, ast.Attribute) and n.func.attr != "doit" and isinstance(n.func.value, ast.Name) and n.func.value.id not in {"self", "cls"} \
                    and not any(tg in st.tags.get(n.func.value.id, set()) for tg in ("key", "load", "doit", "hash", "final", "tmp")) and n.func.value.id in st.tags:
                out.add("opaque")  # a method of a local object the rule knows nothing about
            if isinstance(n.func, ast.Attribute) and n.func.attr == "doit":
                inner = set()
                self._tags(n.func.value, st, fn, inner)
                if "key" in inner:
                    out.add("doit")
        for c in ast.iter_child_nodes(n):
            self._tags(c, st, fn, out)

    def return_tags(self, helper: FuncInfo, call: ast.Call, st: State, fn: FuncInfo) -> set[str] | None:
        """Tags of the value a call of a package helper returns: parameters bound to the tags of the arguments, the
        helper's assignments applied in textual order (flow-insensitive union), union over its returns.  None if the
        call cannot be bound (starred arguments, generators)."""
        a = helper.node.args
        if a.vararg or a.kwarg or any(isinstance(x, ast.Starred) for x in call.args) or any(k.arg is None for k in call.keywords):
            return None
        if any(isinstance(x, (ast.Yield, ast.YieldFrom)) for x in walk_function(helper.node, nested=False)):
            return None
        params = [x.arg for x in [*a.posonlyargs, *a.args]]
        if helper.cls is not None and params[:1] in (["self"], ["cls"]) and isinstance(call.func, ast.Attribute):
            params = params[1:]
        if len(call.args) > len(params):
            return None
        inner = State()
        for p_, x in zip(params, call.args):
            inner.tags[p_] = self.tags(x, st, fn)
        for k in call.keywords:
            inner.tags[k.arg] = self.tags(k.value, st, fn)
        self._summarising = (*getattr(self, "_summarising", ()), helper.qual)
        try:
            returns = []
            for node in walk_function(helper.node, nested=False):
                if isinstance(node, ast.Assign) and len(node.targets) == 1 and isinstance(node.targets[0], ast.Name):
                    inner.tags[node.targets[0].id] = inner.tags.get(node.targets[0].id, set()) | self.tags(node.value, inner, helper)
                elif isinstance(node, ast.AnnAssign) and isinstance(node.target, ast.Name) and node.value is not None:
                    inner.tags[node.target.id] = inner.tags.get(node.target.id, set()) | self.tags(node.value, inner, helper)
                elif isinstance(node, ast.Return) and node.value is not None:
                    returns.append(node.value)
            out: set[str] = set()
            for r in returns:
                out |= self.tags(r, inner, helper)
            return out
        finally:
            self._summarising = self._summarising[:-1]

    def flag(self, rule: str, key: str, node: ast.AST, what: str, detail=None) -> None:
        self.findings.setdefault(f"{rule}|{key}", (rule, key, self.tree.loc(node), what, detail))

    # ---- one path
    def run_path(self, path) -> None:
        st = State()
        fn_stack: list[FuncInfo] = [self.entry]
        # the first parameter is the query expression
        st.tags[self.entry.params[0]] = {"key"}
        pending_exc: tuple | None = None  # (kind, call) waiting for a handler
        for ev in path.events:
            kind = ev[0]
            fn = fn_stack[-1]
            if kind == "call-enter":
                _, call, callee, bind = ev
                new_tags = {p: self.tags(a, st, fn) for p, a in bind.items()}
                st.frames.append(st.tags)
                st.tags = new_tags
                fn_stack.append(callee)
            elif kind == "call-return":
                _, call, callee, value, target = ev
                ret_tags = self.tags(value, st, fn) if value is not None else set()
                if value is not None and isinstance(value, ast.Constant) and value.value is None:
                    ret_tags = {"none"}
                # a load is identified by its call string: two calls of one loading helper are two loads (of two files)
                site = f"<-{getattr(call, 'lineno', 0)}:{getattr(call, 'col_offset', 0)}"
                ret_tags = {(t + site if t.startswith("src@") else t) for t in ret_tags}
                st.verified_src = {t + site for t in st.verified_src}
                st.tags = st.frames.pop()
                fn_stack.pop()
                st.last_call = call
                if isinstance(target, ast.AST):
                    self.assign(target, ret_tags, st)
                elif target == "<return>":
                    st.tags["<ret>"] = ret_tags
            elif kind == "stmt":
                node = ev[1]
                self.stmt(node, st, fn, path)
            elif kind == "test":
                _, test, outcome = ev
                self.test(test, outcome, st, fn)
            elif kind == "with-enter":
                item = ev[1]
                t = self.tags(item.context_expr, st, fn)
                self.scan_calls(item.context_expr, st, fn)
                for c in ast.walk(item.context_expr):
                    if isinstance(c, ast.Call):
                        mode = _is_open_call(c, self.tree.callee(c, fn))
                        if mode and any(m in mode for m in "wax+"):
                            st.open_writes.append((item, t))
                if item.optional_vars is not None:
                    self.assign(item.optional_vars, t, st)
            elif kind == "with-exit":
                w = ev[1]
                st.open_writes = [(i, t) for i, t in st.open_writes if i not in w.items]
            elif kind == "raise-at":
                _, node, call = ev
                callee = self.tree.callee(call, fn)
                pending_exc = ("load" if callee in LOADS else "open", call, fn)
            elif kind == "handler":
                h = ev[1]
                if pending_exc is None:
                    continue
                ekind, call, efn = pending_exc
                needed = NEEDED_LOAD if ekind == "load" else NEEDED_OPEN
                if h is None:
                    try_node = ev[3]
                    if any(handler_covers(x, needed, self.tree, fn) for x in try_node.handlers):
                        return  # infeasible: some handler of this try catches everything needed
                    # exception escapes this try; keep pending
                else:
                    # entering a handler: the exception is caught on this path
                    if not handler_covers(h, needed, self.tree, fn):
                        # feasible only for part of the exceptions; the escape path covers the rest
                        pass
                    pending_exc = None
                    st.load_failed = (ekind, call, efn)
                    self.ok_counts["tolerated"] += 1
                    if h.name:
                        st.tags[h.name] = {"exc"}
        # ---- path exit
        if path.exit == "propagate" and pending_exc is not None:
            ekind, call, efn = pending_exc
            what = "pickle.load" if ekind == "load" else "opening the cache file"
            self.flag(
                "R-TOLERATE",
                f"{efn.qual}::{unparse(call)[:60]}::escapes",
                call,
                f"{efn.qual}: an exception raised by {what} (`{unparse(call)[:60]}`) propagates out of perform_cached_doit"
                " - a truncated or foreign file in the cache directory makes every later call raise",
                {"needed_handlers": sorted(NEEDED_LOAD if ekind == "load" else NEEDED_OPEN)},
            )
        elif path.exit in {"raise", "propagate"} and st.load_failed is not None:
            node = path.exit_node
            ekind, call, efn = st.load_failed
            self.flag("R-TOLERATE", f"{efn.qual}::raises-after-failed-load", node if node is not None else call,
                      f"after a failed cache load in {efn.qual} the function raises (`{unparse(node)[:60] if node is not None else ''}`) instead of falling through to recomputation")

    def _raised_in_handler(self, path) -> bool:
        node = path.exit_node
        from ..loader import ancestors

        return any(isinstance(a, ast.ExceptHandler) for a in ancestors(node)) if node is not None else False

    def assign(self, target: ast.AST, tags: set[str], st: State) -> None:
        if isinstance(target, ast.Name):
            st.tags[target.id] = set(tags)
        elif isinstance(target, (ast.Tuple, ast.List)):
            for t in target.elts:
                self.assign(t.value if isinstance(t, ast.Starred) else t, tags, st)

    def scan_calls(self, node: ast.AST, st: State, fn: FuncInfo) -> None:
        """R-PUBLISH events inside any statement/expression."""
        for c in ast.walk(node):
            if not isinstance(c, ast.Call):
                continue
            callee = self.tree.callee(c, fn)
            mode = _is_open_call(c, callee)
            if mode and any(m in mode for m in "wax+"):
                target = c.args[0] if isinstance(c.func, ast.Name) or callee == "os.fdopen" else c.func.value
                t = self.tags(target, st, fn)
                if "final" in t and "tmp" not in t:
                    self.flag("R-PUBLISH", f"{fn.qual}::open-final-for-write", c,
                              f"{fn.qual}: the final cache file is opened for writing (`{unparse(c)[:60]}`): a reader or a crash sees a partial file, two writers interleave",
                              {"mode": mode})
            if isinstance(c.func, ast.Attribute) and c.func.attr in {"write_bytes", "write_text"}:
                t = self.tags(c.func.value, st, fn)
                if "final" in t and "tmp" not in t:
                    self.flag("R-PUBLISH", f"{fn.qual}::write-final", c, f"{fn.qual}: `{unparse(c)[:60]}` writes the final cache file in place")
            is_rename = callee in RENAMES or (isinstance(c.func, ast.Attribute) and c.func.attr in {"replace", "rename"} and len(c.args) == 1 and "final" in self.tags(c.args[0], st, fn))
            if is_rename:
                if callee in RENAMES:
                    kw = {k.arg: k.value for k in c.keywords if k.arg}
                    pos = [a for a in c.args if not isinstance(a, ast.Starred)]
                    src = pos[0] if pos else kw.get("src")
                    dst = pos[1] if len(pos) > 1 else kw.get("dst")
                    if src is None or dst is None or len(pos) != len(c.args):
                        raise AnalysisError(f"{fn.qual}: cannot read source and destination of `{unparse(c)[:60]}`")
                else:
                    src, dst = c.func.value, c.args[0]
                ts, td = self.tags(src, st, fn), self.tags(dst, st, fn)
                if "final" in td:
                    if "tmp" not in ts:
                        self.flag("R-PUBLISH", f"{fn.qual}::rename-source-not-unique", c,
                                  f"{fn.qual}: `{unparse(c)[:70]}` publishes from a name that is not process-unique (derived from the hash only): concurrent writers share the temporary")
                    elif any("tmp" in t for _, t in st.open_writes):
                        self.flag("R-PUBLISH", f"{fn.qual}::rename-before-close", c,
                                  f"{fn.qual}: `{unparse(c)[:70]}` renames the temporary while it is still open for writing (data may be unflushed)")
                    else:
                        self.ok_counts["publishes"] += 1

    def stmt(self, node: ast.AST, st: State, fn: FuncInfo, path) -> None:
        self.scan_calls(node, st, fn)
        if isinstance(node, (ast.Assign, ast.AnnAssign)) and node.value is st.last_call and node.value is not None:
            return  # the expanded call already bound its return value
        if isinstance(node, ast.Assign):
            t = self.tags(node.value, st, fn)
            for tgt in node.targets:
                # R-SHAPE: unpacking what came out of the file needs a shape test first - anything can be in the file
                if isinstance(tgt, (ast.Tuple, ast.List)) and "load" in t and isinstance(node.value, ast.Name) and not any(isinstance(e, ast.Starred) for e in tgt.elts):
                    name = node.value.id
                    if not (name in st.is_tuple and st.length.get(name) == len(tgt.elts)) and not self._inside_catch_all(node):
                        if st.unread_shape_test is not None:
                            raise AnalysisError(f"{fn.qual}: whether `{unparse(node)[:50]}` is guarded by a shape test cannot be decided: {st.unread_shape_test}")
                        self.flag("R-SHAPE", f"{fn.qual}::unpack::{unparse(node)[:50]}", node,
                                  f"{fn.qual}: `{unparse(node)[:60]}` unpacks the loaded object without a test on this path that it is a tuple of length {len(tgt.elts)}",
                                  "a cache file written by another version / another program (or a colliding name) makes the call raise ValueError / TypeError instead of recomputing")
                for n_ in ast.walk(tgt):
                    if isinstance(n_, ast.Name):
                        st.is_tuple.discard(n_.id)
                        st.length.pop(n_.id, None)
            if isinstance(node.value, ast.Constant) and node.value.value is None:
                t = {"none"}  # `cached = None` in a handler: the sentinel for "nothing usable was loaded"
            for tgt in node.targets:
                self.assign(tgt, t, st)
        elif isinstance(node, ast.AnnAssign) and node.value is not None:
            self.assign(node.target, self.tags(node.value, st, fn), st)
        elif isinstance(node, ast.Return):
            if fn is not self.entry:
                return  # value handled at call-return
            t = self.tags(node.value, st, fn) if node.value is not None else {"none"}
            if "<ret>" in st.tags and isinstance(node.value, ast.Call):
                t = st.tags.pop("<ret>")
            self.judge_return(node, t, st, fn)

    @staticmethod
    def _inline_predicate(helper: FuncInfo, call: ast.Call) -> ast.AST | None:
        """The return expression of a one-expression helper with its parameters replaced by the call's arguments."""
        body = [b for b in helper.node.body if not (isinstance(b, ast.Expr) and isinstance(b.value, ast.Constant))]
        if len(body) != 1 or not isinstance(body[0], ast.Return) or body[0].value is None:
            return None
        a = helper.node.args
        if a.vararg or a.kwarg or a.kwonlyargs or any(isinstance(x, ast.Starred) for x in call.args) or any(k.arg is None for k in call.keywords):
            return None
        params = [x.arg for x in [*a.posonlyargs, *a.args]]
        static = any(unparse(d) == "staticmethod" for d in helper.node.decorator_list)
        if helper.cls is not None and helper.outer is None and not static and isinstance(call.func, ast.Attribute):
            params = params[1:]
        if len(call.args) > len(params):
            return None
        bound = dict(zip(params, call.args))
        bound.update({k.arg: k.value for k in call.keywords})
        if set(bound) != set(params):
            return None

        class Sub(ast.NodeTransformer):
            def visit_Name(self, n):  # noqa: N802
                return bound[n.id] if isinstance(n.ctx, ast.Load) and n.id in bound else n

        # a fresh copy without the `_parent` / `_module` links of the tree (a deepcopy would drag the whole module along);
        # the substituted argument nodes are the caller's own nodes and keep theirs
        fresh = ast.parse(unparse(body[0].value), mode="eval").body
        for n_ in ast.walk(fresh):
            n_._module = helper.module  # type: ignore[attr-defined]  # names inside resolve in the helper's module
        return Sub().visit(fresh)

    @staticmethod
    def _inside_catch_all(node: ast.AST) -> bool:
        """The statement sits in the body of a `try` whose handlers catch Exception / everything (the failure is tolerated)."""
        from ..loader import ancestors

        prev = node
        for a in ancestors(node):
            if isinstance(a, ast.Try) and any(prev is b or any(prev is x for x in ast.walk(b)) for b in a.body):
                if any(h.type is None or unparse(h.type) in {"Exception", "BaseException"} or (isinstance(h.type, ast.Tuple) and {"ValueError", "TypeError"} <= {unparse(e) for e in h.type.elts}) for h in a.handlers):
                    return True
            prev = a
        return False

    def judge_return(self, node: ast.Return, t: set[str], st: State, fn: FuncInfo) -> None:
        key_base = f"{fn.qual}::return"
        if "load" in t and not st.verified:
            self.flag("R-VERIFY", f"{key_base}::unverified-load", node,
                      f"{fn.qual}: `{unparse(node)[:60]}` returns what pickle.load produced without comparing it with the query expression"
                      " - the file name is sha256(str(expr)) / hash(expr), neither is injective (assumptions and non-SymPy attributes do not print)",
                      {"tags": sorted(t)})
        elif "load" in t and st.verified_src and {x for x in t if x.startswith("src@")} and st.verified_src.isdisjoint({x for x in t if x.startswith("src@")}):
            self.flag("R-VERIFY", f"{key_base}::verified-another-load", node,
                      f"{fn.qual}: `{unparse(node)[:60]}` returns what one load produced, but the value that was compared with the query expression came out of ANOTHER load"
                      " - key and result live in two files that are replaced separately, so a writer killed (or a second process writing) between the two replacements pairs the key of one expression with the unfolding of another",
                      {"returned": sorted(x for x in t if x.startswith("src@")), "verified": sorted(st.verified_src)})
        elif "load" in t:
            self.ok_counts["verified_returns"] += 1
        elif "doit" in t:
            self.ok_counts["doit_returns"] += 1
        elif "opaque" in t:
            raise AnalysisError(f"{fn.qual}: `{unparse(node)[:60]}` returns the result of a call the rule cannot attribute (neither read as a cache load nor as doit()): cannot decide")
        else:
            self.flag("R-VERIFY", f"{key_base}::neither-cache-nor-doit", node,
                      f"{fn.qual}: `{unparse(node)[:60]}` returns a value that is neither a verified cache entry nor the result of doit()", {"tags": sorted(t)})

    def test(self, test: ast.AST, outcome: bool, st: State, fn: FuncInfo) -> None:
        if isinstance(test, ast.UnaryOp) and isinstance(test.op, ast.Not):
            return self.test(test.operand, not outcome, st, fn)
        if isinstance(test, ast.BoolOp):
            # and: outcome True => all true ; or: outcome False => all false
            if isinstance(test.op, ast.And) and outcome:
                for v in test.values:
                    self.test(v, True, st, fn)
            if isinstance(test.op, ast.Or) and not outcome:
                for v in test.values:
                    self.test(v, False, st, fn)
            return
        if isinstance(test, ast.Call) and isinstance(test.func, ast.Name) and test.func.id == "isinstance" and len(test.args) == 2 and isinstance(test.args[0], ast.Name) and outcome:
            if unparse(test.args[1]) in {"tuple", "(tuple,)"}:
                st.is_tuple.add(test.args[0].id)
        elif isinstance(test, ast.Call) and getattr(test, "_module", None) is not None:
            # a predicate helper of the package (`if not self._is_entry(content): return None`): its single return expression
            # with the parameters replaced by the arguments is the test
            helper = self.tree.funcs.get(self.tree.callee(test, fn) or "")
            inlined = self._inline_predicate(helper, test) if helper is not None else None
            if inlined is not None:
                return self.test(inlined, outcome, st, helper)
            if any(isinstance(a, ast.Name) and "load" in st.tags.get(a.id, set()) for a in ast.walk(test)):
                st.unread_shape_test = f"`{unparse(test)[:50]}` (a call that is not read)"
        if isinstance(test, ast.Compare) and len(test.ops) == 1:
            lhs, rhs, op_ = test.left, test.comparators[0], test.ops[0]
            if isinstance(rhs, ast.Call) and isinstance(lhs, (ast.Constant, ast.Name)):
                lhs, rhs = rhs, lhs
            if isinstance(rhs, ast.Name):
                # a module-level constant (`_ENTRY_LENGTH = 2`)
                top = fn.module.toplevel.get(rhs.id) if rhs.id not in fn.params else None
                if isinstance(top, (ast.Assign, ast.AnnAssign)) and isinstance(top.value, ast.Constant):
                    rhs = top.value
            if (isinstance(lhs, ast.Call) and isinstance(lhs.func, ast.Name) and lhs.func.id == "len" and len(lhs.args) == 1 and isinstance(lhs.args[0], ast.Name)
                    and isinstance(rhs, ast.Constant) and type(rhs.value) is int and ((isinstance(op_, ast.Eq) and outcome) or (isinstance(op_, ast.NotEq) and not outcome))):
                st.length[lhs.args[0].id] = rhs.value
        if isinstance(test, ast.Compare) and len(test.ops) == 1:
            l, r = test.left, test.comparators[0]
            tl, tr = self.tags(l, st, fn), self.tags(r, st, fn)
            op = test.ops[0]
            # `x is None` / `x is not None` on a value known to be the constant None (or known not to be)
            if isinstance(op, (ast.Is, ast.IsNot)) and isinstance(r, ast.Constant) and r.value is None and isinstance(l, ast.Name):
                is_none = tl == {"none"}
                not_none = bool(tl) and "none" not in tl and bool(tl & {"load", "doit"})
                truth = None
                if is_none:
                    truth = isinstance(op, ast.Is)
                elif not_none:
                    truth = isinstance(op, ast.IsNot)
                if truth is not None and truth != outcome:
                    raise Infeasible
            pair = ("load" in tl and "key" in tr) or ("load" in tr and "key" in tl)
            if pair and ((isinstance(op, ast.Eq) and outcome) or (isinstance(op, ast.NotEq) and not outcome)):
                st.verified = True
                st.verified_src |= {t for t in (tl if "load" in tl else tr) if t.startswith("src@")}
        if isinstance(test, ast.Call) and isinstance(test.func, ast.Name) and test.func.id == "isinstance" and len(test.args) == 2 and isinstance(test.args[0], ast.Name):
            # isinstance(None, <container type>) is False: the sentinel cannot pass a shape test
            if self.tags(test.args[0], st, fn) == {"none"} and "NoneType" not in unparse(test.args[1]) and outcome:
                raise Infeasible
        if isinstance(test, ast.Call) and isinstance(test.func, ast.Attribute) and test.func.attr in {"equals", "__eq__"}:
            tl = self.tags(test.func.value, st, fn)
            tr = self.tags(test.args[0], st, fn) if test.args else set()
            if (("load" in tl and "key" in tr) or ("load" in tr and "key" in tl)) and outcome:
                st.verified = True
                st.verified_src |= {t for t in (tl if "load" in tl else tr) if t.startswith("src@")}


def check_hash_function(ctx: Check, tree: Tree) -> None:
    fn = tree.func("ampform.sympy._cache::get_readable_hash")
    bad = []
    reach = [fn]
    for call, callee in tree.calls_in(fn):
        if callee in tree.funcs:
            reach.append(tree.funcs[callee])
    for f in reach:
        for call, callee in tree.calls_in(f):
            name = (callee or unparse(call.func)).split(".")[-1].split("::")[-1]
            if callee in {"builtins.id", "time.time", "time.time_ns", "random.random", "os.getpid", "uuid.uuid4"} or (isinstance(call.func, ast.Name) and call.func.id == "id"):
                bad.append((f, call, name))
    rets = [n for n in walk_function(fn.node) if isinstance(n, ast.Return)]
    ctx.verdict(not bad and len(rets) >= 1, "R-HASHKEY", f"{fn.qual}::deterministic", tree.loc(fn.node),
                f"get_readable_hash: {len(rets)} exits, no id()/time/pid/random source reachable (key is a function of the object and PYTHONHASHSEED only)",
                [f"{f.qual}: {unparse(c)}" for f, c, _ in bad] or None)


DELETERS = {"os.remove", "os.unlink", "os.rmdir", "shutil.rmtree", "os.removedirs", "os.truncate"}


_LISTING = (".glob(", ".iterdir(", "listdir(", "scandir(", ".rglob(", "os.walk(")
_OWN_TEMP = ("mkstemp(", "NamedTemporaryFile(", "mkdtemp(", "TemporaryDirectory(")


def _file_origin(tree: Tree, fn: FuncInfo, target: ast.AST, callers_of: dict, depth: int) -> tuple[bool, bool, bool]:
    """(own, enumerated, unknown): does the path derive from a temporary this call created itself, from a
    listing of the shared directory, or from something the rule cannot follow?  A path that is a parameter of a
    private helper is judged at every call site of the helper (the helper removes what its callers hand in)."""
    from ..dataflow import RD

    top = fn
    while top.outer is not None:
        top = top.outer
    rd = RD(top.node)
    deps = rd.closure(rd.uses(target))
    texts = [unparse(target)] + [unparse(d.value) for d in deps if isinstance(d.value, ast.AST)]
    own = any(k in t for t in texts for k in _OWN_TEMP)
    created = [unparse(n_) for n_ in walk_function(top.node) if isinstance(n_, ast.Call) and (
        (unparse(n_.func) == "os.open" and "O_EXCL" in unparse(n_)) or (unparse(n_.func) in {"open", "os.fdopen"} and any(isinstance(a, ast.Constant) and isinstance(a.value, str) and "x" in a.value for a in n_.args[1:2])))]
    own = own or any(unparse(target) in c or any(isinstance(nm, ast.Name) and nm.id in c for nm in ast.walk(target)) for c in created)
    loops = [unparse(d.node.iter) for d in deps if d.kind == "for" and isinstance(d.node, ast.For)]
    enumerated = any(k in t for t in texts + loops for k in _LISTING)
    params = sorted({d.name for d in deps if d.kind == "param"} | ({target.id} if isinstance(target, ast.Name) and target.id in fn.params and not list(rd.reaching(target)) else set()))
    params = [p_ for p_ in params if p_ in fn.params and p_ not in {"self", "cls"}]
    unknown = False
    if params and not own and not enumerated:
        sites = callers_of.get(fn.qual, [])
        if not sites or depth > 3:
            unknown = True
        own_everywhere = bool(sites)
        for cfn, c in sites:
            for p_ in params:
                i = fn.params.index(p_) - (1 if fn.cls is not None and fn.params[:1] in (["self"], ["cls"]) else 0)
                arg = next((k.value for k in c.keywords if k.arg == p_), c.args[i] if 0 <= i < len(c.args) else None)
                if arg is None:
                    unknown, own_everywhere = True, False
                    continue
                o, e, u = _file_origin(tree, cfn, arg, callers_of, depth + 1)
                enumerated, unknown = enumerated or e, unknown or u
                own_everywhere = own_everywhere and o
        own = own_everywhere
    elif not own and not enumerated:
        unknown = not params and not any(isinstance(d.value, ast.AST) for d in deps) and not isinstance(target, ast.Constant)
    return own, enumerated, unknown


def check_foreign_deletes(ctx: Check, tree: Tree) -> None:
    """R-OWNFILES: several processes share the cache directory.  Nothing reachable from
    perform_cached_doit deletes, truncates or renames AWAY a file that this call did not create
    itself (its own mkstemp temporary): a "clean-up" of *.tmp files or of stale entries removes the
    temporary of a concurrent writer, whose os.replace then raises out of perform_cached_doit."""
    from ..dataflow import RD

    graph = tree.call_graph()
    reach = {q for q in tree.reachable(ENTRY, graph) if q.startswith("ampform.sympy") and q in tree.funcs}
    n = 0
    callers_of: dict[str, list] = {}
    for q in sorted(reach):
        for c, callee in tree.calls_in(tree.funcs[q], nested=False):
            if callee in reach:
                callers_of.setdefault(callee, []).append((tree.funcs[q], c))
    for q in sorted(reach):
        fn = tree.funcs[q]
        for call, callee in tree.calls_in(fn, nested=False):
            target = None
            if callee in DELETERS and call.args:
                target = call.args[0]
            elif isinstance(call.func, ast.Attribute) and call.func.attr in {"unlink", "rmdir", "rmtree", "write_bytes", "write_text", "truncate"} and callee not in tree.funcs:
                target = call.func.value
            if target is None:
                continue
            n += 1
            own, enumerated, unknown = _file_origin(tree, fn, target, callers_of, 0)
            ok = own and not enumerated and not unknown
            if not ok and not enumerated and unknown:
                # no positive evidence either way: where the path comes from is not understood
                raise AnalysisError(f"{q}: `{unparse(call)[:60]}` removes a file whose origin is not understood (neither this call's own temporary nor found by listing the directory)")
            ctx.verdict(ok, "R-OWNFILES", f"{q}::{unparse(call.func)}", tree.loc(call),
                        f"{q}: `{unparse(call)[:60]}` removes {'its own temporary file (created by mkstemp in this call)' if ok else 'a file this call did not create'}",
                        None if ok else ("files found by listing the shared cache directory" if enumerated else "the target does not derive from this call's own mkstemp()") + " - may belong to a concurrent process that is between mkstemp and os.replace")
    if n == 0:
        ctx.ok("R-OWNFILES", "src/ampform/sympy", "nothing reachable from perform_cached_doit deletes or truncates a file")


def check_no_unbounded_wait(ctx: Check, tree: Tree) -> None:
    """R-NOWAIT: perform_cached_doit returns whatever is in the cache directory, also what a process
    that was killed at any point left behind.  A loop that waits (sleeps / retries) until a file
    appears or disappears, without a bound on time or attempts, never returns when the process that
    should change that file is dead (stale lock)."""
    graph = tree.call_graph()
    reach = {q for q in tree.reachable(ENTRY, graph) if q.startswith("ampform.sympy") and q in tree.funcs}
    # context managers / helpers used through `with` are reached by name
    n = 0
    for q in sorted(reach | {q for q in tree.funcs if q.startswith("ampform.sympy::") or q.startswith("ampform.sympy._cache::")}):
        fn = tree.funcs[q]
        for loop in [w for w in walk_function(fn.node, nested=False) if isinstance(w, ast.While)]:
            sleeps = [c for c in ast.walk(loop) if isinstance(c, ast.Call) and unparse(c.func).split(".")[-1] in {"sleep", "wait"}]
            fs = [c for c in ast.walk(loop) if isinstance(c, ast.Call) and (unparse(c.func).split(".")[-1] in {"exists", "is_file", "open", "stat", "lstat", "access"} or unparse(c.func) in {"os.open", "open"})]
            handlers = [h for h in ast.walk(loop) if isinstance(h, ast.ExceptHandler) and h.type is not None and any(k in unparse(h.type) for k in ("FileExistsError", "FileNotFoundError", "OSError", "BlockingIOError"))]
            if not (sleeps and (fs or handlers)):
                continue
            n += 1
            test_txt = unparse(loop.test)
            bounded = any(isinstance(c, ast.Compare) and any(k in unparse(c) for k in ("time", "deadline", "timeout", "attempt", "retries", "tries", "count")) for c in ast.walk(loop))
            ctx.verdict(bounded, "R-NOWAIT", f"{q}::wait-loop", tree.loc(loop),
                        f"{q}: the loop `while {test_txt}` that waits on the state of a file is bounded by a deadline / number of attempts",
                        None if bounded else "it only ends when another process changes the file: a process killed while it holds the lock / before it publishes leaves every later call hanging")
    if n == 0:
        ctx.ok("R-NOWAIT", "src/ampform/sympy", "no loop on the perform_cached_doit path waits for the state of a file")


_FS_ERRORS = ("FileExistsError", "FileNotFoundError", "OSError", "IOError", "PermissionError", "BlockingIOError", "IsADirectoryError", "NotADirectoryError", "EnvironmentError")
_FS_OBSERVERS = {"exists", "is_file", "is_dir", "stat", "lstat", "access", "listdir", "iterdir", "scandir", "glob", "rglob", "isfile", "isdir", "getsize", "getmtime", "samefile"}


def check_temp_in_same_directory(ctx: Check, tree: Tree) -> None:
    """R-SAMEDIR: publication by rename is atomic only inside one file system.  Every creation of the temporary on the
    cache path (mkstemp / NamedTemporaryFile / mkdtemp) must name a directory (`dir=`) that is derived from the final
    path - its `.parent` / `os.path.dirname` / the cache directory the final name was built from; the system default
    temporary directory is usually another file system (the rename then fails or is a copy)."""
    graph = tree.call_graph()
    reach = {ENTRY, *[q for q in tree.reachable(ENTRY, graph) if q.startswith("ampform.sympy")]}
    n = 0
    for q in sorted(reach):
        fn = tree.funcs.get(q)
        if fn is None:
            continue
        for c in [x for x in walk_function(fn.node, nested=False) if isinstance(x, ast.Call)]:
            callee = tree.callee(c, fn) or ""
            if callee not in {"tempfile.mkstemp", "tempfile.NamedTemporaryFile", "tempfile.mkdtemp", "tempfile.TemporaryDirectory"}:
                continue
            n += 1
            d = next((k.value for k in c.keywords if k.arg == "dir"), None)
            if d is None and callee == "tempfile.mkstemp" and len(c.args) >= 3:
                d = c.args[2]
            key = f"{q}::{callee.split('.')[-1]}::same-directory"
            if d is None or (isinstance(d, ast.Constant) and d.value is None):
                ctx.violation("R-SAMEDIR", key, tree.loc(c), f"{q}: `{unparse(c)[:60]}` creates the temporary in the system default directory, not next to the cache file",
                              "os.replace onto the final name is then a cross-device rename: it fails (OSError) or is not atomic, so readers can see a partial file")
                continue
            # the path the temporary is renamed to in this function (else: the function's parameters)
            dests = [r.args[1] for r in walk_function(fn.node, nested=False) if isinstance(r, ast.Call) and (tree.callee(r, fn) or "") in RENAMES and len(r.args) >= 2]
            params = {x.id for e in dests for x in ast.walk(e) if isinstance(x, ast.Name)} or set(fn.params)
            derived = any(isinstance(x, ast.Name) and x.id in params for x in ast.walk(d)) and (
                any(isinstance(x, ast.Attribute) and x.attr in {"parent", "parents"} for x in ast.walk(d)) or any(isinstance(x, ast.Call) and unparse(x.func).split(".")[-1] in {"dirname", "split"} for x in ast.walk(d)) or isinstance(d, ast.Name))
            if derived:
                ctx.ok("R-SAMEDIR", tree.loc(c), f"{q}: the temporary is created in `{unparse(d)[:40]}`, derived from the path it is renamed to")
            else:
                raise AnalysisError(f"{q}: whether `dir={unparse(d)[:40]}` is the directory of the final cache file cannot be read")
    if n == 0:
        ctx.info("R-SAMEDIR", "src/ampform/sympy", "no temporary file is created on the cache path")


def check_no_raise_on_contents(ctx: Check, tree: Tree) -> None:
    """R-NORAISE: perform_cached_doit "never raises because of the directory's contents".  Positive evidence of the
    opposite: a function on the cache path that RAISES where it has just learnt something about the directory - inside a
    handler of a file-system error (`except FileExistsError: ... raise TimeoutError`, also a bare re-raise there), or
    under a test that observes the file system (`if lock.exists(): raise`).  A re-raise in a catch-all clean-up handler
    (`except BaseException: unlink(tmp); raise`) propagates what the OWN work raised and is not meant."""
    from ..loader import ancestors

    n = 0
    hits = 0
    for q in sorted(q for q in tree.funcs if q.startswith(("ampform.sympy::", "ampform.sympy._cache::"))):
        fn = tree.funcs[q]
        for r in [x for x in walk_function(fn.node, nested=False) if isinstance(x, ast.Raise)]:
            n += 1
            why = None
            for a in ancestors(r):
                if a is fn.node:
                    break
                if isinstance(a, ast.ExceptHandler) and a.type is not None and any(k in unparse(a.type) for k in _FS_ERRORS):
                    why = f"inside `except {unparse(a.type)}`"
                    break
                if isinstance(a, (ast.If, ast.While)):
                    obs = [c for c in ast.walk(a.test) if isinstance(c, ast.Call) and unparse(c.func).split(".")[-1] in _FS_OBSERVERS]
                    if obs:
                        why = f"under the test `{unparse(a.test)[:50]}` that observes the file system"
                        break
            if why is None:
                continue
            # only on the cache path: the function is reachable from the entry (calls, `with` items)
            graph = tree.call_graph()
            if q != ENTRY and q not in tree.reachable(ENTRY, graph):
                continue
            hits += 1
            ctx.violation("R-NORAISE", f"{q}::raise::{unparse(r)[:60]}", tree.loc(r), f"{q}: `{unparse(r)[:70]}` {why}: the call raises because of what it finds in the cache directory",
                          "a file left behind by a killed or concurrent process (a stale lock, a half-written entry) must lead to recomputation, not to an exception")
    # creating the cache directory: must not fail because it already exists (every call after the first) nor because
    # its parents do not exist yet (the first call on a fresh machine)
    graph = tree.call_graph()
    for q in sorted({ENTRY, *[x for x in tree.reachable(ENTRY, graph) if x.startswith("ampform.sympy")]}):
        fn = tree.funcs.get(q)
        if fn is None:
            continue
        for c in [x for x in walk_function(fn.node, nested=False) if isinstance(x, ast.Call) and isinstance(x.func, ast.Attribute) and x.func.attr in {"mkdir", "makedirs"}]:
            kw = {k.arg: k.value for k in c.keywords if k.arg}
            if any(k.arg is None for k in c.keywords):
                raise AnalysisError(f"{q}: `{unparse(c)[:50]}` takes **options: whether an existing directory is tolerated cannot be read")
            def is_true(name: str) -> bool:
                return isinstance(kw.get(name), ast.Constant) and kw[name].value is True
            missing = [n_ for n_ in (("exist_ok",) if c.func.attr == "makedirs" else ("exist_ok", "parents")) if not is_true(n_)]
            n += 1
            if missing:
                hits += 1
                ctx.violation("R-NORAISE", f"{q}::{c.func.attr}::{','.join(missing)}", tree.loc(c), f"{q}: `{unparse(c)[:60]}` without {' and '.join(m + '=True' for m in missing)}",
                              "the call raises FileExistsError from the second use of a cache directory on (exist_ok) / FileNotFoundError on the first use of a fresh location (parents)")
            else:
                ctx.ok("R-NORAISE", tree.loc(c), f"{q}: `{unparse(c)[:60]}` tolerates an existing directory and creates missing parents")
    if hits == 0:
        ctx.ok("R-NORAISE", "src/ampform/sympy", f"no raise on the perform_cached_doit path is conditioned on the contents of the cache directory ({n} raise statements in ampform.sympy / _cache judged)")


def run(ctx: Check, tree: Tree) -> None:
    ctx.decided += [
        "R-SHAPE: the loaded object is unpacked only after a test on that path that it is a tuple of the right length (any content of the file leads to recomputation, not to an exception)",
        "R-SAMEDIR: the temporary that is renamed onto the final name is created in the directory of the final name (rename is atomic only within a file system)",
        "R-NORAISE: nothing on the cache path raises inside a handler of a file-system error or under a test that observes the file system",
        "R-VERIFY: every value returned by perform_cached_doit is the result of doit() or a loaded value that was compared equal to the query expression on that path",
        "R-TOLERATE: exceptions of pickle.load / opening the cache file cannot propagate out; handler paths reach recomputation",
        "R-PUBLISH: the final file name is only the destination of a rename from a process-unique temporary that has been closed; it is never opened for writing",
        "R-INJECTIVE (shared with C14): the key comparison distinguishes expressions that differ only in a non-SymPy attribute",
        "R-NOWAIT: no unbounded wait on the state of a file (a lock left by a killed process cannot hang later calls)",
        "R-OWNFILES: the only file ever deleted is the call's own mkstemp temporary (never files found by listing the shared directory)",
        "R-HASHKEY: get_readable_hash depends on the object and the environment variable only",
    ]
    ctx.not_decided += ["that == on SymPy objects is the structural equality the property means (C14 ties it to non-SymPy attributes)", "atomicity of rename (POSIX)", "that doit() itself is deterministic"]
    ctx.assumptions += [
        "pickle.load on arbitrary bytes may raise UnpicklingError, EOFError, AttributeError, ImportError, IndexError (Python docs) - a handler must cover at least these, or Exception",
        "os.replace/os.rename within one directory is atomic (POSIX); tempfile.mkstemp names are unique per call",
        "str(expr) and hash(expr) are not injective on expressions (assumptions / non-SymPy attributes are not printed)",
    ]
    entry = tree.func(ENTRY)
    module_prefix = "ampform.sympy"

    def expand(q: str) -> bool:
        return q.startswith(module_prefix) and q != ENTRY and not q.endswith("get_readable_hash") and "get_system_cache_directory" not in q

    def may_raise(call: ast.Call, callee: str | None) -> bool:
        if callee in LOADS:
            return True
        mode = _is_open_call(call, callee)
        return bool(mode) and not any(m in mode for m in "wax+") and callee != "os.fdopen"

    walker = PathWalker(tree, expand=expand, may_raise=may_raise, max_depth=3)
    paths = walker.paths(entry)
    ctx.stats["paths"] = len(paths)
    interp = Interp(tree, ctx, entry)
    n_infeasible = 0
    for p in paths:
        try:
            interp.run_path(p)
        except Infeasible:
            n_infeasible += 1
    ctx.stats["infeasible_paths_pruned"] = n_infeasible
    # anchors: a load and a doit must exist somewhere reachable, otherwise the rule is vacuous
    reach_fns = [tree.funcs[q] for q in sorted(tree.reachable(ENTRY)) if q in tree.funcs and (q == ENTRY or expand(q))]
    n_loads = sum(1 for f in reach_fns for _, c in tree.calls_in(f) if c in LOADS)
    n_doit = sum(1 for f in reach_fns for n in walk_function(f.node) if isinstance(n, ast.Call) and isinstance(n.func, ast.Attribute) and n.func.attr == "doit")
    ctx.stats.update(loads=n_loads, doit_calls=n_doit, **interp.ok_counts)
    if n_doit < 1:
        raise AnalysisError("vanished anchor: perform_cached_doit no longer calls .doit()")
    if n_loads < 1:
        ctx.info("R-VERIFY", tree.loc(entry.node), "no pickle.load reachable: the cache is never read (property holds trivially)")
    for rule, key, where, what, detail in interp.findings.values():
        ctx.violation(rule, key, where, what, detail)
    rules_bad = {f[0] for f in interp.findings.values()}
    where = tree.loc(entry.node)
    if "R-VERIFY" not in rules_bad:
        ctx.ok("R-VERIFY", where, f"{len(paths)} paths: {interp.ok_counts['verified_returns']} return a verified cache entry, {interp.ok_counts['doit_returns']} return doit()")
    if "R-TOLERATE" not in rules_bad:
        ctx.ok("R-TOLERATE", where, f"{n_loads} load site(s): every raising path is caught ({interp.ok_counts['tolerated']} handler entries) and continues to a judged return")
    if "R-SHAPE" not in rules_bad:
        ctx.ok("R-SHAPE", where, "the loaded object is unpacked only on paths that tested it to be a tuple of the unpacked length (or inside a catch-all try)")
    if "R-PUBLISH" not in rules_bad:
        ctx.ok("R-PUBLISH", where, f"final cache file is never opened for writing; {interp.ok_counts['publishes']} path(s) publish by rename from a unique temporary")
    ctx.section(check_hash_function, ctx, tree)
    ctx.section(check_foreign_deletes, ctx, tree)
    ctx.section(check_no_unbounded_wait, ctx, tree)
    ctx.section(check_no_raise_on_contents, ctx, tree)
    ctx.section(check_temp_in_same_directory, ctx, tree)
    # the stored key is compared with `==`: for expressions that differ only in a non-SymPy attribute that
    # comparison is decided by the hashable content (rule shared with C14)
    from .c14 import check_content_injective

    hook = tree.funcs.get("ampform.sympy._decorator::_hashable_content_method")
    if hook is None:
        raise AnalysisError("vanished anchor: _hashable_content_method")
    ctx.section(check_content_injective, ctx, tree, hook)
