"""C08 - boost and rotation expressions are proper Lorentz transformations.

R-PRINT   every value interpolated into generated NumPy/Python code went through the printer.
R-TERM    explicit matrix (as_explicit) == matrix laid out by the _numpycode template with the
          arguments that evaluate() passes (4 classes x 16 entries).
R-LORENTZ M^T eta M == eta for the explicit matrices, modulo one defining relation each.
"""

from __future__ import annotations

import ast
import re

from ..exprmodel import expression_classes
from ..loader import AnalysisError, FuncInfo, Tree, unparse, walk_function
from ..poly import RF, D, Poly, equal, sqrt, sym
from ..report import Check
from ..rules import PrintTaint, class_literal_attrs, printer_methods, string_only_methods
from ..terms import ExtractionError, Mat, Opaque, TermEval, Tup

PID = "C08"
LOR = "ampform.kinematics.lorentz"
MATRIX_CLASSES = {
    "BoostZMatrix": "_BoostZMatrixImplementation",
    "RotationYMatrix": "_RotationYMatrixImplementation",
    "RotationZMatrix": "_RotationZMatrixImplementation",
    "BoostMatrix": "_BoostMatrixImplementation",
}


# --------------------------------------------------------------------------- R-PRINT


def check_printers(ctx: Check, tree: Tree) -> None:
    methods = printer_methods(tree)
    ctx.stats["printer_methods"] = len(methods)
    if len(methods) < 14:
        raise AnalysisError(f"only {len(methods)} printer methods found (18 confirmed)")
    n_interp = 0
    for fn in sorted(methods, key=lambda f: f.qual):
        if not fn.node.body or all(isinstance(s, ast.Expr) and isinstance(s.value, ast.Constant) for s in fn.node.body):
            continue  # abstract stub
        taint = PrintTaint(tree, fn, class_literal_attrs(tree, fn), string_only_methods(tree, fn))
        bad = []
        count = 0
        for container, expr in taint.interpolations():
            count += 1
            ok, why = taint.classify(expr)
            if not ok:
                bad.append((expr, why))
        # a printer may also return something that is not an f-string: it must be printed too
        for node in walk_function(fn.node, nested=False):
            if isinstance(node, ast.Return) and node.value is not None and not isinstance(node.value, (ast.JoinedStr, ast.Constant)):
                count += 1
                ok, why = taint.classify(node.value)
                if not ok:
                    bad.append((node.value, why))
        n_interp += count
        key = f"{fn.qual}::raw-interpolation"
        if bad:
            names = ", ".join(sorted({unparse(e)[:30] for e, _ in bad}))
            ctx.violation("R-PRINT", key, tree.loc(bad[0][0]),
                          f"{fn.qual} interpolates {len(bad)} value(s) into generated code without printer._print: {names}",
                          {"reason": bad[0][1], "consequence": "the str printer's output is not NumPy code: lambdify(..., cse=False) fails (NameError) or silently prints a different expression"})
        else:
            ctx.ok("R-PRINT", tree.loc(fn.node), f"{fn.qual}: {count} interpolated/returned value(s) all pass the printer")
    ctx.stats["interpolations"] = n_interp


# --------------------------------------------------------------------------- template parsing


def template_matrix(fn: FuncInfo) -> tuple[list[list[list]], str]:
    """Parse the f-string returned by a ``_numpycode`` into a 4x4 layout.

    Every entry is a list of (sign, placeholder-name).  Returns (layout, trailing text)."""
    ret = [n for n in walk_function(fn.node, nested=False) if isinstance(n, ast.Return)]
    if len(ret) != 1 or not isinstance(ret[0].value, ast.JoinedStr):
        raise ExtractionError(f"{fn.qual}: return value is not a single f-string template")
    parts = []
    for v in ret[0].value.values:
        if isinstance(v, ast.Constant):
            parts.append(str(v.value))
        else:
            if not isinstance(v.value, ast.Name):
                raise ExtractionError(f"{fn.qual}: placeholder `{unparse(v.value)}` is not a plain name")
            parts.append(f"\x00{v.value.id}\x00")
    text = "".join(parts)
    m = re.match(r"\s*array\(\s*\[(.*)\]\s*\)(.*)$", text, re.S)
    if not m:
        raise ExtractionError(f"{fn.qual}: template is not `array([...])...`")
    body, tail = m.group(1), m.group(2)
    rows = re.findall(r"\[([^\[\]]*)\]", body)
    layout = []
    for r in rows:
        entries = []
        for cell in r.split(","):
            cell = cell.strip()
            if not cell:
                continue
            mm = re.fullmatch(r"(-?)\s*\x00(\w+)\x00", cell)
            if not mm:
                raise ExtractionError(f"{fn.qual}: template cell `{cell}` is not [-]{{name}}")
            entries.append((-1 if mm.group(1) else 1, mm.group(2)))
        layout.append(entries)
    return layout, tail.strip()


def placeholder_fields(fn: FuncInfo, cls) -> dict[str, str]:
    """local placeholder name -> field name of the implementation class (by position in
    the ``... = map(printer._print, self.args)`` unpacking)."""
    from ..rules import self_args_unpackings

    fields = [f.name for f in cls.sympy_fields]
    mapping: dict[str, str] = {}
    for st, elts, _ in self_args_unpackings(fn):
        if len(elts) != len(fields):
            raise ExtractionError(f"{fn.qual}: unpacking arity differs from the field list")
        for e, f in zip(elts, fields):
            if isinstance(e, ast.Name) and e.id != "_":
                mapping[e.id] = f
    # single assignments  x = printer._print(self.<field>)
    for node in walk_function(fn.node, nested=False):
        if isinstance(node, ast.Assign) and len(node.targets) == 1 and isinstance(node.targets[0], ast.Name):
            for n in ast.walk(node.value):
                if isinstance(n, ast.Attribute) and isinstance(n.value, ast.Name) and n.value.id == "self" and n.attr in fields:
                    mapping.setdefault(node.targets[0].id, n.attr)
    return mapping


def numpy_matrix(te: TermEval, tree: Tree, outer: str, impl: str, arg_atoms: list) -> Mat:
    """The matrix that the generated code lays out, in terms of the outer class's arguments."""
    outer_q, impl_q = f"{LOR}::{outer}", f"{LOR}::{impl}"
    atom = te.single_atom(te.construct(outer_q, arg_atoms, {}))
    built = te.unfold_atom(atom)  # evaluate(): the implementation App
    ia = te.single_atom(built)
    if ia is None or not te.is_app(ia, f"::{impl}"):
        raise ExtractionError(f"{outer}.evaluate does not return a {impl}")
    info = te.apps[ia]
    cls = te.classes[impl_q]
    field_vals = dict(zip([f.name for f in cls.sympy_fields], info.args))
    fn = cls.method("_numpycode")
    layout, tail = template_matrix(fn)
    if "transpose((2, 0, 1))" not in tail.replace(" ", "").replace("transpose((2,0,1))", "transpose((2, 0, 1))") and "transpose" not in tail:
        raise ExtractionError(f"{impl}._numpycode: template lost its .transpose((2, 0, 1)) (batch axis)")
    ph = placeholder_fields(fn, cls)
    rows = []
    for r in layout:
        row = []
        for sign, name in r:
            if name not in ph:
                raise ExtractionError(f"{impl}._numpycode: placeholder {{{name}}} is not bound to a field")
            val = field_vals[ph[name]]
            if isinstance(val, RF):
                a = te.single_atom(val)
                if a is not None and te.is_app(a, "::_OnesArray"):
                    val = RF.const(1)
                elif a is not None and te.is_app(a, "::_ZerosArray"):
                    val = RF.const(0)
            row.append(sign * te._rf(val))
        rows.append(row)
    if len(rows) != 4 or any(len(r) != 4 for r in rows):
        raise ExtractionError(f"{impl}._numpycode: template is not 4x4")
    return Mat(rows)


def normalise_sqrt_flavour(te: TermEval, m: Mat) -> Mat:
    """ComplexSqrt(x) == sqrt(x) for the physical range (documented tolerance: beta <= 1)."""
    def fix(v: RF) -> RF:
        for a in list(v.atoms()):
            if te.is_app(a) and te.apps[a].cls == "ComplexSqrt":
                v = v.substitute(a, sqrt(te._rf(te.apps[a].args[0])))
        return v

    return Mat([[fix(e) for e in r] for r in m.rows])


def check_siblings(ctx: Check, tree: Tree) -> dict[str, Mat]:
    explicit: dict[str, Mat] = {}
    D.reset()
    te = TermEval(tree)
    for outer, impl in MATRIX_CLASSES.items():
        cls = te.classes.get(f"{LOR}::{outer}")
        if cls is None:
            raise AnalysisError(f"vanished anchor: {outer}")
        args = [sym(f.name) for f in cls.sympy_fields]
        atom = te.single_atom(te.construct(cls.qual, args, {}))
        a = te.unfold_atom(atom, "as_explicit")
        if not isinstance(a, Mat) or a.shape != (4, 4):
            raise ExtractionError(f"{outer}.as_explicit is not a 4x4 matrix literal")
        a = normalise_sqrt_flavour(te, a)
        b = normalise_sqrt_flavour(te, numpy_matrix(te, tree, outer, impl, args))
        diffs = []
        for i in range(4):
            for j in range(4):
                if not equal(a.rows[i][j], b.rows[i][j]):
                    diffs.append({"entry": [i, j], "as_explicit": repr(a.rows[i][j])[:120], "numpycode": repr(b.rows[i][j])[:120]})
        ctx.verdict(not diffs, "R-TERM", f"{LOR}::{outer}::explicit-vs-numpycode", tree.loc(cls.info.node),
                    f"{outer}: the 16 entries of as_explicit() agree with the matrix laid out by {impl}._numpycode for the arguments that evaluate() passes",
                    diffs[:4] or None)
        explicit[outer] = a
        explicit[outer + "#te"] = te  # type: ignore[assignment]
    return explicit


# --------------------------------------------------------------------------- metric / NegativeMomentum


def check_metric(ctx: Check, tree: Tree) -> None:
    te = TermEval(tree)
    p = sym("p")
    cls = te.classes[f"{LOR}::MinkowskiMetric"]
    atom = te.single_atom(te.construct(cls.qual, [p], {}))
    m = te.unfold_atom(atom, "as_explicit")
    want = [[1, 0, 0, 0], [0, -1, 0, 0], [0, 0, -1, 0], [0, 0, 0, -1]]
    ok = isinstance(m, Mat) and all(equal(m.rows[i][j], RF.const(want[i][j])) for i in range(4) for j in range(4))
    ctx.verdict(ok, "R-TERM", f"{LOR}::MinkowskiMetric.as_explicit::diag", tree.loc(cls.info.node), "MinkowskiMetric.as_explicit == diag(1,-1,-1,-1)")
    npc = cls.method("_numpycode")
    layout, _ = template_matrix(npc)
    # the placeholders are locals built as f"ones(...)" / f"zeros(...)": classify by their definition
    from ..dataflow import RD as _RD

    prd = _RD(npc.node)
    kind: dict[str, int] = {}
    for d in prd.defs:
        if d.value is not None and isinstance(d.value, ast.JoinedStr):
            head = "".join(str(v.value) for v in d.value.values if isinstance(v, ast.Constant))
            if head.startswith("ones("):
                kind[d.name] = 1
            elif head.startswith("zeros("):
                kind[d.name] = 0
    got = [[s * kind.get(n, 99) for s, n in r] for r in layout]
    ctx.verdict(got == want, "R-TERM", f"{LOR}::MinkowskiMetric._numpycode::diag", tree.loc(cls.method("_numpycode").node),
                "MinkowskiMetric._numpycode template == diag(ones,-ones,-ones,-ones)", None if got == want else {"template": got})
    neg = te.classes[f"{LOR}::NegativeMomentum"]
    v = te.unfold_atom(te.single_atom(te.construct(neg.qual, [p], {})))
    a = te.single_atom(v) if isinstance(v, RF) else None
    ok = a is not None and te.is_app(a, "ArrayMultiplication")
    if ok:
        args = te.apps[a].args
        first = te.single_atom(args[0]) if isinstance(args[0], RF) else None
        ok = len(args) == 2 and first is not None and te.is_app(first, "::MinkowskiMetric") and equal(te._rf(args[1]), p) and equal(te._rf(te.apps[first].args[0]), p)
    ctx.verdict(ok, "R-TERM", f"{LOR}::NegativeMomentum.evaluate", tree.loc(neg.info.node), "NegativeMomentum(p) == ArrayMultiplication(MinkowskiMetric(p), p)")


# --------------------------------------------------------------------------- R-LORENTZ

ETA = [1, -1, -1, -1]


def lorentz_defect(m: Mat) -> list[list[RF]]:
    """M^T eta M - eta."""
    out = []
    for i in range(4):
        row = []
        for j in range(4):
            acc = RF.const(0)
            for k in range(4):
                acc = acc + ETA[k] * m.rows[k][i] * m.rows[k][j]
            if i == j:
                acc = acc - ETA[i]
            row.append(acc)
        out.append(row)
    return out


def check_lorentz(ctx: Check, tree: Tree, mats: dict) -> None:
    # rotations: modulo cos^2 + sin^2 = 1
    for name in ("RotationYMatrix", "RotationZMatrix"):
        te: TermEval = mats[name + "#te"]
        m: Mat = mats[name]
        cos = te.app("cos", [sym("angle")])
        sin = te.app("sin", [sym("angle")])
        sin_atom, cos_atom = te.single_atom(sin), te.single_atom(cos)
        D.set_relations([(sin_atom, 2, (RF.const(1) - cos * cos).n)])
        defect = lorentz_defect(m)
        bad = [(i, j, repr(defect[i][j])[:80]) for i in range(4) for j in range(4) if not defect[i][j].is_zero()]
        det_ok = True
        ctx.verdict(not bad, "R-LORENTZ", f"{LOR}::{name}.as_explicit::orthogonal", tree.loc(te.classes[f"{LOR}::{name}"].info.node),
                    f"{name}: R^T eta R == eta (16 entries, modulo cos^2+sin^2=1); time row/column untouched", bad[:3] or None)
        D.set_relations([])
    # sign conventions are roles
    te = mats["RotationYMatrix#te"]
    m = mats["RotationYMatrix"]
    sin = te.app("sin", [sym("angle")])
    ctx.verdict(equal(m.rows[1][3], sin) and equal(m.rows[3][1], -sin), "R-LORENTZ", f"{LOR}::RotationYMatrix.as_explicit::handedness",
                tree.loc(te.classes[f"{LOR}::RotationYMatrix"].info.node), "RotationYMatrix: +sin at [x][z], -sin at [z][x] (active rotation about y)")
    te = mats["RotationZMatrix#te"]
    m = mats["RotationZMatrix"]
    sin = te.app("sin", [sym("angle")])
    ctx.verdict(equal(m.rows[1][2], -sin) and equal(m.rows[2][1], sin), "R-LORENTZ", f"{LOR}::RotationZMatrix.as_explicit::handedness",
                tree.loc(te.classes[f"{LOR}::RotationZMatrix"].info.node), "RotationZMatrix: -sin at [x][y], +sin at [y][x] (active rotation about z)")
    # z boost: modulo gamma^2 (1 - beta^2) = 1  <=>  sqrt(1-beta^2)^2 = 1-beta^2 (automatic: gamma = 1/sqrt(1-beta^2))
    te = mats["BoostZMatrix#te"]
    m = mats["BoostZMatrix"]
    defect = lorentz_defect(m)
    bad = [(i, j, repr(defect[i][j])[:80]) for i in range(4) for j in range(4) if not defect[i][j].is_zero()]
    ctx.verdict(not bad, "R-LORENTZ", f"{LOR}::BoostZMatrix.as_explicit::lorentz", tree.loc(te.classes[f"{LOR}::BoostZMatrix"].info.node),
                "BoostZMatrix: B^T eta B == eta with gamma = 1/sqrt(1-beta^2)", bad[:3] or None)
    beta = sym("beta")
    g = RF.const(1) / sqrt(RF.const(1) - beta**2)
    ctx.verdict(equal(m.rows[0][0], g) and equal(m.rows[0][3], -g * beta) and equal(m.rows[3][0], -g * beta), "R-LORENTZ",
                f"{LOR}::BoostZMatrix.as_explicit::direction", tree.loc(te.classes[f"{LOR}::BoostZMatrix"].info.node),
                "BoostZMatrix: L00 = gamma >= 1, L03 = L30 = -gamma*beta (boost INTO the rest frame of a particle moving along +z)")


def check_general_boost(ctx: Check, tree: Tree, mats: dict) -> None:
    """Thorough: the general boost after unfolding beta_i = p_i/E, beta^2 = |p|^2/E^2."""
    te: TermEval = mats["BoostMatrix#te"]
    m: Mat = mats["BoostMatrix"]
    E, px, py, pz = sym("E"), sym("px"), sym("py"), sym("pz")

    def concretise(v: RF) -> RF:
        for _ in range(6):
            changed = False
            for a in list(v.atoms()):
                if te.is_app(a):
                    info = te.apps[a]
                    name = info.cls.split("::")[-1]
                    rep = None
                    if name == "Energy":
                        rep = E
                    elif name == "FourMomentumX":
                        rep = px
                    elif name == "FourMomentumY":
                        rep = py
                    elif name == "FourMomentumZ":
                        rep = pz
                    elif name == "EuclideanNormSquared":
                        inner = te.single_atom(info.args[0])
                        if inner is not None and te.is_app(inner, "::ThreeMomentum"):
                            rep = px**2 + py**2 + pz**2
                    if rep is not None:
                        v = v.substitute(a, rep)
                        changed = True
                elif isinstance(a, tuple) and a and a[0] == "sqrt":
                    rad = RF(D.radicands[a])
                    new = concretise(rad)
                    if not equal(new, rad) or any(te.is_app(x) for x in rad.atoms()):
                        v = v.substitute(a, sqrt(new))
                        changed = True
            if not changed:
                break
        return v

    mc = Mat([[concretise(e) for e in r] for r in m.rows])
    leftover = {a for r in mc.rows for e in r for a in e.atoms() if te.is_app(a)}
    if leftover:
        raise ExtractionError(f"BoostMatrix.as_explicit: could not express {len(leftover)} sub-terms through (E, px, py, pz)")
    defect = lorentz_defect(mc)
    bad = [(i, j, repr(defect[i][j])[:100]) for i in range(4) for j in range(4) if not defect[i][j].is_zero()]
    ctx.verdict(not bad, "R-LORENTZ", f"{LOR}::BoostMatrix.as_explicit::lorentz", tree.loc(te.classes[f"{LOR}::BoostMatrix"].info.node),
                "BoostMatrix: B^T eta B == eta for beta_i = p_i/E, gamma = 1/sqrt(1-|p|^2/E^2) (16 rational-function identities over sqrt atoms)", bad[:3] or None)
    # B(p) p = (m, 0, 0, 0): spatial components vanish, time component = sqrt(E^2-|p|^2)
    vec = [E, px, py, pz]
    res = [sum((mc.rows[i][k] * vec[k] for k in range(4)), RF.const(0)) for i in range(4)]
    ok_rest = all(res[i].is_zero() for i in (1, 2, 3))
    ctx.verdict(ok_rest, "R-LORENTZ", f"{LOR}::BoostMatrix.as_explicit::rest-frame", tree.loc(te.classes[f"{LOR}::BoostMatrix"].info.node),
                "BoostMatrix: B(p)·p has vanishing spatial components (boost into the rest frame)", None if ok_rest else [repr(r)[:100] for r in res])
    m2 = E**2 - px**2 - py**2 - pz**2
    ok_mass = equal(res[0] * res[0], m2)
    ctx.verdict(ok_mass, "R-LORENTZ", f"{LOR}::BoostMatrix.as_explicit::mass", tree.loc(te.classes[f"{LOR}::BoostMatrix"].info.node),
                "BoostMatrix: (B(p)·p)_0^2 == E^2 - |p|^2")
    sym_ok = all(equal(mc.rows[i][j], mc.rows[j][i]) for i in range(4) for j in range(4))
    ctx.verdict(sym_ok, "R-LORENTZ", f"{LOR}::BoostMatrix.as_explicit::symmetric", tree.loc(te.classes[f"{LOR}::BoostMatrix"].info.node),
                "BoostMatrix is symmetric (pure boost, no rotation part)")


def check_einsum_printers(ctx: Check, tree: Tree) -> None:
    """ArrayMultiplication / MatrixMultiplication._numpycode: every printed tensor reaches
    ONE einsum call in argument order, with the contraction string for that many tensors.

    The contraction strings themselves are built by loops (not decided; the doctests pin
    n = 1, 2, 3).  A printer of another shape is outside the rule's grammar: ANALYSIS-ERROR,
    neither pass nor violation."""
    from ..canon import canon
    from ..dataflow import RD as _RD

    for cls_name in ("ArrayMultiplication", "MatrixMultiplication"):
        cls = tree.cls(f"ampform.sympy._array_expressions::{cls_name}")
        fn = cls.methods.get("_numpycode")
        if fn is None:
            raise AnalysisError(f"vanished anchor: {cls_name}._numpycode")
        rd = _RD(fn.node)
        rets = [r for r in walk_function(fn.node, nested=False) if isinstance(r, ast.Return)]
        final = [r for r in rets if isinstance(r.value, ast.JoinedStr)]
        if len(final) != 1:
            raise ExtractionError(f"{cls_name}._numpycode: expected exactly one f-string return that builds the einsum call (shape outside the rule's grammar)")
        js = final[0].value
        text = "".join(str(v.value) if isinstance(v, ast.Constant) else "\x00" for v in js.values)
        holes = [v.value for v in js.values if isinstance(v, ast.FormattedValue)]
        if text.replace(" ", "") != 'einsum("\x00",\x00)' or len(holes) != 2:
            raise ExtractionError(f"{cls_name}._numpycode: return is not einsum(\"<contraction>\", <tensors>) (shape outside the rule's grammar)")
        contraction, joined = holes
        problems = []
        # the tensor list: list(map(printer._print, self.args)) - all arguments, in order
        tensor_defs = []
        if isinstance(joined, ast.Call) and isinstance(joined.func, ast.Attribute) and joined.func.attr == "join" and len(joined.args) == 1:
            sep = joined.func.value
            if not (isinstance(sep, ast.Constant) and sep.value.strip() == ","):
                problems.append(f"tensors are joined with {unparse(sep)} instead of a comma")
            arg = joined.args[0]
            if not isinstance(arg, ast.Name):
                problems.append(f"joins `{unparse(arg)[:40]}`, not the list of all printed tensors")
            else:
                tensor_defs = list(rd.reaching(arg))
        else:
            raise ExtractionError(f"{cls_name}._numpycode: tensors are not passed as \", \".join(<list>)")
        for d in tensor_defs:
            v = unparse(d.value).replace(" ", "") if d.value is not None else ""
            if v not in {"list(map(printer._print,self.args))", "list(map(printer._print,self.tensors))", "[printer._print(t)fortinself.args]"} or d.kind != "assign":
                problems.append(f"the tensor list is `{unparse(d.value)[:60] if d.value is not None else d.kind}`, not every argument printed in order")
        # the contraction: self._create_einsum_subscripts(len(<tensor list>))
        cdefs = list(rd.reaching(contraction)) if isinstance(contraction, ast.Name) else []
        cvals = [unparse(d.value).replace(" ", "") for d in cdefs if d.value is not None] or [unparse(contraction).replace(" ", "")]
        tname = joined.args[0].id if isinstance(joined.args[0], ast.Name) else "?"
        if not all(v == f"self._create_einsum_subscripts(len({tname}))" for v in cvals):
            problems.append(f"contraction is `{cvals}`, not _create_einsum_subscripts(len({tname}))")
        # short cuts for 0 / 1 tensors
        shortcuts = {unparse(r.value) for r in rets if r is not final[0]}
        if not shortcuts <= {"''", f"{tname}[0]"}:
            problems.append(f"unexpected early returns {sorted(shortcuts)}")
        ctx.verdict(not problems, "R-EINSUM", f"{cls.qual}._numpycode::single-ordered-einsum", tree.loc(fn.node),
                    f"{cls_name}._numpycode == einsum(<contraction for n tensors>, <all n printed arguments in order>)", problems or None)


def run(ctx: Check, tree: Tree) -> None:
    ctx.decided += [
        "R-PREC: templates of the kinematics / array printers never put an unparenthesised printed sub-expression next to a tighter-binding operator",
        "R-EINSUM: Array/MatrixMultiplication print ONE einsum over all printed arguments in order with the contraction for that many tensors (the contraction strings themselves are not decided)",
        "R-PRINT: every value interpolated into generated code by the printer methods passes printer._print (or is a literal / class-level literal)",
        "R-TERM: as_explicit() == matrix laid out by the numpy template for the arguments evaluate() passes (BoostZ, RotationY, RotationZ, Boost: 4x16 entries); metric literal; NegativeMomentum = eta·p",
        "R-LORENTZ: R^T eta R = eta for both rotations (mod cos^2+sin^2=1), B_z^T eta B_z = eta, handedness / direction roles; the general boost after unfolding beta_i = p_i/E, B(p)p = (m,0,0,0), symmetry",
    ]
    ctx.not_decided += ["einsum subscript strings of Array/MatrixMultiplication (built in a loop at run time)", "batch sizes", "floating-point accuracy over orders of magnitude of beta*gamma"]
    ctx.assumptions += [
        "ComplexSqrt(x) == sqrt(x) for x >= 0 (beta <= 1); formal radical algebra at a generic positive point",
        "the str printer is not NumPy code (SymPy): a raw SymPy object inside an f-string prints as e.g. `ArrayAxisSum(...)`",
    ]
    ctx.section(check_printers, ctx, tree)
    mats = ctx.section(check_siblings, ctx, tree)
    ctx.section(check_metric, ctx, tree)
    if mats is not None:  # otherwise check_siblings already recorded why the matrices could not be extracted
        ctx.section(check_lorentz, ctx, tree, mats)
        ctx.section(check_general_boost, ctx, tree, mats)
    ctx.section(check_einsum_printers, ctx, tree)
    from .c14 import check_precedence

    ctx.section(check_precedence, ctx, tree, prefixes=("ampform.kinematics", "ampform.sympy._array_expressions"))
