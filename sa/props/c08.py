"""C08 - boost and rotation expressions are proper Lorentz transformations.

R-PRINT   every value written into generated NumPy/Python code went through the printer (three-valued flow
          analysis that follows helpers of any kind: PRINTED / RAW = violation / UNKNOWN = ANALYSIS-ERROR).
R-TERM    explicit matrix (as_explicit) == matrix that the generated code lays out for the arguments that
          evaluate() passes (4 classes x 16 entries).  The printer method is RUN on an abstract printer
          (CodeEval) and its text is parsed, so the way the string is assembled does not matter.
R-LORENTZ M^T eta M == eta for the explicit matrices, modulo one defining relation each (decided only when
          the entries are expressed through the atoms the relation is about).
R-EINSUM  the code of Array/MatrixMultiplication for 1..4 operands is read as a tensor network: it must be the
          chain T0.T1...T(n-1) over all printed arguments in order (contraction strings included).

Verdicts are three-valued: a violation needs positive evidence inside a shape the rule understands; a shape it
cannot interpret is an ANALYSIS-ERROR with the reason, never a violation.
"""

from __future__ import annotations

import ast
import re

from ..exprmodel import expression_classes
from ..loader import AnalysisError, FuncInfo, Tree, unparse, walk_function
from ..poly import RF, D, Poly, equal, sqrt, sym
from ..report import Check
from ..rules import printer_methods
from ..terms import ExtractionError, Mat, Opaque, TermEval, Tup

PID = "C08"
LOR = "ampform.kinematics.lorentz"
MATRIX_CLASSES = {
    "BoostZMatrix": "_BoostZMatrixImplementation",
    "RotationYMatrix": "_RotationYMatrixImplementation",
    "RotationZMatrix": "_RotationZMatrixImplementation",
    "BoostMatrix": "_BoostMatrixImplementation",
}


# --------------------------------------------------------------------------- R-PRINT

PRINTED, RAW, UNKNOWN = "printed", "raw", "unknown"  # verdicts about a value that becomes part of generated code
_OBJECTS = {"printer", "self", "printfn", "callable", "class"}  # python objects: not strings at all
_STR_METHODS = {
    "join", "format", "strip", "lstrip", "rstrip", "replace", "lower", "upper", "title", "capitalize", "center", "ljust", "rjust",
    "zfill", "removeprefix", "removesuffix", "expandtabs", "split", "rsplit", "splitlines", "partition", "rpartition", "format_map", "casefold",
}
_NUMERIC_BUILTINS = {"len", "int", "range", "bool", "ord", "hash", "id", "round", "chr", "float", "abs", "isinstance", "callable", "hasattr"}
_TRANSPARENT_BUILTINS = {"str", "repr", "list", "tuple", "sorted", "reversed", "enumerate", "zip", "set", "frozenset", "iter", "next", "dict", "max", "min", "sum", "format", "ascii"}
_TRANSPARENT_STDLIB = {"itertools.chain", "itertools.zip_longest", "itertools.product", "itertools.islice", "itertools.repeat", "itertools.chain.from_iterable",
                       "itertools.accumulate", "itertools.starmap", "itertools.pairwise", "itertools.cycle", "textwrap.dedent", "textwrap.indent", "copy.copy", "copy.deepcopy"}
_PRINT_ATTRS = ("_print", "doprint", "parenthesize")
_SYMPY_DATA_ATTRS = {"args", "func", "limits", "variables", "function", "free_symbols", "expr", "lhs", "rhs", "base", "exp", "indices", "bound_symbols", "T"}
_SYMPY_OBJECT_METHODS = {"xreplace", "subs", "doit", "simplify", "expand", "evalf", "replace", "together", "factor", "conjugate", "as_explicit",
                         "transpose", "inv", "diff", "rewrite", "evaluate", "get_definition", "as_mutable", "as_immutable", "copy", "atoms"}
_PLAIN_ANNOTATIONS = {"int", "str", "bool", "float", "int | None", "str | None", "bool | None", "float | None", "Optional[int]", "Optional[str]"}


class PrintFlow:
    """What kind of value reaches the generated code of one printer method (three-valued).

    A value is PRINTED when it is a string built only from literals, numbers, printer output (``printer._print`` /
    ``doprint`` / ``parenthesize`` / ``_print_X``, also through ``map``, ``functools.partial`` or a local alias) and
    other printed strings - however it is assembled: f-string, ``+``, ``%``, ``.format``, ``join``, comprehensions,
    locals, containers filled by ``append``, conditional expressions, and HELPERS of any kind (method - of the
    instance's class, so template methods work -, static method, module-level function, nested function that sees the
    printer of its definer, generator, lambda): a call of a package function is followed into its body with the
    parameters bound to the kinds of the arguments, so ``_print_arguments(printer, self)`` and
    ``_print_matrix_array(rows)`` are read like the code they replaced.  It is RAW - positive evidence of a defect -
    when a SymPy object (a field of the expression, ``self.args``, an expression built from them, a parameter nobody
    printed) or the ``str()`` of one is written into the string.  Collections keep their structure (``("tuple", [..])``,
    ``("seq", elem)``, ``("dict", keys, values)``) so that ``for arg, code in pairs`` / ``a, b = helper()`` / ``zip`` /
    ``enumerate`` / ``options.items()`` pick the component that is really used; a collection that holds both printed and
    unprinted values and from which ONE value is taken, the rule cannot tell which, is "mixed" (all of it iterated /
    joined / written: one unprinted member is a defect).  Mixed and everything the rule cannot interpret are UNKNOWN:
    the method cannot be decided (ANALYSIS-ERROR), it is neither passed nor reported."""

    def __init__(self, tree: Tree, fn: FuncInfo, classes: dict, receiver=None) -> None:
        self.tree = tree
        self.fn = fn
        self.classes = classes
        self.receiver = receiver or fn.cls  # the class of the instance: `self.m()` in an inherited printer is ITS method
        self.count = 0  # interpolated / returned values judged
        self._literals = None
        self._rds: dict[str, object] = {}
        self._memo: dict[tuple, tuple] = {}
        self._active: list[str] = []
        self._lambda_bind: dict[int, tuple] = {}
        self._bindings_of: dict[str, dict] = {}  # function -> the parameter kinds it was last entered with (for its closures)

    # ------------------------------------------------------------------ the domain
    # scalar kinds: PRINTED (a string / number that may be written), RAW (a SymPy object), "badtext" (a string that
    # already contains the str() of a SymPy object), UNKNOWN, "mixed" (one of several values of different kinds,
    # unknown which), and the python objects "self" / "class" / "printer" / "printfn" / "callable"
    @staticmethod
    def _struct(k) -> bool:
        return k[0] in {"tuple", "seq", "dict"}

    @staticmethod
    def _some(parts: list[tuple[str, str]]) -> tuple[str, str]:
        """EACH of these values is used (elements of a collection that is iterated / joined, the definitions that
        reach a use on different paths): one unprinted value among them is a defect."""
        if not parts:
            return PRINTED, ""
        for name in ("badtext", RAW, UNKNOWN, "mixed"):
            for k, why in parts:
                if k == name:
                    return k, why
        names = {k for k, _ in parts}
        if len(names) == 1:
            return parts[0]
        return "mixed", f"values of different kinds {sorted(names)}"

    @staticmethod
    def _either(parts: list[tuple[str, str]]) -> tuple[str, str]:
        """ONE of these values is used, the rule does not know which (a record flattened, an unknown index)."""
        if not parts:
            return PRINTED, ""
        for k, why in parts:
            if k == UNKNOWN:
                return k, why
        names = {k for k, _ in parts}
        if len(names) == 1:
            return parts[0]
        return "mixed", next((w for k, w in parts if k in {RAW, "badtext", "mixed"}), "")

    @classmethod
    def _flat(cls, k) -> tuple[str, str]:
        """A collection handed on as a whole (the rule loses track of its components)."""
        if k[0] == "tuple":
            return cls._either([cls._flat(x) for x in k[1]])
        if k[0] == "seq":
            return cls._flat(k[1])
        if k[0] == "dict":
            return cls._either([cls._flat(k[1]), cls._flat(k[2])])
        return k

    @classmethod
    def _elem(cls, k):
        """What iterating over the value yields (every element is visited)."""
        if k[0] == "tuple":
            return cls._merge(list(k[1])) if k[1] else (PRINTED, "")
        if k[0] == "seq":
            return k[1]
        if k[0] == "dict":
            return k[1]
        return k  # the elements of SymPy data are SymPy data, the characters of a string are strings

    @classmethod
    def _merge(cls, kinds: list):
        """Kinds of the elements of ONE collection / of the alternatives that reach one use: component-wise where
        they all have the same shape, otherwise `_some` of the flattened values."""
        if not kinds:
            return PRINTED, ""
        first = kinds[0]
        if all(k[0] == "tuple" and first[0] == "tuple" and len(k[1]) == len(first[1]) for k in kinds):
            return "tuple", [cls._merge([k[1][i] for k in kinds]) for i in range(len(first[1]))]
        if all(k[0] == "seq" for k in kinds):
            return "seq", cls._merge([k[1] for k in kinds])
        if all(k[0] == "dict" for k in kinds):
            return "dict", cls._merge([k[1] for k in kinds]), cls._merge([k[2] for k in kinds])
        return cls._some([cls._flat(k) for k in kinds])

    @classmethod
    def _alt(cls, kinds: list):
        """Alternatives: several definitions reach a use / several returns / both arms of a conditional."""
        if not kinds:
            return UNKNOWN, "no value"
        return cls._merge(kinds)

    @classmethod
    def _code(cls, k) -> tuple[str, str]:
        """A value written into the string of generated code (a collection: all of it, e.g. f"{row}")."""
        if k[0] == "tuple":
            k = cls._merge(list(k[1])) if k[1] else (PRINTED, "")
        k, why = cls._flat(k)
        if k in {PRINTED, RAW, UNKNOWN}:
            return k, why
        if k == "badtext":
            return RAW, why
        if k in {"self", "class"}:
            return RAW, why or "the expression object itself is written into the code without printer._print"
        if k == "mixed":
            return UNKNOWN, "one of several values, printed and unprinted, is written into the code (the rule cannot tell which)" + (f": {why}" if why else "")
        return UNKNOWN, why or "a callable / the printer object is written into the code"

    @classmethod
    def _parts(cls, parts: list) -> tuple[str, str]:
        """Pieces of ONE string: with one unprinted piece the string carries text that is not NumPy code."""
        coded = [cls._code(p) for p in parts]
        for k, why in coded:
            if k == RAW:
                return "badtext", why
        for k, why in coded:
            if k == UNKNOWN:
                return k, why
        return PRINTED, ""

    @classmethod
    def _component(cls, k, index: int):
        """The index-th target of an unpacking of the value."""
        if k[0] == "tuple":
            return k[1][index] if index < len(k[1]) else cls._merge(list(k[1]))
        return cls._elem(k)

    @classmethod
    def _sig(cls, k):
        if k[0] == "tuple":
            return ("tuple", tuple(cls._sig(x) for x in k[1]))
        if k[0] == "seq":
            return ("seq", cls._sig(k[1]))
        if k[0] == "dict":
            return ("dict", cls._sig(k[1]), cls._sig(k[2]))
        return k[0]

    # ------------------------------------------------------------------ scopes
    def _rd(self, fn: FuncInfo):
        from ..dataflow import RD as _RD

        if fn.qual not in self._rds:
            if fn.outer is not None:
                outer = self._rd(fn.outer)
                self._rds[fn.qual] = outer.children.get(id(fn.node)) or _RD(fn.node)
            else:
                self._rds[fn.qual] = _RD(fn.node)
        return self._rds[fn.qual]

    def judge(self) -> tuple[str, str]:
        """The kind of the string(s) the printer method returns."""
        params = self.fn.params
        binding = {}
        if params:
            binding[params[0]] = ("self", "")
        if len(params) > 1:
            binding[params[1]] = ("printer", "")
        self._bindings_of[self.fn.qual] = binding
        return self._code(self._returns(self.fn, binding, 0))

    def _returns(self, fn: FuncInfo, binding: dict, depth: int):
        scope = (fn, binding, self._rd(fn))
        returned, yielded = [], []
        for node in walk_function(fn.node, nested=False):
            if isinstance(node, ast.Return) and node.value is not None:
                returned.append(self.kind(node.value, scope, depth + 1))
            elif isinstance(node, ast.Yield) and node.value is not None:
                yielded.append(self.kind(node.value, scope, depth + 1))
            elif isinstance(node, ast.YieldFrom):
                yielded.append(self._elem(self.kind(node.value, scope, depth + 1)))
        self.count += len(returned) + len(yielded)
        if yielded:
            return "seq", self._merge(yielded)
        if not returned:
            return UNKNOWN, f"{fn.qual} returns nothing"
        return self._alt(returned)

    # ------------------------------------------------------------------ expressions
    def kind(self, node: ast.AST, scope, depth: int = 0):  # noqa: C901, PLR0911, PLR0912
        fn, binding, rd = scope
        if depth > 60:
            return UNKNOWN, "expression too deep"
        if isinstance(node, ast.Constant):
            return PRINTED, ""
        if isinstance(node, ast.JoinedStr):
            parts = []
            for v in node.values:
                if isinstance(v, ast.FormattedValue):
                    self.count += 1
                    parts.append(self.kind(v.value, scope, depth + 1))
            return self._parts(parts)
        if isinstance(node, ast.FormattedValue):
            return self._code(self.kind(node.value, scope, depth + 1))
        if isinstance(node, ast.Name):
            return self._name(node, scope, depth)
        if isinstance(node, ast.Attribute):
            return self._attribute(node, scope, depth)
        if isinstance(node, ast.Call):
            return self._call(node, scope, depth)
        if isinstance(node, ast.BinOp):
            left, right = self.kind(node.left, scope, depth + 1), self.kind(node.right, scope, depth + 1)
            if isinstance(node.op, ast.Mod) and self._flat(left)[0] == PRINTED and not self._struct(left):
                operands = right[1] if right[0] == "tuple" else [right[2]] if right[0] == "dict" else [right]  # % mapping: its values are written
                self.count += len(operands)
                return self._parts([left, *operands])
            if self._struct(left) or self._struct(right):
                if isinstance(node.op, ast.Mult):  # [zeros] * 4
                    return left if self._struct(left) else right
                return "seq", self._merge([self._elem(left), self._elem(right)])  # concatenation of lists / tuples
            return self._parts([left, right])
        if isinstance(node, ast.UnaryOp):
            return self.kind(node.operand, scope, depth + 1)
        if isinstance(node, ast.Compare):
            return PRINTED, ""
        if isinstance(node, ast.IfExp):
            return self._alt([self.kind(x, scope, depth + 1) for x in (node.body, node.orelse)])
        if isinstance(node, ast.BoolOp):
            return self._alt([self.kind(x, scope, depth + 1) for x in node.values])
        if isinstance(node, ast.NamedExpr):
            return self.kind(node.value, scope, depth + 1)
        if isinstance(node, (ast.ListComp, ast.GeneratorExp, ast.SetComp)):
            return "seq", self.kind(node.elt, scope, depth + 1)
        if isinstance(node, ast.DictComp):
            return "dict", self.kind(node.key, scope, depth + 1), self.kind(node.value, scope, depth + 1)
        if isinstance(node, (ast.Tuple, ast.List, ast.Set)):
            if isinstance(node, ast.Set) or any(isinstance(e, ast.Starred) for e in node.elts):
                elems = [self._elem(self.kind(e.value, scope, depth + 1)) if isinstance(e, ast.Starred) else self.kind(e, scope, depth + 1) for e in node.elts]
                return "seq", self._merge(elems)
            return "tuple", [self.kind(e, scope, depth + 1) for e in node.elts]
        if isinstance(node, ast.Dict):
            keys, values = [], []
            for k, v in zip(node.keys, node.values):
                vk = self.kind(v, scope, depth + 1)
                if k is None:  # {**other}
                    keys.append(vk[1] if vk[0] == "dict" else self._elem(vk))
                    values.append(vk[2] if vk[0] == "dict" else self._elem(vk))
                else:
                    keys.append(self.kind(k, scope, depth + 1))
                    values.append(vk)
            return "dict", self._merge(keys), self._merge(values)
        if isinstance(node, ast.Subscript):
            base = self.kind(node.value, scope, depth + 1)
            if base[0] == "tuple":
                idx = node.slice
                if isinstance(idx, ast.UnaryOp) and isinstance(idx.op, ast.USub) and isinstance(idx.operand, ast.Constant) and isinstance(idx.operand.value, int):
                    idx = ast.Constant(value=-idx.operand.value)
                if isinstance(idx, ast.Constant) and isinstance(idx.value, int) and -len(base[1]) <= idx.value < len(base[1]):
                    return base[1][idx.value]
                if isinstance(idx, ast.Slice):
                    return "seq", self._elem(base)
                return self._elem(base)
            if base[0] == "seq":
                return base if isinstance(node.slice, ast.Slice) else base[1]
            if base[0] == "dict":
                return base[2]
            return base  # an item / slice of SymPy data is SymPy data, of a string a string
        if isinstance(node, (ast.Starred, ast.Await)):
            return self.kind(node.value, scope, depth + 1)
        if isinstance(node, ast.Lambda):
            return "callable", ""
        return UNKNOWN, f"construct {type(node).__name__} `{unparse(node)[:50]}` is outside the rule's grammar"

    def _name(self, node: ast.Name, scope, depth: int):
        fn, binding, rd = scope
        if id(node) in self._lambda_bind:
            return self._lambda_bind[id(node)]
        defs = rd.reaching(node) if isinstance(node.ctx, ast.Load) else set()
        if not defs:
            return self._free_name(node, scope)
        return self._alt([self._def(d, scope, depth + 1) for d in sorted(defs, key=lambda d: (d.lineno, d.name, d.kind))])

    def _free_name(self, node: ast.Name, scope):
        fn, binding, rd = scope
        # a name of an enclosing function (class factory): its parameter is data nobody printed
        from ..loader import ancestors

        for anc in ancestors(fn.node):
            if isinstance(anc, (ast.FunctionDef, ast.AsyncFunctionDef)):
                a = anc.args
                if node.id in {x.arg for x in [*a.posonlyargs, *a.args, *a.kwonlyargs, a.vararg, a.kwarg] if x is not None}:
                    passed = self._passed_to_factory(anc, node.id)
                    if passed is not None and passed and all(isinstance(x, ast.Constant) and isinstance(x.value, (str, int)) and not isinstance(x.value, bool) for x in passed):
                        return PRINTED, ""  # a class factory that is only ever called with literal text for this parameter
                    if passed is None or not passed:
                        return UNKNOWN, f"parameter '{node.id}' of the enclosing function {anc.name}: its call sites cannot all be read"
                    return RAW, f"parameter '{node.id}' of the enclosing function {anc.name} is written into the code without printer._print (a caller passes `{unparse(next(x for x in passed if not isinstance(x, ast.Constant)))[:40]}`)"
                if any(isinstance(n, ast.Name) and n.id == node.id and isinstance(n.ctx, ast.Store) for n in ast.walk(anc)):
                    return UNKNOWN, f"'{node.id}' is a local of the enclosing function {anc.name}"
        top = fn.module.toplevel.get(node.id)
        if isinstance(top, (ast.Assign, ast.AnnAssign)) and top.value is not None:
            if isinstance(top.value, (ast.Constant, ast.JoinedStr, ast.Tuple, ast.List, ast.Dict, ast.BinOp)):
                return self.kind(top.value, (fn, {}, rd), 50)
            return UNKNOWN, f"module-level '{node.id}' is not a literal"
        if isinstance(top, (ast.FunctionDef, ast.ClassDef)):
            return "callable", ""
        target = self.tree.resolve(fn.module, node, fn)
        if target and (target in self.tree.funcs or target in self.tree.classes):
            return "callable", ""
        if target and target.split(".")[0] == "string":
            return PRINTED, ""
        return UNKNOWN, f"no definition reaches '{node.id}'"

    def _passed_to_factory(self, factory_node: ast.AST, param: str) -> list[ast.AST] | None:
        """The expressions all call sites of an enclosing (module-level) factory function pass for ``param``; None if
        the factory is not a module-level function of the package, is referenced other than by a direct call, or a
        call cannot be bound (starred arguments)."""
        info = next((f for f in self.tree.funcs.values() if f.node is factory_node), None)
        if info is None or info.outer is not None or info.cls is not None:
            return None
        a = factory_node.args
        names = [x.arg for x in [*a.posonlyargs, *a.args]]
        defaults = dict(zip(reversed(names), reversed(a.defaults)))
        passed: list[ast.AST] = []
        for mod in self.tree.modules.values():
            called = set()
            for n in ast.walk(mod.tree):
                if isinstance(n, ast.Call) and self.tree.resolve(mod, n.func, None) == info.qual:
                    called.add(id(n.func))
                    if any(isinstance(x, ast.Starred) for x in n.args) or any(k.arg is None for k in n.keywords):
                        return None
                    kw = {k.arg: k.value for k in n.keywords}
                    if param in kw:
                        passed.append(kw[param])
                    elif param in names and names.index(param) < len(n.args):
                        passed.append(n.args[names.index(param)])
                    elif param in defaults:
                        passed.append(defaults[param])
                    else:
                        return None
            for n in ast.walk(mod.tree):
                if isinstance(n, (ast.Name, ast.Attribute)) and isinstance(getattr(n, "ctx", None), ast.Load) and id(n) not in called \
                        and not isinstance(getattr(n, "_parent", None), ast.Attribute) and self.tree.resolve(mod, n, None) == info.qual:
                    return None  # the factory itself is handed around: not all calls are visible
        return passed

    def _def(self, d, scope, depth: int):  # noqa: C901, PLR0912
        fn, binding, rd = scope
        key = (fn.qual, id(d), tuple(sorted((k, repr(self._sig(v))) for k, v in binding.items())))
        if key in self._memo:
            return self._memo[key]
        self._memo[key] = (PRINTED, "")  # a loop's back edge is optimistic
        previous = [dep for dep in d.deps if dep.name == d.name and dep is not d]
        if d.kind == "param":
            if d.name in binding:
                res = binding[d.name]
            else:
                default = self._default_of(fn, d.name)
                if default is not None:
                    res = self.kind(default, (fn, {}, rd), depth + 1)
                elif fn.node.args.vararg is not None and fn.node.args.vararg.arg == d.name:
                    res = ("tuple", []) if fn is not self.fn else (UNKNOWN, f"the extra positional arguments *{d.name} are written into the code")
                elif fn.node.args.kwarg is not None and fn.node.args.kwarg.arg == d.name:
                    res = ("dict", (PRINTED, ""), (PRINTED, "")) if fn is not self.fn else (UNKNOWN, f"the extra keyword arguments **{d.name} are written into the code")
                else:
                    res = (RAW, f"parameter '{d.name}' is written into the code without printer._print")
        elif d.kind == "lambda":
            res = self._lambda_bind.get(id(d.node), (UNKNOWN, f"parameter '{d.name}' of a lambda"))
        elif d.kind == "store" and isinstance(d.value, ast.Call) and isinstance(d.value.func, ast.Attribute):
            # x.append(v) / x.extend(vs) / x.update(...): what goes in, plus what was there
            call = d.value
            old = [self._def(dep, scope, depth + 1) for dep in previous]
            attr = call.func.attr
            args = [self.kind(a, scope, depth + 1) for a in call.args]
            if not (isinstance(call.func.value, ast.Name) and call.func.value.id == d.name):
                # `printer.module_imports[m].add("array")`: a part of the object is updated, the name still holds the object
                res = self._alt(old) if old else (UNKNOWN, f"`{unparse(call)[:40]}` on an unknown object")
            elif attr in {"append", "add", "appendleft"} and args:
                res = ("seq", self._merge([*[self._elem(o) for o in old], args[-1]]))
            elif attr == "insert" and len(args) == 2:
                res = ("seq", self._merge([*[self._elem(o) for o in old], args[1]]))
            elif attr in {"extend", "update"} and args and not all(o[0] == "dict" for o in old):
                res = ("seq", self._merge([*[self._elem(o) for o in old], *[self._elem(a) for a in args]]))
            elif attr == "update" and old:
                extra = [a for a in args if a[0] == "dict"]
                kws = [self.kind(k.value, scope, depth + 1) for k in call.keywords if k.arg]
                res = ("dict", self._merge([*[o[1] for o in old], *[e[1] for e in extra]]), self._merge([*[o[2] for o in old], *[e[2] for e in extra], *kws]))
                if len(extra) != len(args):
                    res = (UNKNOWN, f"`{unparse(call)[:50]}`: update with a value that is not a dict")
            elif attr == "setdefault" and len(args) == 2 and old and all(o[0] == "dict" for o in old):
                res = ("dict", self._merge([*[o[1] for o in old], args[0]]), self._merge([*[o[2] for o in old], args[1]]))
            elif attr in {"pop", "popitem", "remove", "discard", "clear", "sort", "reverse"}:
                res = self._alt(old) if old else (UNKNOWN, f"`{unparse(call)[:40]}` on an unknown container")
            else:
                res = (UNKNOWN, f"container update `{unparse(call)[:50]}` is outside the rule's grammar")
        elif d.kind == "store" and d.value is not None:
            # x[k] = v
            old = [self._def(dep, scope, depth + 1) for dep in previous]
            new = self.kind(d.value, scope, depth + 1)
            target = next((t for t in getattr(d.node, "targets", []) if isinstance(t, ast.Subscript) and isinstance(t.value, ast.Name) and t.value.id == d.name), None)
            if target is None:
                res = self._alt(old) if old else (UNKNOWN, f"store into a part of '{d.name}'")  # x.attr = v / x[k].y = v: the name still holds the object
            elif old and all(o[0] == "dict" for o in old):
                res = ("dict", self._merge([*[o[1] for o in old], self.kind(target.slice, scope, depth + 1)]), self._merge([*[o[2] for o in old], new]))
            else:
                res = ("seq", self._merge([*[self._elem(o) for o in old], new]))
        elif d.kind in {"assign", "with", "aug"} and d.value is not None:
            res = self.kind(d.value, scope, depth + 1)
            if d.index is not None:
                res = self._component(res, d.index)
            if d.kind == "aug":
                old = [self._def(dep, scope, depth + 1) for dep in previous]
                if self._struct(res) or any(self._struct(o) for o in old):
                    res = ("seq", self._merge([self._elem(res), *[self._elem(o) for o in old]]))
                else:
                    res = self._parts([res, *old])
        elif d.kind in {"comp", "for"} and d.value is not None:
            res = self._elem(self.kind(d.value, scope, depth + 1))
            if d.index is not None:
                res = self._component(res, d.index)
        elif d.kind == "def":
            res = ("callable", "")
        else:
            res = (UNKNOWN, f"definition of '{d.name}' ({d.kind}) is outside the rule's grammar")
        self._memo[key] = res
        return res

    @staticmethod
    def _default_of(fn: FuncInfo, name: str):
        a = fn.node.args
        pos = [*a.posonlyargs, *a.args]
        for p_, dflt in zip(pos[len(pos) - len(a.defaults):], a.defaults):
            if p_.arg == name:
                return dflt
        for p_, dflt in zip(a.kwonlyargs, a.kw_defaults):
            if p_.arg == name and dflt is not None:
                return dflt
        return None

    def _attribute(self, node: ast.Attribute, scope, depth: int):  # noqa: C901, PLR0911
        fn, binding, rd = scope
        if node.attr in {"__name__", "__qualname__"}:
            return PRINTED, ""
        base = self._flat(self.kind(node.value, scope, depth + 1))
        if base[0] == "printer":
            if node.attr.startswith("_print") or node.attr in _PRINT_ATTRS:
                return "printfn", ""
            return UNKNOWN, f"printer attribute `{unparse(node)}`"
        if base[0] == "self":
            cls = self.receiver
            if cls is not None:
                if self._literals is None:
                    self._literals = set()
                    for c in self.tree.mro(cls):
                        for st in c.node.body:
                            target = st.targets[0] if isinstance(st, ast.Assign) and len(st.targets) == 1 else st.target if isinstance(st, ast.AnnAssign) else None
                            if isinstance(target, ast.Name) and isinstance(getattr(st, "value", None), ast.Constant):
                                self._literals.add(target.id)
                if node.attr in self._literals:
                    return PRINTED, ""
                method = self.tree.lookup_method(cls, node.attr)
                if method is not None:
                    if any(unparse(dec) in {"property", "functools.cached_property", "cached_property"} for dec in method.node.decorator_list):
                        return self._enter(method, {method.params[0]: ("self", "")} if method.params else {}, depth)
                    return "callable", ""
                ecls = self.classes.get(cls.qual)
                if ecls is not None:
                    for f in ecls.fields:
                        if f.name == node.attr:
                            if f.sympify:
                                return RAW, f"field '{unparse(node)}' is written into the code without printer._print"
                            if f.annotation.replace("typing.", "") in _PLAIN_ANNOTATIONS:
                                return PRINTED, ""
                            return UNKNOWN, f"non-SymPy field '{unparse(node)}' of type {f.annotation}"
            if node.attr in _SYMPY_DATA_ATTRS:
                return RAW, f"'{unparse(node)}' is written into the code without printer._print"
            return UNKNOWN, f"attribute '{unparse(node)}' is neither a field, a class-level literal nor a method"
        if base[0] == RAW:
            return RAW, base[1]  # an attribute of a SymPy object (x.args, x.func ...) is SymPy data
        if base[0] == "class":
            return UNKNOWN, f"class attribute `{unparse(node)}`"
        target = self.tree.resolve(fn.module, node, fn)
        if target:
            if target in self.tree.funcs or target in self.tree.classes:
                return "callable", ""
            if target.split(".")[0] == "string":
                return PRINTED, ""  # string.ascii_lowercase ...
            if target.startswith("sympy.") and target.split(".")[-1] in {"I", "pi", "oo", "E", "nan", "zoo"}:
                return RAW, f"the SymPy constant `{unparse(node)}` is written into the code without printer._print"
        if base[0] == PRINTED:
            return UNKNOWN, f"attribute `{unparse(node)}` of a string / number"
        return UNKNOWN, base[1] or f"attribute `{unparse(node)}`"

    # ------------------------------------------------------------------ calls
    def _call(self, node: ast.Call, scope, depth: int):  # noqa: C901, PLR0911, PLR0912
        fn, binding, rd = scope
        f = node.func
        operands = [*node.args, *[k.value for k in node.keywords]]
        kind = lambda x: self.kind(x, scope, depth + 1)  # noqa: E731
        if isinstance(f, ast.Name) and not rd.reaching(f) and f.id not in fn.module.toplevel and self.tree.resolve(fn.module, f, fn) is None:
            return self._builtin(f.id, node, scope, depth)
        fk = self._flat(kind(f)) if isinstance(f, (ast.Attribute, ast.Name)) else (UNKNOWN, "")
        if fk[0] == "printfn":
            return PRINTED, ""
        if isinstance(f, ast.Attribute):
            recv = kind(f.value)
            flat = self._flat(recv)
            if recv[0] == "dict":
                if f.attr == "items":
                    return "seq", ("tuple", [recv[1], recv[2]])
                if f.attr == "keys":
                    return "seq", recv[1]
                if f.attr == "values":
                    return "seq", recv[2]
                if f.attr in {"get", "pop", "setdefault"} and node.args:
                    return self._alt([recv[2], *[kind(a) for a in node.args[1:]]])
                if f.attr == "copy":
                    return recv
            if recv[0] in {"seq", "tuple"}:
                if f.attr == "copy":
                    return recv
                if f.attr in {"index", "count"}:
                    return PRINTED, ""
                if f.attr == "pop":
                    return self._elem(recv)
            if flat[0] == "badtext" and not self._struct(recv) and (f.attr in _STR_METHODS or f.attr in {"format", "format_map"}):
                return flat  # a method of a string that already carries unprinted text
            if flat[0] == PRINTED and not self._struct(recv):
                if f.attr == "join" and len(node.args) == 1:
                    return self._parts([recv, self._elem(kind(node.args[0]))])
                if f.attr in {"format", "format_map"}:
                    self.count += len(operands)
                    written = [kind(a) for a in node.args]
                    for kw in node.keywords:
                        k = kind(kw.value)
                        written.append(k[2] if kw.arg is None and k[0] == "dict" else k)  # **mapping: its values are written
                    if f.attr == "format_map" and written and written[0][0] == "dict":
                        written[0] = written[0][2]
                    return self._parts([recv, *written])
                if f.attr in {"split", "rsplit", "splitlines", "partition", "rpartition"}:
                    return "seq", recv
                if f.attr in _STR_METHODS:
                    return self._parts([recv, *[kind(a) for a in operands]])
                if f.attr in {"count", "index", "find", "rfind", "startswith", "endswith", "isdigit", "isalpha", "isidentifier"}:
                    return PRINTED, ""
            if flat[0] == RAW:
                return RAW, flat[1]  # a method of a SymPy object called on unprinted data gives unprinted data (or its str())
            if flat[0] == "self" and f.attr in _SYMPY_OBJECT_METHODS and self.tree.lookup_method(self.receiver, f.attr) is None:
                return RAW, f"`{unparse(node)[:50]}` is a SymPy object that did not pass the printer"
        # a function / method / class of the package
        target = self.tree.resolve(fn.module, f, fn)
        if isinstance(f, ast.Attribute) and self.receiver is not None and self._flat(kind(f.value))[0] == "self":
            dyn = self.tree.lookup_method(self.receiver, f.attr)
            target = dyn.qual if dyn is not None else target
        if target in self.tree.classes:
            if any(b.startswith("sympy.") for c in self.tree.mro(self.tree.classes[target]) for b in self.tree.external_bases(c)) or target in self.classes:
                return RAW, f"`{unparse(node)[:50]}` builds a SymPy object that did not pass the printer"
            return UNKNOWN, f"instance of {target}"
        if target in self.tree.funcs:
            callee = self.tree.funcs[target]
            return self._enter(callee, self._bind(callee, node, scope, depth), depth)
        if target and target.startswith("sympy."):
            last = target.split(".")[-1]
            if last[:1].isupper() or last in {"sqrt", "cos", "sin", "tan", "exp", "log", "atan", "atan2", "acos", "asin", "conjugate", "sympify", "symbols", "re", "im", "sign"}:
                return RAW, f"`{unparse(node)[:50]}` builds a SymPy object that did not pass the printer"
            return UNKNOWN, f"value of sympy call `{unparse(node)[:50]}`"
        if target in {"itertools.chain", "itertools.chain.from_iterable"}:
            if target.endswith("from_iterable") and len(node.args) == 1:
                return "seq", self._elem(self._elem(kind(node.args[0])))
            return "seq", self._merge([self._elem(kind(a)) for a in node.args])
        if target in {"itertools.zip_longest", "itertools.product"}:
            fill = [kind(k.value) for k in node.keywords if k.arg == "fillvalue"]
            return "seq", ("tuple", [self._merge([self._elem(kind(a)), *fill]) for a in node.args])
        if target in {"itertools.islice", "itertools.cycle", "itertools.accumulate"} and node.args:
            return "seq", self._elem(kind(node.args[0]))
        if target == "itertools.repeat" and node.args:
            return "seq", kind(node.args[0])
        if target == "itertools.pairwise" and node.args:
            e = self._elem(kind(node.args[0]))
            return "seq", ("tuple", [e, e])
        if target in {"textwrap.dedent", "textwrap.indent"} and node.args:
            return self._parts([kind(a) for a in node.args])
        if target in {"copy.copy", "copy.deepcopy"} and node.args:
            return kind(node.args[0])
        if target in {"functools.partial"} and node.args:
            first = self._flat(kind(node.args[0]))
            return first if first[0] == "printfn" and len(node.args) == 1 else ("callable", "")  # partial(printer._print) still prints
        if isinstance(f, ast.Name) and fk[0] == "callable":
            # a local lambda held under a name
            lambdas = [d.value for d in rd.reaching(f) if d.kind == "assign" and isinstance(d.value, ast.Lambda)]
            if lambdas and len(lambdas) == len(rd.reaching(f)) and not node.keywords and not any(isinstance(a, ast.Starred) for a in node.args):
                return self._alt([self._lambda(lam, [kind(a) for a in node.args], scope, depth) for lam in lambdas])
        return UNKNOWN, f"value of call `{unparse(node)[:60]}`: the callee is not known to the rule"

    def _builtin(self, name: str, node: ast.Call, scope, depth: int):  # noqa: C901, PLR0911, PLR0912
        kind = lambda x: self.kind(x, scope, depth + 1)  # noqa: E731
        args = node.args
        if name in _NUMERIC_BUILTINS:
            return PRINTED, ""
        if name in {"str", "repr", "format", "ascii"}:
            # str(x) / repr(x) of a SymPy object is the str printer's text: not NumPy code
            return self._parts([kind(a) for a in args]) if args else (PRINTED, "")
        if name in {"list", "tuple"} and len(args) == 1:
            k = kind(args[0])
            return k if k[0] in {"tuple", "seq"} else ("seq", self._elem(k))
        if name in {"sorted", "reversed", "set", "frozenset", "iter"} and args:
            return "seq", self._elem(kind(args[0]))
        if name in {"list", "tuple", "set", "frozenset", "dict"} and not args and not node.keywords:
            return ("dict", (PRINTED, ""), (PRINTED, "")) if name == "dict" else ("tuple", [])
        if name == "next" and args:
            return self._alt([self._elem(kind(args[0])), *[kind(a) for a in args[1:]]])
        if name == "enumerate" and args:
            return "seq", ("tuple", [(PRINTED, ""), self._elem(kind(args[0]))])
        if name == "zip":
            if any(isinstance(a, ast.Starred) for a in args):
                return "seq", ("seq", self._merge([self._elem(self._elem(kind(a.value))) if isinstance(a, ast.Starred) else self._elem(kind(a)) for a in args]))
            return "seq", ("tuple", [self._elem(kind(a)) for a in args])
        if name == "dict":
            values = [kind(k.value) for k in node.keywords if k.arg]
            keys = [(PRINTED, "")] if values else []
            for a in args:
                k = kind(a)
                if k[0] == "dict":
                    keys.append(k[1])
                    values.append(k[2])
                else:
                    pair = self._elem(k)
                    keys.append(self._component(pair, 0))
                    values.append(self._component(pair, 1))
            for kw in node.keywords:
                if kw.arg is None:
                    k = kind(kw.value)
                    keys.append(k[1] if k[0] == "dict" else self._elem(k))
                    values.append(k[2] if k[0] == "dict" else self._elem(k))
            return "dict", self._merge(keys), self._merge(values)
        if name == "map" and len(args) >= 2:
            return "seq", self._apply(args[0], [self._elem(kind(a)) for a in args[1:]], scope, depth)
        if name == "filter" and len(args) == 2:
            return "seq", self._elem(kind(args[1]))
        if name in {"max", "min"} and args:
            return self._elem(kind(args[0])) if len(args) == 1 else self._alt([kind(a) for a in args])
        if name == "sum" and args:
            return self._merge([self._elem(kind(args[0])), *[kind(a) for a in args[1:]]])
        if name == "type":
            return "class", ""
        if name == "getattr" and len(args) >= 2 and isinstance(args[1], ast.Constant) and isinstance(args[1].value, str):
            attr = ast.copy_location(ast.Attribute(value=args[0], attr=args[1].value, ctx=ast.Load()), node)
            got = self._attribute(attr, scope, depth)
            return got if len(args) == 2 else self._alt([got, kind(args[2])])
        return UNKNOWN, f"builtin `{name}` is outside the rule's grammar"

    def _bind(self, callee: FuncInfo, call: ast.Call, scope, depth: int) -> dict:
        """Parameters of a package function -> kinds of the arguments of this call."""
        a = callee.node.args
        pos = [x.arg for x in [*a.posonlyargs, *a.args]]
        out: dict = {}
        decorators = {unparse(d) for d in callee.node.decorator_list}
        if callee.cls is not None and callee.outer is None and "staticmethod" not in decorators and pos:
            recv = self._flat(self.kind(call.func.value, scope, depth + 1)) if isinstance(call.func, ast.Attribute) else ("callable", "")
            if "classmethod" in decorators:
                out[pos[0]] = ("class", "")
                pos = pos[1:]
            elif recv[0] in {"callable", "class"}:
                pass  # Class.method(obj, ...): the instance is the first positional argument
            else:
                out[pos[0]] = recv
                pos = pos[1:]
        extra: list = []
        i = 0
        for arg in call.args:
            if isinstance(arg, ast.Starred):
                k = self.kind(arg.value, scope, depth + 1)
                items = list(k[1]) if k[0] == "tuple" else None
                if items is not None:
                    for item in items:
                        if i < len(pos):
                            out[pos[i]] = item
                        else:
                            extra.append(item)
                        i += 1
                else:
                    for name in pos[i:]:
                        out.setdefault(name, self._elem(k))
                    extra.append(self._elem(k))
                    i = len(pos)
                continue
            k = self.kind(arg, scope, depth + 1)
            if i < len(pos):
                out[pos[i]] = k
            else:
                extra.append(k)
            i += 1
        if a.vararg is not None:
            out[a.vararg.arg] = ("tuple", extra) if all(not isinstance(x, ast.Starred) for x in call.args) else ("seq", self._merge(extra))
        named = {*pos, *[x.arg for x in a.kwonlyargs]}
        kw_keys, kw_values = [], []
        for kw in call.keywords:
            k = self.kind(kw.value, scope, depth + 1)
            if kw.arg is None:
                for name in named:
                    out.setdefault(name, k[2] if k[0] == "dict" else self._elem(k))
                kw_keys.append(k[1] if k[0] == "dict" else (PRINTED, ""))
                kw_values.append(k[2] if k[0] == "dict" else self._elem(k))
            elif kw.arg in named:
                out[kw.arg] = k
            else:
                kw_keys.append((PRINTED, ""))
                kw_values.append(k)
        if a.kwarg is not None:
            out[a.kwarg.arg] = ("dict", self._merge(kw_keys), self._merge(kw_values))
        return out

    def _enter(self, callee: FuncInfo, binding: dict, depth: int):
        if callee.qual in self._active:
            return PRINTED, ""  # recursion: optimistic on the back edge, the other returns decide
        if len(self._active) > 8:
            return UNKNOWN, f"helper chain too deep at {callee.qual}"
        self._active.append(callee.qual)
        if callee.outer is not None:
            # a nested function also sees the parameters of the function it is written in (the printer, self ...)
            binding = {**self._bindings_of.get(callee.outer.qual, {}), **binding}
        self._bindings_of[callee.qual] = binding
        try:
            res = self._returns(callee, binding, depth)
        finally:
            self._active.pop()
        flat = self._flat(res)
        if flat[0] == UNKNOWN and not self._reads_self(callee) and self._plain_parameters(callee):
            return PRINTED, ""  # int / str in, no access to the expression: the result cannot contain a SymPy object
        if not self._struct(res) and res[0] in {RAW, UNKNOWN, "mixed", "badtext"} and res[1] and callee is not self.fn and not res[1].startswith("helper "):
            return res[0], f"helper {callee.qual}: {res[1]}"
        return res

    @staticmethod
    def _reads_self(fn: FuncInfo) -> bool:
        return fn.cls is not None and not any(unparse(d) == "staticmethod" for d in fn.node.decorator_list)

    @staticmethod
    def _plain_parameters(fn: FuncInfo) -> bool:
        a = fn.node.args
        params = [x for x in [*a.posonlyargs, *a.args, *a.kwonlyargs] if x.arg not in {"self", "cls"}]
        return bool(params) and a.vararg is None and a.kwarg is None and all(x.annotation is not None and unparse(x.annotation) in {"int", "str", "bool"} for x in params)

    def _lambda(self, func: ast.Lambda, args: list, scope, depth: int):
        a = func.args
        params = [*a.posonlyargs, *a.args]
        if len(args) > len(params) or a.vararg or a.kwarg:
            return UNKNOWN, f"`{unparse(func)[:40]}`: lambda with star parameters"
        for p_, k in zip(params, args):
            self._lambda_bind[id(p_)] = k
        self._memo = {k: v for k, v in self._memo.items() if k[0] != scope[0].qual}  # the body is re-read for these arguments
        return self.kind(func.body, scope, depth + 1)

    def _apply(self, func: ast.AST, elems: list, scope, depth: int):
        """``map(f, seq...)``: f applied to one element of each sequence."""
        fn, binding, rd = scope
        if isinstance(func, ast.Lambda):
            return self._lambda(func, elems, scope, depth)
        fk = self._flat(self.kind(func, scope, depth + 1))
        if fk[0] == "printfn":
            return PRINTED, ""
        if isinstance(func, ast.Name) and not rd.reaching(func):
            if func.id in {"str", "repr"}:
                return self._parts(elems)
            if func.id in {"int", "len", "float", "bool"}:
                return PRINTED, ""
        if isinstance(func, ast.Name):
            lambdas = [d.value for d in rd.reaching(func) if d.kind == "assign" and isinstance(d.value, ast.Lambda)]
            if lambdas and len(lambdas) == len(rd.reaching(func)):
                return self._alt([self._lambda(lam, elems, scope, depth) for lam in lambdas])
        target = self.tree.resolve(fn.module, func, fn)
        if isinstance(func, ast.Attribute) and self.receiver is not None and self._flat(self.kind(func.value, scope, depth + 1))[0] == "self":
            dyn = self.tree.lookup_method(self.receiver, func.attr)
            target = dyn.qual if dyn is not None else target
        if target in self.tree.funcs:
            callee = self.tree.funcs[target]
            a = callee.node.args
            pos = [x.arg for x in [*a.posonlyargs, *a.args]]
            out = {}
            if callee.cls is not None and callee.outer is None and pos and isinstance(func, ast.Attribute) and not any(unparse(d) == "staticmethod" for d in callee.node.decorator_list):
                out[pos[0]] = self._flat(self.kind(func.value, scope, depth + 1))
                pos = pos[1:]
            out.update(dict(zip(pos, elems)))
            return self._enter(callee, out, depth)
        return UNKNOWN, f"`{unparse(func)[:40]}` mapped over a collection: the function is not known to the rule"


def _is_stub(fn: FuncInfo) -> bool:
    """A method without behaviour of its own: docstring / pass / ... / raise only, or marked abstract."""
    if any(unparse(d).split(".")[-1] == "abstractmethod" for d in fn.node.decorator_list):
        return True
    return all(isinstance(st, (ast.Pass, ast.Raise)) or (isinstance(st, ast.Expr) and isinstance(st.value, ast.Constant)) for st in fn.node.body)


def _is_abstract(fn: FuncInfo) -> bool:
    """Marked @abstractmethod, or nothing but `raise NotImplementedError`: a subclass has to provide it."""
    if any(unparse(d).split(".")[-1] == "abstractmethod" for d in fn.node.decorator_list):
        return True
    body = [st for st in fn.node.body if not (isinstance(st, ast.Expr) and isinstance(st.value, ast.Constant))]
    return len(body) == 1 and isinstance(body[0], ast.Raise) and body[0].exc is not None and "NotImplementedError" in unparse(body[0].exc)


def _receivers(tree: Tree, fn: FuncInfo) -> list:
    """The concrete classes whose instances run this printer method (the defining class and the subclasses that
    inherit it); classes that still have an abstract method are never instantiated."""
    out = []
    for c in [fn.cls, *tree.subclasses(fn.cls)]:
        if tree.lookup_method(c, fn.name) is not fn:
            continue
        names = {name for k in tree.mro(c) for name in k.methods}
        if any(_is_abstract(tree.lookup_method(c, name)) for name in names):
            continue
        out.append(c)
    return out or [fn.cls]


def check_printers(ctx: Check, tree: Tree) -> None:
    methods = printer_methods(tree)
    ctx.stats["printer_methods"] = len(methods)
    if len(methods) < 14:
        raise AnalysisError(f"only {len(methods)} printer methods found (18 confirmed)")
    classes = expression_classes(tree)
    n_interp = 0
    undecided = []
    for fn in sorted(methods, key=lambda f: f.qual):
        if not fn.node.body or _is_stub(fn):
            continue  # abstract stub
        verdicts = []
        flow = None
        for receiver in _receivers(tree, fn):
            flow = PrintFlow(tree, fn, classes, receiver)
            verdicts.append(flow.judge())
            n_interp += flow.count
        verdict, why = PrintFlow._alt(verdicts)
        key = f"{fn.qual}::raw-interpolation"
        if verdict == RAW:
            ctx.violation("R-PRINT", key, tree.loc(fn.node),
                          f"{fn.qual} writes a value into generated code without printer._print: {why}",
                          {"reason": why, "consequence": "the str printer's output is not NumPy code: lambdify(..., cse=False) fails (NameError) or silently prints a different expression"})
        elif verdict == PRINTED:
            ctx.ok("R-PRINT", tree.loc(fn.node), f"{fn.qual}: {flow.count} interpolated/returned value(s) all pass the printer")
        else:
            undecided.append(f"{fn.qual}: {why}")
    ctx.stats["interpolations"] = n_interp
    if undecided:
        raise AnalysisError("R-PRINT cannot decide whether every value written into the generated code passed the printer: " + "; ".join(undecided)[:600])


# --------------------------------------------------------------------------- generated code, read as what it builds


class CodeEval(TermEval):
    """TermEval that can also run a printer method (``_numpycode``): the result is the TEXT of the generated code.

    ``printer._print(v)`` (also ``doprint`` / ``parenthesize`` / ``_print_X``, directly, through ``map`` or held in
    a local) yields a token that stands for "the code of value v"; everything else is ordinary string building that
    TermEval folds (f-strings, ``+``, ``%``, ``.format``, ``join``, comprehensions, helpers that receive the printer
    or the already printed pieces).  Bookkeeping on the printer (``printer.module_imports[...].add(...)``) contributes
    nothing.  The text is then PARSED (``parse_code``), so the rules read the expression the code denotes and not the
    way the string was put together."""

    PRINTER = Opaque(("printer",))

    def __init__(self, tree: Tree, inline_depth: int = 6) -> None:
        super().__init__(tree, inline_depth)
        self.tokens: list = []

    def token(self, value) -> Opaque:
        self.tokens.append(value)
        return Opaque(f"\x00{len(self.tokens) - 1}\x00")

    def _is_print_fn(self, v) -> bool:
        return (isinstance(v, Opaque) and isinstance(v.key, tuple) and len(v.key) == 3 and v.key[0] == "attr" and v.key[1] == self.PRINTER.key
                and isinstance(v.key[2], str) and (v.key[2].startswith("_print") or v.key[2] in {"doprint", "parenthesize"}))

    def _printed(self, args: list):
        if not args:
            raise ExtractionError("printer call without an argument")
        return self.token(args[0])

    def _ev_Call(self, node, env, fn, depth):
        f = node.func
        head = f
        while isinstance(head, ast.Attribute):
            head = head.value
        if isinstance(head, ast.Name) and (env.get(head.id) == self.PRINTER or (isinstance(f, ast.Name) and self._is_print_fn(env.get(f.id)))):
            try:
                fval = self.ev(f, env, fn, depth)
            except ExtractionError:
                fval = None
            if self._is_print_fn(fval):
                args, _ = self._args(node, env, fn, depth)
                return self._printed(args)
        if fn is not None and len(node.args) >= 1 and self.tree.resolve(fn.module, f, fn) in {"textwrap.dedent", "textwrap.indent", "inspect.cleandoc"}:
            return self.ev(node.args[0], env, fn, depth)  # layout only: the text is parsed as code afterwards
        return super()._ev_Call(node, env, fn, depth)

    def apply(self, fval, args, kwargs, env, fn, depth):
        if self._is_print_fn(fval):
            return self._printed(args)
        return super().apply(fval, args, kwargs, env, fn, depth)

    def eval_body(self, body, env, fn, depth=0):
        def bookkeeping(st) -> bool:
            if not (isinstance(st, ast.Expr) and isinstance(st.value, ast.Call)):
                return False
            base = st.value.func
            while isinstance(base, (ast.Attribute, ast.Subscript, ast.Call)):
                base = base.value if not isinstance(base, ast.Call) else base.func
            return isinstance(base, ast.Name) and env.get(base.id) == self.PRINTER

        return super().eval_body([st for st in body if not bookkeeping(st)], env, fn, depth)

    def run_printer(self, fn: FuncInfo, self_struct: dict) -> str:
        """The text that the printer method ``fn`` returns for the abstract instance ``self_struct``."""
        out = self.eval_body_of_printer(fn, self_struct)
        if not (isinstance(out, Opaque) and isinstance(out.key, str)):
            raise ExtractionError(f"{fn.qual}: does not return a string built from literals and printed values")
        return out.key

    def eval_body_of_printer(self, fn: FuncInfo, self_struct: dict):
        """The value the printer method returns (with ``fork``: a PW of the values of its paths)."""
        a = fn.node.args
        params = [x.arg for x in [*a.posonlyargs, *a.args]]
        if len(params) < 2:
            raise ExtractionError(f"{fn.qual}: no printer parameter")
        self_struct = dict(self_struct)
        klass = self_struct.get("__class__")
        owner = self.tree.classes.get(klass.key[1]) if isinstance(klass, Opaque) and isinstance(klass.key, tuple) and klass.key[0] == "ref" else fn.cls
        if owner is not None:
            self_struct.setdefault("__class__", Opaque(("ref", owner.qual)))
            for c in reversed(self.tree.mro(owner)):  # class-level literal attributes (templates, names, tolerances)
                for st in c.node.body:
                    target = st.targets[0] if isinstance(st, ast.Assign) and len(st.targets) == 1 else st.target if isinstance(st, ast.AnnAssign) else None
                    if isinstance(target, ast.Name) and isinstance(getattr(st, "value", None), ast.Constant) and target.id not in self_struct:
                        try:
                            self_struct[target.id] = self._ev_Constant(st.value, {}, fn, 0)
                        except ExtractionError:
                            pass
        env: dict = {params[0]: self_struct, params[1]: self.PRINTER}
        for extra in params[2:]:
            env[extra] = Opaque(("extra-printer-argument", extra))
        if a.vararg is not None:
            env[a.vararg.arg] = Tup([])
        if a.kwarg is not None:
            from ..terms import DictV

            env[a.kwarg.arg] = DictV([])
        return self.eval_body(fn.node.body, env, fn, 0)


_TOKEN = re.compile("\x00(\\d+)\x00")


def parse_code(text: str, what: str) -> ast.expr:
    """The generated code as a Python expression; token n becomes the name ``__tn__``."""
    source = _TOKEN.sub(lambda m: f" __t{m.group(1)}__ ", text).strip()
    try:
        return ast.parse(source, mode="eval").body
    except SyntaxError:
        raise ExtractionError(f"{what}: the generated code is not one Python expression: `{source[:80]}`") from None


def _token_index(node: ast.AST) -> int | None:
    if isinstance(node, ast.Name):
        m = re.fullmatch(r"__t(\d+)__", node.id)
        if m:
            return int(m.group(1))
    return None


def _callee_name(node: ast.AST) -> str | None:
    f = node.func if isinstance(node, ast.Call) else None
    if isinstance(f, ast.Name):
        return f.id
    if isinstance(f, ast.Attribute):
        return f.attr
    return None


def code_matrix(te: CodeEval, expr: ast.expr, what: str) -> Mat:
    """``array([[c, ...], ...]).transpose((2, 0, 1))``: the 4x4 matrix of the cells' values.

    A cell is an arithmetic expression over printed values (tokens), numbers and ``ones(...)`` / ``zeros(...)``."""
    inner = None
    if isinstance(expr, ast.Call) and isinstance(expr.func, ast.Attribute) and expr.func.attr == "transpose" and not expr.keywords:
        axes = expr.args[0] if len(expr.args) == 1 and isinstance(expr.args[0], (ast.Tuple, ast.List)) else ast.Tuple(elts=list(expr.args))
        if [getattr(e, "value", None) for e in axes.elts] != [2, 0, 1]:
            raise ExtractionError(f"{what}: template lost its .transpose((2, 0, 1)) (batch axis): `{unparse(expr.func.value)[:0]}transpose({unparse(axes)})`")
        inner = expr.func.value
    elif isinstance(expr, ast.Call) and _callee_name(expr) == "array":
        raise ExtractionError(f"{what}: template lost its .transpose((2, 0, 1)) (batch axis)")
    if not (isinstance(inner, ast.Call) and _callee_name(inner) == "array" and len(inner.args) == 1 and not inner.keywords and isinstance(inner.args[0], (ast.List, ast.Tuple))):
        raise ExtractionError(f"{what}: generated code is not `array([[...], ...]).transpose((2, 0, 1))`")
    rows = []
    for r in inner.args[0].elts:
        if not isinstance(r, (ast.List, ast.Tuple)):
            raise ExtractionError(f"{what}: a row of the generated array is not a list literal")
        rows.append([_cell(te, c, what) for c in r.elts])
    if len(rows) != 4 or any(len(r) != 4 for r in rows):
        raise ExtractionError(f"{what}: generated array is not 4x4")
    return Mat(rows)


def _cell(te: CodeEval, node: ast.AST, what: str) -> RF:
    k = _token_index(node)
    if k is not None:
        val = te.tokens[k]
        if isinstance(val, RF):
            a = te.single_atom(val)
            if a is not None and te.is_app(a, "::_OnesArray"):
                return RF.const(1)
            if a is not None and te.is_app(a, "::_ZerosArray"):
                return RF.const(0)
        return te._rf(val)
    if isinstance(node, ast.Constant) and isinstance(node.value, (int, float)) and not isinstance(node.value, bool):
        from fractions import Fraction

        return RF.const(Fraction(str(node.value)))
    if isinstance(node, ast.UnaryOp) and isinstance(node.op, (ast.USub, ast.UAdd)):
        v = _cell(te, node.operand, what)
        return -v if isinstance(node.op, ast.USub) else v
    if isinstance(node, ast.BinOp) and isinstance(node.op, (ast.Add, ast.Sub, ast.Mult, ast.Div, ast.Pow)):
        lhs, rhs = _cell(te, node.left, what), _cell(te, node.right, what)
        return {ast.Add: lambda: lhs + rhs, ast.Sub: lambda: lhs - rhs, ast.Mult: lambda: lhs * rhs, ast.Div: lambda: lhs / rhs, ast.Pow: lambda: lhs**rhs}[type(node.op)]()
    if isinstance(node, ast.Call) and _callee_name(node) in {"ones", "zeros", "ones_like", "zeros_like"} and len(node.args) == 1:
        return RF.const(1 if _callee_name(node).startswith("ones") else 0)  # one entry per event: the constant 1 / 0
    raise ExtractionError(f"{what}: cell `{_TOKEN.sub('{..}', unparse(node))[:50]}` of the generated array is outside the rule's grammar")


def numpy_matrix(te: CodeEval, tree: Tree, outer: str, impl: str, arg_atoms: list) -> Mat:
    """The matrix that the generated code lays out, in terms of the outer class's arguments."""
    outer_q = f"{LOR}::{outer}"
    atom = te.single_atom(te.construct(outer_q, arg_atoms, {}))
    built = te.unfold_atom(atom)  # evaluate(): the implementation App
    ia = te.single_atom(built) if isinstance(built, RF) else None
    if ia is None or not te.is_app(ia) or te.apps[ia].cls not in te.classes:
        raise ExtractionError(f"{outer}.evaluate does not return an instance of an implementation class")
    info = te.apps[ia]
    cls = te.classes[info.cls]
    fn = tree.lookup_method(cls.info, "_numpycode")
    if fn is None:
        raise ExtractionError(f"{cls.name} (what {outer}.evaluate returns) has no _numpycode")
    text = te.run_printer(fn, te.self_env(info.cls, info)["self"])
    return code_matrix(te, parse_code(text, fn.qual), fn.qual)


def normalise_sqrt_flavour(te: TermEval, m: Mat) -> Mat:
    """ComplexSqrt(x) == sqrt(x) for the physical range (documented tolerance: beta <= 1)."""
    def fix(v: RF) -> RF:
        for a in list(v.atoms()):
            if te.is_app(a) and te.apps[a].cls == "ComplexSqrt":
                v = v.substitute(a, sqrt(te._rf(te.apps[a].args[0])))
        return v

    return Mat([[fix(e) for e in r] for r in m.rows])


def _explicit_matrix(te: TermEval, cls, args: list) -> Mat:
    """``as_explicit()`` of the expression class on symbolic arguments - however the matrix is put together
    (literal, ``sp.eye`` / ``sp.diag`` + item assignment, entries taken from ``self.evaluate()``, helpers)."""
    atom = te.single_atom(te.construct(cls.qual, args, {}))
    m = te.unfold_atom(atom, "as_explicit")
    if not isinstance(m, Mat):
        raise ExtractionError(f"{cls.name}.as_explicit does not evaluate to an explicit matrix (got {type(m).__name__})")
    if m.shape != (4, 4):
        raise ExtractionError(f"{cls.name}.as_explicit is a {m.shape[0]}x{m.shape[1]} matrix, not 4x4")
    return m


def _elementary_functions(te: TermEval, m: Mat) -> set:
    """The applications of elementary functions (cos, sin, tan, exp, log, Abs ...) that occur in a matrix."""
    from ..terms import OPAQUE_FUNCS, deep_atoms

    return {repr(a) for a in deep_atoms(te, m) if te.is_app(a) and a in te.apps and te.apps[a].cls in OPAQUE_FUNCS}


def check_siblings(ctx: Check, tree: Tree) -> dict[str, Mat]:
    explicit: dict[str, Mat] = {}
    D.reset()
    te = CodeEval(tree)
    for outer, impl in MATRIX_CLASSES.items():
        cls = te.classes.get(f"{LOR}::{outer}")
        if cls is None:
            raise AnalysisError(f"vanished anchor: {outer}")
        args = [sym(f.name) for f in cls.sympy_fields]
        a = normalise_sqrt_flavour(te, _explicit_matrix(te, cls, args))
        b = normalise_sqrt_flavour(te, numpy_matrix(te, tree, outer, impl, args))
        diffs = []
        for i in range(4):
            for j in range(4):
                if not equal(a.rows[i][j], b.rows[i][j]):
                    diffs.append({"entry": [i, j], "as_explicit": repr(a.rows[i][j])[:120], "numpycode": repr(b.rows[i][j])[:120]})
        if diffs:
            # a difference is positive evidence only inside the term domain: polynomial identities over the SAME
            # elementary functions.  cos(a)*tan(a) vs sin(a) is an identity the domain does not know: cannot decide
            fa, fb = _elementary_functions(te, a), _elementary_functions(te, b)
            if fa != fb:
                raise ExtractionError(f"{outer}: as_explicit() and the generated code are written with different elementary functions "
                                      f"({sorted(fa ^ fb)[0][:60]}): whether they agree is outside the polynomial term domain")
        ctx.verdict(not diffs, "R-TERM", f"{LOR}::{outer}::explicit-vs-numpycode", tree.loc(cls.info.node),
                    f"{outer}: the 16 entries of as_explicit() agree with the matrix laid out by {impl}._numpycode for the arguments that evaluate() passes",
                    diffs[:4] or None)
        explicit[outer] = a
        explicit[outer + "#te"] = te  # type: ignore[assignment]
    return explicit


# --------------------------------------------------------------------------- metric / NegativeMomentum

_METRIC = [[1, 0, 0, 0], [0, -1, 0, 0], [0, 0, -1, 0], [0, 0, 0, -1]]


def _is_metric(m: Mat) -> bool:
    return all(equal(m.rows[i][j], RF.const(_METRIC[i][j])) for i in range(4) for j in range(4))


def check_metric(ctx: Check, tree: Tree) -> None:
    te = CodeEval(tree)
    p = sym("p")
    cls = te.classes.get(f"{LOR}::MinkowskiMetric")
    if cls is None:
        raise AnalysisError("vanished anchor: MinkowskiMetric")
    m = _explicit_matrix(te, cls, [p])
    ok = _is_metric(m)
    ctx.verdict(ok, "R-TERM", f"{LOR}::MinkowskiMetric.as_explicit::diag", tree.loc(cls.info.node), "MinkowskiMetric.as_explicit == diag(1,-1,-1,-1)",
                None if ok else {"as_explicit": [[repr(e)[:20] for e in r] for r in m.rows]})
    npc = tree.lookup_method(cls.info, "_numpycode")
    if npc is None:
        raise AnalysisError("vanished anchor: MinkowskiMetric._numpycode")
    atom = te.single_atom(te.construct(cls.qual, [p], {}))
    text = te.run_printer(npc, te.self_env(cls.qual, te.apps[atom])["self"])
    got = code_matrix(te, parse_code(text, npc.qual), npc.qual)  # ones(..) / zeros(..) per event are the constants 1 / 0
    ok = _is_metric(got)
    ctx.verdict(ok, "R-TERM", f"{LOR}::MinkowskiMetric._numpycode::diag", tree.loc(npc.node),
                "MinkowskiMetric._numpycode template == diag(ones,-ones,-ones,-ones)", None if ok else {"template": [[repr(e)[:20] for e in r] for r in got.rows]})
    neg = te.classes.get(f"{LOR}::NegativeMomentum")
    if neg is None:
        raise AnalysisError("vanished anchor: NegativeMomentum")
    v = te.unfold_atom(te.single_atom(te.construct(neg.qual, [p], {})))
    a = te.single_atom(v) if isinstance(v, RF) else None
    # understood shapes: the bare momentum (definitely not inverted) and ONE ArrayMultiplication(<matrix expression>, <vector>)
    if a is not None and not te.is_app(a) and equal(v, p):
        ok = False
        detail = "evaluate() returns the momentum itself"
    elif a is not None and te.is_app(a, "ArrayMultiplication") and len(te.apps[a].args) == 2:
        first, second = te.apps[a].args
        fa = te.single_atom(first) if isinstance(first, RF) else None
        first_is_metric = False
        if fa is not None and te.is_app(fa) and te.apps[fa].cls in te.classes and te.classes[te.apps[fa].cls].method("as_explicit") is not None:
            fm = te.unfold_atom(fa, "as_explicit")
            first_is_metric = isinstance(fm, Mat) and fm.shape == (4, 4) and _is_metric(fm) and len(te.apps[fa].args) == 1 and equal(te._rf(te.apps[fa].args[0]), p)
        elif not (isinstance(first, RF) and equal(first, p)):
            raise ExtractionError("NegativeMomentum.evaluate: the first factor of the ArrayMultiplication is neither the momentum nor an expression class with as_explicit()")
        ok = first_is_metric and isinstance(second, RF) and equal(second, p)
        detail = None if ok else "the product is not (metric of p) x p in this order"
    else:
        raise ExtractionError("NegativeMomentum.evaluate does not return ArrayMultiplication(<metric>, <momentum>) (shape outside the rule's grammar)")
    ctx.verdict(ok, "R-TERM", f"{LOR}::NegativeMomentum.evaluate", tree.loc(neg.info.node), "NegativeMomentum(p) == ArrayMultiplication(MinkowskiMetric(p), p)", detail)


# --------------------------------------------------------------------------- R-LORENTZ

ETA = [1, -1, -1, -1]


def lorentz_defect(m: Mat) -> list[list[RF]]:
    """M^T eta M - eta."""
    out = []
    for i in range(4):
        row = []
        for j in range(4):
            acc = RF.const(0)
            for k in range(4):
                acc = acc + ETA[k] * m.rows[k][i] * m.rows[k][j]
            if i == j:
                acc = acc - ETA[i]
            row.append(acc)
        out.append(row)
    return out


def _require_expressed_through(m: Mat, base: set, what: str) -> None:
    """The identities below are decided in the algebra generated by ``base`` (and square roots over it); an entry
    with any other sub-term (another function of the angle, an unexpanded helper class) cannot be judged: neither
    a pass nor a violation."""

    def foreign(v: RF) -> set:
        out = set()
        for a in v.atoms():
            if a in base:
                continue
            if isinstance(a, tuple) and a and a[0] == "sqrt":
                out |= foreign(RF(D.radicands[a]))
            else:
                out.add(a)
        return out

    extra = set()
    for r in m.rows:
        for e in r:
            extra |= foreign(e)
    if extra:
        raise ExtractionError(f"{what}: entries contain sub-terms the rule has no relation for ({sorted(map(repr, extra))[0][:60]}): cannot decide the Lorentz identities")


def check_lorentz(ctx: Check, tree: Tree, mats: dict) -> None:
    # rotations: modulo cos^2 + sin^2 = 1
    for name in ("RotationYMatrix", "RotationZMatrix"):
        te: TermEval = mats[name + "#te"]
        m: Mat = mats[name]
        cos = te.app("cos", [sym("angle")])
        sin = te.app("sin", [sym("angle")])
        sin_atom, cos_atom = te.single_atom(sin), te.single_atom(cos)
        _require_expressed_through(m, {sin_atom, cos_atom}, f"{name}.as_explicit")
        D.set_relations([(sin_atom, 2, (RF.const(1) - cos * cos).n)])
        defect = lorentz_defect(m)
        bad = [(i, j, repr(defect[i][j])[:80]) for i in range(4) for j in range(4) if not defect[i][j].is_zero()]
        det_ok = True
        ctx.verdict(not bad, "R-LORENTZ", f"{LOR}::{name}.as_explicit::orthogonal", tree.loc(te.classes[f"{LOR}::{name}"].info.node),
                    f"{name}: R^T eta R == eta (16 entries, modulo cos^2+sin^2=1); time row/column untouched", bad[:3] or None)
        D.set_relations([])
    # sign conventions are roles
    te = mats["RotationYMatrix#te"]
    m = mats["RotationYMatrix"]
    sin = te.app("sin", [sym("angle")])
    ctx.verdict(equal(m.rows[1][3], sin) and equal(m.rows[3][1], -sin), "R-LORENTZ", f"{LOR}::RotationYMatrix.as_explicit::handedness",
                tree.loc(te.classes[f"{LOR}::RotationYMatrix"].info.node), "RotationYMatrix: +sin at [x][z], -sin at [z][x] (active rotation about y)")
    te = mats["RotationZMatrix#te"]
    m = mats["RotationZMatrix"]
    sin = te.app("sin", [sym("angle")])
    ctx.verdict(equal(m.rows[1][2], -sin) and equal(m.rows[2][1], sin), "R-LORENTZ", f"{LOR}::RotationZMatrix.as_explicit::handedness",
                tree.loc(te.classes[f"{LOR}::RotationZMatrix"].info.node), "RotationZMatrix: -sin at [x][y], +sin at [y][x] (active rotation about z)")
    # z boost: modulo gamma^2 (1 - beta^2) = 1  <=>  sqrt(1-beta^2)^2 = 1-beta^2 (automatic: gamma = 1/sqrt(1-beta^2))
    te = mats["BoostZMatrix#te"]
    m = mats["BoostZMatrix"]
    _require_expressed_through(m, {"beta"}, "BoostZMatrix.as_explicit")
    defect = lorentz_defect(m)
    bad = [(i, j, repr(defect[i][j])[:80]) for i in range(4) for j in range(4) if not defect[i][j].is_zero()]
    ctx.verdict(not bad, "R-LORENTZ", f"{LOR}::BoostZMatrix.as_explicit::lorentz", tree.loc(te.classes[f"{LOR}::BoostZMatrix"].info.node),
                "BoostZMatrix: B^T eta B == eta with gamma = 1/sqrt(1-beta^2)", bad[:3] or None)
    beta = sym("beta")
    g = RF.const(1) / sqrt(RF.const(1) - beta**2)
    ctx.verdict(equal(m.rows[0][0], g) and equal(m.rows[0][3], -g * beta) and equal(m.rows[3][0], -g * beta), "R-LORENTZ",
                f"{LOR}::BoostZMatrix.as_explicit::direction", tree.loc(te.classes[f"{LOR}::BoostZMatrix"].info.node),
                "BoostZMatrix: L00 = gamma >= 1, L03 = L30 = -gamma*beta (boost INTO the rest frame of a particle moving along +z)")


def check_general_boost(ctx: Check, tree: Tree, mats: dict) -> None:
    """Thorough: the general boost after unfolding beta_i = p_i/E, beta^2 = |p|^2/E^2."""
    te: TermEval = mats["BoostMatrix#te"]
    m: Mat = mats["BoostMatrix"]
    E, px, py, pz = sym("E"), sym("px"), sym("py"), sym("pz")
    momentum = sym("momentum")  # the field of BoostMatrix that check_siblings built the explicit matrix for
    if [f.name for f in te.classes[f"{LOR}::BoostMatrix"].sympy_fields] != ["momentum"]:
        raise ExtractionError("BoostMatrix no longer has the single field `momentum`")

    def concretise(v: RF) -> RF:
        for _ in range(6):
            changed = False
            for a in list(v.atoms()):
                if te.is_app(a):
                    info = te.apps[a]
                    name = info.cls.split("::")[-1]
                    rep = None
                    arg0 = info.args[0] if info.args and isinstance(info.args[0], RF) else None
                    of_momentum = arg0 is not None and equal(arg0, momentum)  # components of THE boosted momentum only
                    inner = te.single_atom(arg0) if arg0 is not None else None
                    of_three_momentum = (inner is not None and te.is_app(inner, "::ThreeMomentum") and len(te.apps[inner].args) == 1
                                         and isinstance(te.apps[inner].args[0], RF) and equal(te.apps[inner].args[0], momentum))
                    if name == "Energy" and of_momentum:
                        rep = E
                    elif name == "FourMomentumX" and of_momentum:
                        rep = px
                    elif name == "FourMomentumY" and of_momentum:
                        rep = py
                    elif name == "FourMomentumZ" and of_momentum:
                        rep = pz
                    elif name == "EuclideanNormSquared" and of_three_momentum:
                        rep = px**2 + py**2 + pz**2
                    elif name == "EuclideanNorm" and of_three_momentum:
                        rep = sqrt(px**2 + py**2 + pz**2)
                    if rep is not None:
                        v = v.substitute(a, rep)
                        changed = True
                elif isinstance(a, tuple) and a and a[0] == "sqrt":
                    rad = RF(D.radicands[a])
                    new = concretise(rad)
                    if not equal(new, rad) or any(te.is_app(x) for x in rad.atoms()):
                        v = v.substitute(a, sqrt(new))
                        changed = True
            if not changed:
                break
        return v

    mc = Mat([[concretise(e) for e in r] for r in m.rows])
    leftover = {a for r in mc.rows for e in r for a in e.atoms() if te.is_app(a)}
    if leftover:
        raise ExtractionError(f"BoostMatrix.as_explicit: could not express {len(leftover)} sub-terms through (E, px, py, pz)")
    _require_expressed_through(mc, {"E", "px", "py", "pz"}, "BoostMatrix.as_explicit")
    defect = lorentz_defect(mc)
    bad = [(i, j, repr(defect[i][j])[:100]) for i in range(4) for j in range(4) if not defect[i][j].is_zero()]
    ctx.verdict(not bad, "R-LORENTZ", f"{LOR}::BoostMatrix.as_explicit::lorentz", tree.loc(te.classes[f"{LOR}::BoostMatrix"].info.node),
                "BoostMatrix: B^T eta B == eta for beta_i = p_i/E, gamma = 1/sqrt(1-|p|^2/E^2) (16 rational-function identities over sqrt atoms)", bad[:3] or None)
    # B(p) p = (m, 0, 0, 0): spatial components vanish, time component = sqrt(E^2-|p|^2)
    vec = [E, px, py, pz]
    res = [sum((mc.rows[i][k] * vec[k] for k in range(4)), RF.const(0)) for i in range(4)]
    ok_rest = all(res[i].is_zero() for i in (1, 2, 3))
    ctx.verdict(ok_rest, "R-LORENTZ", f"{LOR}::BoostMatrix.as_explicit::rest-frame", tree.loc(te.classes[f"{LOR}::BoostMatrix"].info.node),
                "BoostMatrix: B(p)·p has vanishing spatial components (boost into the rest frame)", None if ok_rest else [repr(r)[:100] for r in res])
    m2 = E**2 - px**2 - py**2 - pz**2
    ok_mass = equal(res[0] * res[0], m2)
    ctx.verdict(ok_mass, "R-LORENTZ", f"{LOR}::BoostMatrix.as_explicit::mass", tree.loc(te.classes[f"{LOR}::BoostMatrix"].info.node),
                "BoostMatrix: (B(p)·p)_0^2 == E^2 - |p|^2")
    sym_ok = all(equal(mc.rows[i][j], mc.rows[j][i]) for i in range(4) for j in range(4))
    ctx.verdict(sym_ok, "R-LORENTZ", f"{LOR}::BoostMatrix.as_explicit::symmetric", tree.loc(te.classes[f"{LOR}::BoostMatrix"].info.node),
                "BoostMatrix is symmetric (pure boost, no rotation part)")


# --------------------------------------------------------------------------- R-EINSUM


class _Network:
    """What a (possibly nested) ``einsum`` expression over printed tensors computes: which index slot of which
    tensor is identified with which (union-find over slots ``(tensor, position)``), and the slots of the result."""

    def __init__(self) -> None:
        self.parent: dict = {}
        self.factors: list[tuple[int, int]] = []  # (tensor, rank it is used with)

    def find(self, x):
        self.parent.setdefault(x, x)
        while self.parent[x] != x:
            self.parent[x] = self.parent[self.parent[x]]
            x = self.parent[x]
        return x

    def union(self, a, b) -> None:
        ra, rb = self.find(a), self.find(b)
        if ra != rb:
            self.parent[max(ra, rb)] = min(ra, rb)

    def partition(self) -> set:
        groups: dict = {}
        for x in list(self.parent):
            groups.setdefault(self.find(x), set()).add(x)
        return {frozenset(g) for g in groups.values()}


class _Malformed(Exception):
    """The einsum call is understood and definitely wrong (operand count, ranks, batch axis)."""


def _einsum_network(node: ast.AST, net: _Network, what: str, want_rank: int | None = None) -> list | None:
    """Slots of the value of ``node`` (None for a bare tensor whose rank nothing fixes)."""
    k = _token_index(node)
    if k is not None:
        if any(t == k for t, _ in net.factors):
            raise _Malformed(f"tensor {k} is used twice")
        if want_rank is None:
            net.factors.append((k, -1))
            return None
        net.factors.append((k, want_rank))
        return [(k, i) for i in range(want_rank)]
    if isinstance(node, ast.Call) and _callee_name(node) == "einsum" and node.args and isinstance(node.args[0], ast.Constant) and isinstance(node.args[0].value, str):
        if any(kw.arg not in {"optimize"} for kw in node.keywords):
            raise ExtractionError(f"{what}: einsum keyword `{[kw.arg for kw in node.keywords]}` is outside the rule's grammar")
        spec = node.args[0].value.replace(" ", "")
        if spec.count("->") != 1:
            raise ExtractionError(f"{what}: einsum subscripts `{spec}` without explicit output")
        ins, out = spec.split("->")
        subs = ins.split(",") if ins else []
        operands = node.args[1:]
        if len(subs) != len(operands):
            raise _Malformed(f"einsum subscripts `{spec}` describe {len(subs)} operand(s) but {len(operands)} are passed")
        if any(not x.startswith("...") for x in [*subs, out]):
            raise _Malformed(f"einsum subscripts `{spec}`: an operand or the output lacks the leading `...` (the batch axis of the events)")
        letters: dict[str, list] = {}
        for sub, operand in zip(subs, operands):
            idx = sub[3:]
            if not idx.isalpha() and idx:
                raise ExtractionError(f"{what}: einsum subscripts `{spec}` outside the rule's grammar")
            slots = _einsum_network(operand, net, what, len(idx))
            if slots is None or len(slots) != len(idx):
                raise _Malformed(f"einsum subscripts `{sub}` for an operand of rank {0 if slots is None else len(slots)}")
            for ch, slot in zip(idx, slots):
                letters.setdefault(ch, []).append(slot)
        for slots in letters.values():
            for other in slots[1:]:
                net.union(slots[0], other)
            net.find(slots[0])
        result = []
        for ch in out[3:]:
            if ch not in letters:
                raise _Malformed(f"einsum subscripts `{spec}`: output index {ch} does not occur in an operand")
            result.append(letters[ch][0])
        if len(set(out[3:])) != len(out[3:]):
            raise _Malformed(f"einsum subscripts `{spec}`: repeated output index")
        return result
    raise ExtractionError(f"{what}: `{_TOKEN.sub('{..}', unparse(node))[:60]}` is neither a printed tensor nor an einsum call (shape outside the rule's grammar)")


def _chain_problem(te: CodeEval, text: str, n: int, vector_last: bool, what: str) -> str | None:
    """None if the generated code computes T0 . T1 ... T(n-1) (matrix chain; the last factor a vector if
    ``vector_last``) over the n printed tensors in argument order; otherwise what is definitely wrong."""
    if not text.strip():
        return "no code is generated"
    expr = parse_code(text, what)
    net = _Network()
    try:
        out = _einsum_network(expr, net, what)
    except _Malformed as exc:
        return str(exc)
    used = sorted(t for t, _ in net.factors)
    if used != list(range(n)):
        missing = sorted(set(range(n)) - set(used))
        return f"printed tensors {used} reach the einsum, argument(s) {missing} do not"
    if out is None:
        return None if n == 1 else "a single tensor is returned"
    ranks = {t: r for t, r in net.factors}
    want_ranks = {k: (1 if vector_last and k == n - 1 else 2) for k in range(n)}
    if ranks != want_ranks:
        return f"tensors are used with ranks {ranks}, a matrix chain needs {want_ranks}"
    want = _Network()
    for k in range(n):
        for i in range(want_ranks[k]):
            want.find((k, i))
    for k in range(n - 1):
        want.union((k, 1), (k + 1, 0))
    want_out = [(0, 0)] if vector_last else [(0, 0), (n - 1, 1)]
    if n == 1 and vector_last:
        want_out = [(0, 0)]
    got_out = [net.find(x) for x in out]
    if net.partition() != want.partition() or got_out != [want.find(x) for x in want_out]:
        return "the contraction does not join each tensor's last index with the first index of the NEXT argument (order of a non-commutative product)"
    return None


def check_einsum_printers(ctx: Check, tree: Tree) -> None:
    """ArrayMultiplication / MatrixMultiplication._numpycode: for n = 1..4 operands the generated code is read as the
    tensor network it denotes (bare tensor, one einsum, nested einsums): it must be the chain T0.T1...T(n-1) over
    ALL printed arguments IN ORDER - however the contraction string and the operand list are put together.  A printer
    whose text is not tensors / einsum calls is outside the rule's grammar: ANALYSIS-ERROR."""
    for cls_name, vector_last in (("ArrayMultiplication", True), ("MatrixMultiplication", False)):
        cls = tree.cls(f"ampform.sympy._array_expressions::{cls_name}")
        fn = tree.lookup_method(cls, "_numpycode")
        if fn is None:
            raise AnalysisError(f"vanished anchor: {cls_name}._numpycode")
        problems = []
        for n in (1, 2, 3, 4):
            te = CodeEval(tree)
            tensors = [sym(f"T{k}") for k in range(n)]
            text = te.run_printer(fn, {"args": Tup(list(tensors)), "__class__": Opaque(("ref", cls.qual))})
            printed = [te.single_atom(v) if isinstance(v, RF) else None for v in te.tokens]
            names = [f"T{k}" for k in range(n)]
            order = [names.index(a) if isinstance(a, str) and a in names else None for a in printed]
            if None in order:
                raise ExtractionError(f"{cls_name}._numpycode: prints something that is not one of its arguments")
            # token k stands for argument order[k]: rename tokens to argument positions
            renamed = _TOKEN.sub(lambda m: f"\x00{order[int(m.group(1))]}\x00", text)
            problem = _chain_problem(te, renamed, n, vector_last, f"{cls_name}._numpycode")
            if problem:
                problems.append(f"{n} operand(s): {problem}")
        ctx.verdict(not problems, "R-EINSUM", f"{cls.qual}._numpycode::single-ordered-einsum", tree.loc(fn.node),
                    f"{cls_name}._numpycode == einsum(<contraction for n tensors>, <all n printed arguments in order>)", problems or None)


def check_operand_multiset(ctx: Check, tree: Tree) -> None:
    """R-OPERANDS: the operands of a contraction are a sequence - the same expression may occur twice (a rotation
    applied twice).  Along ``_numpycode`` of the two multiplication classes and the package functions that receive
    ``self.args`` from them, the operands are never collapsed to the distinct ones (set, dict keyed by the operand)
    and then read back as a collection.  A memo that is only looked up / membership-tested is fine."""
    from .c18 import M_POOL, multiset_scan

    work = []
    for cls_name in ("ArrayMultiplication", "MatrixMultiplication"):
        cls = tree.cls(f"ampform.sympy._array_expressions::{cls_name}")
        fn = tree.lookup_method(cls, "_numpycode")
        if fn is None:
            raise AnalysisError(f"vanished anchor: {cls_name}._numpycode")
        work.append((fn, {}))
    results, seen, _ = multiset_scan(tree, work, {"self.args": M_POOL, "self._args": M_POOL}, None)
    if len(work) < 2 or not seen:  # both printers resolved (they may be one shared method)
        raise AnalysisError("R-OPERANDS: fewer than the two confirmed printer methods were read")
    for fn, findings, counting in results:
        if findings and counting:
            raise AnalysisError(f"{fn.qual}: operands are collapsed to the distinct ones and counted - cannot decide whether repeated operands are restored")
        ctx.verdict(not findings, "R-OPERANDS", f"{fn.qual}::operand-multiset", tree.loc(findings[0][0] if findings else fn.node),
                    f"{fn.qual}: the operands of the contraction are never collapsed to the distinct ones", [t for _, t in findings] or None)


def run(ctx: Check, tree: Tree) -> None:
    ctx.decided += [
        "R-PREC: templates of the kinematics / array printers never put an unparenthesised printed sub-expression next to a tighter-binding operator",
        "R-EINSUM: the code Array/MatrixMultiplication generate for 1..4 operands, read as a tensor network (bare tensor, one einsum or nested einsums, contraction strings evaluated), is the ordered chain T0.T1...T(n-1) over all printed arguments with the batch axis `...` on every operand",
        "R-OPERANDS: along the einsum printers and the package functions that receive their operands, the operand sequence is never collapsed to the distinct operands (set / dict key read back as a collection)",
        "R-PRINT: every value written into generated code by the printer methods passes printer._print (or is a literal / class-level literal); helpers (methods, module functions, nested functions, lambdas, generators) are followed with their parameters bound to the kinds of the arguments",
        "R-TERM: as_explicit() (literal, sp.eye/sp.diag + item assignment, entries taken from evaluate()) == matrix laid out by the generated numpy code (printer method run on an abstract printer, text parsed) for the arguments evaluate() passes (BoostZ, RotationY, RotationZ, Boost: 4x16 entries); metric; NegativeMomentum = eta·p",
        "R-LORENTZ: R^T eta R = eta for both rotations (mod cos^2+sin^2=1), B_z^T eta B_z = eta, handedness / direction roles; the general boost after unfolding beta_i = p_i/E, B(p)p = (m,0,0,0), symmetry",
    ]
    ctx.not_decided += ["products of more than 4 operands (the einsum subscripts are checked for 1..4)", "batch sizes", "floating-point accuracy over orders of magnitude of beta*gamma"]
    ctx.assumptions += [
        "ComplexSqrt(x) == sqrt(x) for x >= 0 (beta <= 1); formal radical algebra at a generic positive point",
        "the str printer is not NumPy code (SymPy): a raw SymPy object inside an f-string prints as e.g. `ArrayAxisSum(...)`",
    ]
    ctx.section(check_printers, ctx, tree)
    mats = ctx.section(check_siblings, ctx, tree)
    ctx.section(check_metric, ctx, tree)
    if mats is not None:  # otherwise check_siblings already recorded why the matrices could not be extracted
        ctx.section(check_lorentz, ctx, tree, mats)
        ctx.section(check_general_boost, ctx, tree, mats)
    ctx.section(check_einsum_printers, ctx, tree)
    ctx.section(check_operand_multiset, ctx, tree)
    from .c14 import check_precedence

    ctx.section(check_precedence, ctx, tree, prefixes=("ampform.kinematics", "ampform.sympy._array_expressions"))
