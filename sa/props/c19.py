"""C19 - Dalitz-plot-decomposition angles satisfy their geometry and identities.

The angle functions are case tables over small integer indices whose rows build symbols
with f-strings.  Each row is extracted by constant propagation of the index values
(instantiation over the finite index domain; nothing is executed) and compared, as a
rational function over lambda^(1/2) atoms and modulo sigma1+sigma2+sigma3 = sum m^2, with
a specification derived in this file from Lorentz-invariant products only.
"""

from __future__ import annotations

import ast
import itertools
from fractions import Fraction

from ..loader import AnalysisError, Tree, unparse, walk_function
from ..poly import RF, D, Poly, equal, sqrt, sym
from ..report import Check
from ..terms import DictV, ExtractionError, NoReturn, Opaque, RaisedError, TermEval, Tup, vkey

PID = "C19"
ANG = "ampform.kinematics.angles"
HALF = Fraction(1, 2)


# ---------------------------------------------------------------------------- kinematics spec

m = {i: sym(f"m_{i}") for i in range(4)}
SIG = {1: sym("m_23") ** 2, 2: sym("m_13") ** 2, 3: sym("m_12") ** 2}
TOTAL = m[0] ** 2 + m[1] ** 2 + m[2] ** 2 + m[3] ** 2


def set_mandelstam_relation() -> None:
    D.set_relations([("m_12", 2, (TOTAL - SIG[1] - SIG[2]).n)])


def lam(x, y, z):
    return x**2 + y**2 + z**2 - 2 * (x * y + y * z + z * x)


def dot(a: tuple, b: tuple) -> RF:
    """Minkowski product of sums of final-state momenta, through sigma_k and the masses."""
    r = RF.const(0)
    for i in a:
        for j in b:
            if i == j:
                r = r + m[i] ** 2
            else:
                k = ({1, 2, 3} - {i, j}).pop()
                r = r + (SIG[k] - m[i] ** 2 - m[j] ** 2) * HALF
    return r


def direction(i: int, chain: int) -> tuple:
    """Reference direction of chain c seen from particle i: the parent if i is the spectator
    of that chain, else the isobar that contains i."""
    return (1, 2, 3) if chain == i else tuple(sorted({1, 2, 3} - {chain}))


def cos_zeta_spec(i: int, j: int, k: int) -> RF:
    a, b, pi = direction(i, j), direction(i, k), (i,)
    ea, eb = dot(a, pi) / m[i], dot(b, pi) / m[i]
    pa = sqrt(ea**2 - dot(a, a))
    pb = sqrt(eb**2 - dot(b, b))
    return (ea * eb - dot(a, b)) / (pa * pb)


def cos_theta_hat_spec(i: int, j: int) -> RF:
    """Angle between particles i and j in the parent rest frame."""
    k = ({1, 2, 3} - {i, j}).pop()
    ei = (m[0] ** 2 + m[i] ** 2 - SIG[i]) / (2 * m[0])
    ej = (m[0] ** 2 + m[j] ** 2 - SIG[j]) / (2 * m[0])
    pi = sqrt(lam(m[0] ** 2, m[i] ** 2, SIG[i])) / (2 * m[0])
    pj = sqrt(lam(m[0] ** 2, m[j] ** 2, SIG[j])) / (2 * m[0])
    return (ei * ej - (SIG[k] - m[i] ** 2 - m[j] ** 2) * HALF) / (pi * pj)


def cos_theta_spec(i: int, j: int) -> RF:
    """Helicity angle of particle i in the (ij) rest frame, against the direction opposite
    to the spectator k."""
    k = ({1, 2, 3} - {i, j}).pop()
    sk = SIG[k]
    root = sqrt(sk)
    ei = (sk + m[i] ** 2 - m[j] ** 2) / (2 * root)
    ek = (m[0] ** 2 - sk - m[k] ** 2) / (2 * root)
    pi = sqrt(lam(sk, m[i] ** 2, m[j] ** 2)) / (2 * root)
    pk = sqrt(lam(m[0] ** 2, m[k] ** 2, sk)) / (2 * root)
    return -(ei * ek - (SIG[j] - m[i] ** 2 - m[k] ** 2) * HALF) / (pi * pk)


# ---------------------------------------------------------------------------- extraction


class WrongBranch(ExtractionError):
    """The angle is computed with a function that is not the inverse cosine on [0, pi]."""


class Angles:
    def __init__(self, tree: Tree) -> None:
        self.tree = tree
        self.te = TermEval(tree, inline_depth=6)
        self.zeta = tree.func(f"{ANG}::formulate_zeta_angle")
        self.theta_hat = tree.func(f"{ANG}::formulate_theta_hat_angle")
        self.theta = tree.func(f"{ANG}::formulate_scattering_angle")

    def accepts(self, fn, *idx) -> bool:
        """The function returns an expression for these constant indices (False: it raises).  `Returns` is only
        concluded if every guard clause on the way was decided: a guard whose test the evaluator cannot decide for
        constants is a shape it does not read, not a guard that lets the indices pass."""
        self.te.skipped_guards.clear()
        try:
            self.call(fn, *idx)
        except RaisedError:
            return False
        if self.te.skipped_guards:
            raise AnalysisError(f"{fn.qual}{idx}: the guard {self.te.skipped_guards[0]} is not decidable for constant indices: whether the function rejects them cannot be judged")
        return True

    def call(self, fn, *idx):
        val = self.te.eval_function(fn, [RF.const(i) for i in idx])
        if self.te.record_of(val) is not None:  # a NamedTuple (symbol, expression)
            val = Tup(self.te._sequence(val, f"{fn.qual}{idx}"))
        if not (isinstance(val, Tup) and len(val.items) == 2):
            raise ExtractionError(f"{fn.qual}{idx}: does not return (symbol, expression)")
        return val.items[0], self.te._rf(val.items[1])

    def cos_of(self, expr: RF):
        """(sign, cos) for expr = +-acos(cos); (0, None) for expr = 0."""
        te = self.te
        if expr.is_zero():
            return 0, None
        for sign in (1, -1):
            a = te.single_atom(expr * sign)
            if a is not None and te.is_app(a) and te.apps[a].cls == "acos":
                return sign, te._rf(te.apps[a].args[0])
            if a is not None and te.is_app(a) and te.apps[a].cls == "atan2" and len(te.apps[a].args) == 2:
                # atan2(sqrt(1 - c^2), c) == acos(c) on [-1, 1]
                y, x = (te._rf(v) for v in te.apps[a].args)
                if equal(y * y, RF.const(1) - x * x):
                    return sign, x
            if a is not None and te.is_app(a) and te.apps[a].cls == "atan" and len(te.apps[a].args) == 1:
                # atan(sqrt(1 - c^2)/c) agrees with acos(c) only for c > 0; for an obtuse angle it is off by pi
                raise WrongBranch(f"angle computed with the single-argument atan: `{expr!r:.100}` loses the quadrant (acos(c) - pi for c < 0)")
        raise ExtractionError(f"angle expression is not +-acos(...): {expr!r:.120}")

    def unfolded(self, v: RF) -> RF:
        return self.te.unfold(v, {"Kallen"})

    def demand_understood(self, fn, what: str, v: RF) -> None:
        """Before a formula is reported as different from its specification: it must consist of symbols and radicals
        only.  A leftover application / attribute / item atom is something the evaluator did not read (an object of an
        unknown class, a callable it could not apply): then the verdict is `cannot decide`, not `wrong`."""
        from ..terms import deep_atoms

        read = lambda a: a[0] == "sqrt" or (a[0] == "app" and a in self.te.apps and (self.te.apps[a].cls in {"acos", "atan2"} or self.te.apps[a].cls.endswith("::Kallen")))  # noqa: E731
        unread = [a for a in deep_atoms(self.te, v) if isinstance(a, tuple) and a and not read(a)]
        if unread:
            raise AnalysisError(f"{fn.qual}: {what} contains `{unread[0]!r:.80}`, which is not read as a symbol: the formula cannot be compared with its geometric definition")

    def cos_or_report(self, ctx, tree, fn, key: str, expr: RF):
        """cos_of, but an angle computed with a wrong inverse function is reported as a violation."""
        try:
            return self.cos_of(expr)
        except WrongBranch as exc:
            ctx.violation("R-TERM", key + "::inverse-cosine", tree.loc(fn.node), f"{fn.qual.split('::')[-1]}: {exc}",
                          "the angle must be acos(c) (or atan2(sqrt(1 - c^2), c)): with atan the cyclic sum rule fails by pi wherever an alignment angle is obtuse")
            return None


def relabel(v: RF, te: TermEval, perm: dict[int, int]) -> RF:
    """Apply a relabelling of (1,2,3) to the mass and Mandelstam atoms of a term."""
    names = {"m_1": 1, "m_2": 2, "m_3": 3}
    pairs = {"m_23": 1, "m_13": 2, "m_12": 3}
    inv_pairs = {1: "m_23", 2: "m_13", 3: "m_12"}
    # two-step substitution through temporaries to avoid clobbering
    tmp = {}
    out = v
    for name, idx in {**names, **pairs}.items():
        t = f"__tmp_{name}"
        tmp[t] = (f"m_{perm[idx]}" if name in names else inv_pairs[perm[idx]])
        out = _subst_atom_deep(out, name, sym(t))
    for t, final in tmp.items():
        out = _subst_atom_deep(out, t, sym(final))
    return out


def _subst_atom_deep(v: RF, atom: str, repl: RF) -> RF:
    """Substitute a symbol also inside sqrt radicands."""
    out = v
    for a in list(out.atoms()):
        if isinstance(a, tuple) and a and a[0] == "sqrt":
            rad = RF(D.radicands[a])
            if atom in rad.atoms():
                out = out.substitute(a, sqrt(rad.substitute(atom, repl)))
    if atom in out.atoms():
        out = out.substitute(atom, repl)
    return out


# ---------------------------------------------------------------------------- checks

# call shapes of formulate_zeta_angle: the 36 of _DPDAlignmentWignerGenerator (state 0..3,
# subsystem 1..3, reference 1..3) plus reference 0 for the final states (identity
# zeta^i_{k(0)} = zeta^i_{k(i)}); (0, k, 0) is outside the domain (theta-hat_{k(0)} is undefined)
SHAPES = [(i, j, k) for i in (0, 1, 2, 3) for j in (1, 2, 3) for k in (1, 2, 3)] + [(i, j, 0) for i in (1, 2, 3) for j in (1, 2, 3)]


class Table:
    """The rows of a case table: per row the index tuples (of the PUBLIC call) that its test accepts, the first row
    that accepts each tuple, and the index values the row itself saw (they differ from the call's when the indices were
    re-bound or handed to a helper in another order)."""

    def __init__(self) -> None:
        self.rows: dict[int, tuple[ast.If, set]] = {}
        self.order: list[int] = []
        self.first: dict[tuple, int] = {}
        self.seen: dict[int, dict[tuple, tuple]] = {}

    def record(self, node: ast.If, fires: bool, idx: tuple, values: tuple) -> None:
        if id(node) not in self.rows:
            self.rows[id(node)] = (node, set())
            self.order.append(id(node))
            self.seen[id(node)] = {}
        if fires:
            self.rows[id(node)][1].add(idx)
            self.first.setdefault(idx, id(node))
            self.seen[id(node)][idx] = values

    def __iter__(self):
        return iter([self.rows[i] for i in self.order])


def _terminates(block: list) -> bool:
    """Every path through the block ends in a return / raise."""
    if not block:
        return False
    last = block[-1]
    if isinstance(last, (ast.Return, ast.Raise)):
        return True
    return isinstance(last, ast.If) and _terminates(last.body) and _terminates(last.orelse)


def _unconditional_calls(node: ast.AST):
    """The calls that are evaluated whenever the statement / expression is (not those inside a lambda, a
    comprehension, the arms of a conditional expression or the later operands of and / or)."""
    todo = [node]
    while todo:
        n = todo.pop()
        if isinstance(n, (ast.Lambda, ast.GeneratorExp, ast.ListComp, ast.SetComp, ast.DictComp, ast.FunctionDef, ast.ClassDef)):
            continue
        if isinstance(n, ast.IfExp):
            todo.append(n.test)
            continue
        if isinstance(n, ast.BoolOp):
            todo.append(n.values[0])
            continue
        if isinstance(n, ast.Call):
            yield n
        todo.extend(ast.iter_child_nodes(n))


def table_rows(A: Angles, fn, domain) -> Table:
    """The rows of the case analysis that a function performs on its constant indices.

    A row is an ``if`` whose body always returns / raises and contains no further ``if`` (a body with further ``if``s is
    a nested table: its leaves are the rows), and the ``return`` behind the rows of a table (its ``else`` row, which
    accepts what no row in front of it accepted).  The rows are looked for where the case analysis is executed, whatever
    function holds it: in the body of ``fn`` and in the body of every package function that a statement outside the
    rows calls (``return _formulate_zeta_expression(i, j, k)``: the helper's table, with the parameters bound as the
    call binds them).  Every test is decided by constant propagation for every index tuple, with the statements in front
    of it evaluated first - so a test may be spelt ``(i, j, k) == (1, 1, 3)``, ``case == (1, 1, 3)`` for a local
    ``case = (i, j, k)``, ``case in {...}``, ``{i, j, k} == {1, 2, 3}`` ...; an ``if`` that falls through (``if k == 0: k = i``)
    is executed, not a row.  Every row is judged in isolation (as if no earlier row had returned): that is what makes an
    overlap visible.  A test that is not decidable over the indices is an analysis error."""
    te = A.te
    tree = A.tree
    table = Table()

    def decide(test, env, g) -> bool:
        try:
            return bool(te.const(test, env, g))
        except TermEval.NotConst:
            raise AnalysisError(f"{g.qual}: the test `{unparse(test)[:60]}` of the case table is not decidable over constant indices") from None

    def values(env, g) -> tuple:
        out = []
        for p in g.params:
            v = env.get(p)
            if isinstance(v, RF) and v.is_const() and v.const_value().denominator == 1:
                out.append(int(v.const_value()))
        return tuple(out)

    def follow(node, env, g, idx, stack) -> None:
        for call in _unconditional_calls(node):
            target = tree.funcs.get(tree.resolve(g.module, call.func, g) or "")
            if target is None or target.qual in stack or not any(isinstance(n, ast.If) for n in walk_function(target.node)):
                continue
            try:
                args, kwargs = te._args(call, env, g, 0)
                if target.cls is not None and target.outer is None and "self" in env and target.params[:1] == ["self"]:
                    args = [env["self"], *args]
                cenv = te.bind_params(target, args, kwargs)
            except ExtractionError as exc:
                raise AnalysisError(f"{g.qual}: the arguments of `{unparse(call)[:60]}` cannot be bound for the indices {idx}: {exc}") from None
            if target.outer is not None:
                cenv = {**env, **cenv}
            scan(target.node.body, cenv, target, idx, stack | {target.qual}, [0, False])

    def scan(block, env, g, idx, stack, state) -> bool:
        """True: the block has returned / raised for these indices.  ``state`` = [rows met, a row fired] of the table
        this block belongs to."""
        for st in block:
            if isinstance(st, ast.If):
                fires = decide(st.test, env, g)
                if _terminates(st.body):
                    if any(isinstance(n, ast.If) for s_ in st.body for n in ast.walk(s_)):
                        inner = [0, False]
                        if fires:
                            scan(st.body, dict(env), g, idx, stack, inner)
                        state[0] += 1
                        state[1] = state[1] or inner[1]
                    else:
                        table.record(st, fires, idx, values(env, g))
                        state[0] += 1
                        state[1] = state[1] or fires
                    # in isolation: go on as if the row had not returned
                    if st.orelse and scan(st.orelse, env, g, idx, stack, state):
                        return True
                    continue
                if scan(st.body if fires else st.orelse, env, g, idx, stack, state):
                    return True
                continue
            if isinstance(st, ast.Raise):
                return True
            if isinstance(st, ast.Return):
                if st.value is not None:
                    follow(st.value, env, g, idx, stack)
                if state[0]:
                    # the `return` behind the rows of a table is its `else` row: it accepts what no row before it accepted
                    table.record(st, not state[1], idx, values(env, g))
                    state[1] = True
                return True
            follow(st, env, g, idx, stack)
            try:
                te.eval_body([st], env, g)
            except NoReturn:
                pass
            except RaisedError:
                return True  # the function raises here for these indices: no later row is reached
        return False

    for idx in domain:
        scan(fn.node.body, te.bind_params(fn, [RF.const(i) for i in idx], {}), fn, idx, frozenset({fn.qual}), [0, False])
    return table


def check_tables(ctx: Check, tree: Tree, A: Angles) -> None:
    fn = A.zeta
    universe = set(itertools.product((1, 2, 3), repeat=3))
    diagonal = {t for t in universe if t[1] == t[2]}
    everything = set(itertools.product((0, 1, 2, 3, 4), repeat=3))
    rows = table_rows(A, fn, sorted(everything))
    if not rows.order:
        raise AnalysisError(f"{fn.qual}: no case table (an `if` over the constant indices whose body returns) is found in the function or in a helper it calls for every index triple: the partition cannot be read off")
    table = [(node, fires & universe, fires - universe) for node, fires in rows if fires & universe]
    problems = []
    hits: dict[tuple, int] = {}
    for _, inside, _ in table:
        for t in inside:
            hits[t] = hits.get(t, 0) + 1
    twice = sorted(t for t, n_ in hits.items() if n_ > 1)
    if twice:
        problems.append(f"triples accepted by several rows: {twice} (the first row wins silently; {sorted(set(twice) & diagonal)} of them by the `aligned == reference` rule)")
    uncovered = sorted(universe - set(hits))
    if uncovered:
        handled = []
        for t in uncovered:
            try:
                A.call(fn, *t)
                handled.append(t)
            except RaisedError:
                pass
        if handled:
            raise AnalysisError(f"{fn.qual}: {handled[:3]} are accepted by no `if` of the top-level chain but the function returns an expression for them: the case analysis is not (only) an if-chain over the indices, the partition cannot be read off")
        problems.append(f"not covered: {uncovered}")
    # ids outside {1,2,3}: a row of the table (not the `aligned == reference` rule, not the state-0 / reference-0
    # delegations in front of it) must not be the first one to accept a foreign triple
    # (a triple is foreign to a row if the index values the row itself sees - after a re-binding such as
    # `reference := rotated_state`, or as parameters of a helper - are not all in {1,2,3})
    foreign = sorted(t for node, inside, outside in table if not inside <= diagonal for t in outside
                     if rows.first[t] == id(node) and not set(rows.seen[id(node)][t]) <= {1, 2, 3})
    if foreign:
        problems.append(f"outside the domain: {foreign}")
    listed = [inside for _, inside, _ in table if not inside <= diagonal]
    direct = [g for g in listed if len(g) == 1]
    groups = [g for g in listed if len(g) > 1]
    ctx.stats["zeta_literal_triples"] = sum(len(g) for g in listed)
    ctx.verdict(not problems, "R-TABLE", f"{fn.qual}::partition", tree.loc(fn.node),
                f"formulate_zeta_angle: {len(direct)} single-triple rows + {[len(g) for g in groups]} grouped triples + {len(diagonal)} diagonal triples partition {{1,2,3}}^3 (row tests decided for all 125 index triples over 0..4)", problems or None)
    # every call shape evaluates (no fall-through to NotImplementedError), incl. state 0 and reference 0
    failures = []
    n = 0
    for i, j, k in SHAPES:
        n += 1
        try:
            A.call(fn, i, j, k)
        except RaisedError as exc:
            failures.append(f"({i},{j},{k}): {exc}")
    ctx.stats["zeta_call_shapes"] = n
    ctx.verdict(not failures, "R-TABLE", f"{fn.qual}::exhaustive", tree.loc(fn.node), f"formulate_zeta_angle returns an expression for all {n} call shapes (the 36 of the DPD generator + reference 0 for final states)", failures[:5] or None)
    # theta hat
    th = A.theta_hat
    fails = []
    for i, j in itertools.product((1, 2, 3), repeat=2):
        try:
            A.call(th, i, j)
        except RaisedError as exc:
            fails.append(f"({i},{j}): {exc}")
    ctx.verdict(not fails, "R-TABLE", f"{th.qual}::exhaustive", tree.loc(th.node), "formulate_theta_hat_angle returns an expression for all 9 index pairs", fails or None)
    bad_ids = [args for args in ((0, 1), (1, 4), (4, 4)) if A.accepts(th, *args)]
    ctx.verdict(not bad_ids, "R-TABLE", f"{th.qual}::rejects-foreign-ids", tree.loc(th.node), "formulate_theta_hat_angle rejects ids outside {1,2,3}", bad_ids or None)
    sc = A.theta
    accepted = [args for args in ((0, 1), (1, 4), (2, 2)) if A.accepts(sc, *args)]
    ctx.verdict(not accepted, "R-TABLE", f"{sc.qual}::guards", tree.loc(sc.node), "formulate_scattering_angle rejects ids outside {1,2,3} and equal ids", accepted or None)
    dead = [n_ for n_ in walk_function(sc.node) if isinstance(n_, ast.If) and isinstance(n_.test, ast.Compare) and isinstance(n_.test.left, ast.Set) and isinstance(n_.test.comparators[0], ast.Set)
            and all(isinstance(e, ast.Tuple) for e in n_.test.comparators[0].elts)]
    if dead:
        ctx.advisory("A-DEADGUARD", tree.loc(dead[0]), "formulate_scattering_angle: `{i, j} in {(2,1), (3,2), (1,3)}` compares a set with tuples and never fires; theta_ji = pi - theta_ij is geometrically right (explicitly not a defect per C19)")


def check_zeta_identities(ctx: Check, tree: Tree, A: Angles) -> dict:
    fn = A.zeta
    where = tree.loc(fn.node)
    exprs = {}
    for i, j, k in SHAPES:
        exprs[(i, j, k)] = A.call(fn, i, j, k)[1]
    # zeta^i_{k(k)} = 0
    bad = [t for t in exprs if t[1] == t[2] and t[0] != 0 and not exprs[t].is_zero()]
    ctx.verdict(not bad, "R-TERM", f"{fn.qual}::zero-diagonal", where, "zeta^i_{k(k)} == 0 for all i, k", bad or None)
    def same(a: RF, b: RF, what: str) -> bool:
        if equal(a, b):
            return True
        A.demand_understood(fn, what, a)
        A.demand_understood(fn, what, b)
        return False

    # zeta^i_{k(0)} = zeta^i_{k(i)}
    bad = [(i, j) for i in (1, 2, 3) for j in (1, 2, 3) if not same(exprs[(i, j, 0)], exprs[(i, j, i)], f"zeta^{i}_{j}(0) / zeta^{i}_{j}({i})")]
    ctx.verdict(not bad, "R-TERM", f"{fn.qual}::reference-zero", where, "zeta^i_{k(0)} == zeta^i_{k(i)} for all i, k", bad or None)
    # antisymmetry
    bad = [(i, j, k) for i in (1, 2, 3) for j in (1, 2, 3) for k in (1, 2, 3) if j < k and not same(exprs[(i, j, k)], -exprs[(i, k, j)], f"zeta^{i}_{j}({k}) / zeta^{i}_{k}({j})")]
    ctx.verdict(not bad, "R-TERM", f"{fn.qual}::antisymmetric", where, "zeta^i_{j(k)} == -zeta^i_{k(j)} for all i and j != k", bad or None)
    # rotated state 0: theta hat
    bad = []
    for j, k in itertools.product((1, 2, 3), repeat=2):
        if not same(exprs[(0, j, k)], A.call(A.theta_hat, j, k)[1], f"zeta^0_{j}({k}) / theta-hat_{j}({k})"):
            bad.append((j, k))
    ctx.verdict(not bad, "R-TERM", f"{fn.qual}::state-zero", where, "zeta^0_{j(k)} == theta-hat_{j(k)}", bad or None)
    return exprs


def check_zeta_geometry(ctx: Check, tree: Tree, A: Angles, exprs: dict) -> None:
    fn = A.zeta
    set_mandelstam_relation()
    n = 0
    for i, j, k in itertools.product((1, 2, 3), repeat=3):
        if j == k:
            continue
        got = A.cos_or_report(ctx, tree, fn, f"{fn.qual}::geometry::({i},{j},{k})", exprs[(i, j, k)])
        if got is None:
            continue
        sign, cosz = got
        cosz = A.unfolded(cosz)
        want = cos_zeta_spec(i, j, k)
        ok = equal(cosz, want)
        if not ok:
            A.demand_understood(fn, f"cos zeta^{i}_{j}({k})", cosz)
        n += 1
        key = f"{fn.qual}::geometry::({i},{j},{k})"
        if sign > 0:  # report the rows that carry a formula of their own (the negated ones delegate)
            ctx.verdict(ok, "R-TERM", key, tree.loc(fn.node), f"cos zeta^{i}_{{{j}({k})}} == cosine of the angle, in the rest frame of particle {i}, between the reference directions of chains {j} and {k} (modulo sigma1+sigma2+sigma3 = sum m^2)",
                        None if ok else {"code": repr(cosz)[:160], "geometric": repr(want)[:160]})
        elif not ok:
            ctx.violation("R-TERM", key, tree.loc(fn.node), f"cos zeta^{i}_{{{j}({k})}} (negated row) differs from its geometric definition")
    D.set_relations([])
    ctx.stats["zeta_geometry_instances"] = n


def check_theta_hat(ctx: Check, tree: Tree, A: Angles) -> None:
    fn = A.theta_hat
    set_mandelstam_relation()
    vals = {(i, j): A.call(fn, i, j)[1] for i, j in itertools.product((1, 2, 3), repeat=2)}
    bad = [p for p in vals if p[0] == p[1] and not vals[p].is_zero()]
    ctx.verdict(not bad, "R-TERM", f"{fn.qual}::zero-diagonal", tree.loc(fn.node), "theta-hat_{i(i)} == 0", bad or None)
    bad = [p for p in vals if p[0] < p[1] and not equal(vals[p], -vals[(p[1], p[0])])]
    ctx.verdict(not bad, "R-TERM", f"{fn.qual}::antisymmetric", tree.loc(fn.node), "theta-hat_{i(j)} == -theta-hat_{j(i)}", bad or None)
    for (i, j), v in vals.items():
        if i == j:
            continue
        sign, c = A.cos_of(v)
        c = A.unfolded(c)
        want = cos_theta_hat_spec(i, j)
        ok = equal(c, want)
        if not ok:
            A.demand_understood(fn, f"cos theta-hat_{i}({j})", c)
        # orientation: theta-hat_{1(2)} + theta-hat_{2(3)} + theta-hat_{3(1)} = 2 pi (the three momenta
        # are coplanar and close a triangle) forces +acos for the three cyclic pairs, antisymmetry
        # then -acos for the anti-cyclic ones
        cyclic = (i, j) in {(1, 2), (2, 3), (3, 1)}
        ok_sign = (sign > 0) == cyclic
        ctx.verdict(ok_sign, "R-TABLE", f"{fn.qual}::orientation::({i},{j})", tree.loc(fn.node),
                    f"theta-hat_{{{i}({j})}} = {'+' if cyclic else '-'}acos(...) ({'cyclic' if cyclic else 'anti-cyclic'} pair)",
                    None if ok_sign else "the sum theta-hat_{1(2)} + theta-hat_{2(3)} + theta-hat_{3(1)} is no longer 2 pi; zeta^0_{i(j)} = theta-hat takes the wrong sign in the DPD alignment")
        if sign > 0 or not ok:
            ctx.verdict(ok, "R-TERM", f"{fn.qual}::geometry::({i},{j})", tree.loc(fn.node),
                        f"cos theta-hat_{{{i}({j})}} == cosine of the angle between the momenta of particles {i} and {j} in the parent rest frame",
                        None if ok else {"code": repr(c)[:160], "geometric": repr(want)[:160]})
    D.set_relations([])


def check_scattering(ctx: Check, tree: Tree, A: Angles) -> None:
    fn = A.theta
    set_mandelstam_relation()
    cosines = {}
    for i, j in itertools.permutations((1, 2, 3), 2):
        sym_, v = A.call(fn, i, j)
        sign, c = A.cos_of(v)
        c = A.unfolded(c)
        cosines[(i, j)] = c
        want = cos_theta_spec(i, j)
        ok = sign == 1 and equal(c, want)
        if not ok:
            A.demand_understood(fn, f"cos theta_{i}{j}", c)
        ctx.verdict(ok, "R-TERM", f"{fn.qual}::geometry::({i},{j})", tree.loc(fn.node),
                    f"cos theta_{i}{j} == cosine of the helicity angle of particle {i} in the ({i}{j}) rest frame (against the direction opposite to the spectator)",
                    None if ok else {"code": repr(c)[:160], "geometric": repr(want)[:160]})
        name = A.te.single_atom(A.te._rf(sym_)) if not isinstance(sym_, Opaque) else None
        if not isinstance(name, str):
            raise AnalysisError(f"{fn.qual}: the first element returned for ({i},{j}) is not read as a symbol ({sym_!r:.60}): its name cannot be judged")
        ctx.verdict(name == f"theta_{i}{j}", "R-TERM", f"{fn.qual}::symbol::({i},{j})", tree.loc(fn.node), f"the symbol returned for ({i},{j}) is theta_{i}{j}", None if name == f"theta_{i}{j}" else str(name))
    bad = [(i, j) for (i, j) in cosines if i < j and not (cosines[(i, j)] + cosines[(j, i)]).is_zero()]
    ctx.verdict(not bad, "R-TERM", f"{fn.qual}::supplementary", tree.loc(fn.node), "cos theta_ij + cos theta_ji == 0 (theta_ij + theta_ji = pi) modulo sigma1+sigma2+sigma3 = sum m^2", bad or None)
    D.set_relations([])


def check_covariance(ctx: Check, tree: Tree, A: Angles, exprs: dict) -> None:
    """Thorough: the formulas are images of one another under cyclic relabelling of (1,2,3)."""
    fn = A.zeta
    cyc = {1: 2, 2: 3, 3: 1}
    set_mandelstam_relation()
    bad = []
    n = 0
    for i, j, k in itertools.product((1, 2, 3), repeat=3):
        if j == k:
            continue
        s1, c1 = A.cos_of(exprs[(i, j, k)])
        s2, c2 = A.cos_of(exprs[(cyc[i], cyc[j], cyc[k])])
        n += 1
        img = relabel(A.unfolded(c1), A.te, cyc)
        if s1 != s2 or not equal(img, A.unfolded(c2)):
            bad.append((i, j, k))
    D.set_relations([])
    ctx.verdict(not bad, "R-TERM", f"{fn.qual}::cyclic-covariance", tree.loc(fn.node),
                f"zeta^(i+1)_(j+1)((k+1)) is the image of zeta^i_j(k) under the cyclic relabelling of masses and Mandelstam variables ({n} relations, signs included)", bad or None)


GENERATOR_PARAMS = ("j", "m", "m_prime", "rotated_state", "aligned_subsystem")


def zeta_consumers(tree: Tree, zeta_fn) -> list:
    """The callables that produce the DPD Wigner-d of one outer state: every package function outside the angle module
    that takes (j, m, m_prime, rotated_state, aligned_subsystem) and from which formulate_zeta_angle is reached - a
    `__call__` of a generator class, a module function bound with functools.partial, a closure."""
    graph = tree.call_graph()
    found = []
    for q, f in tree.funcs.items():
        if f.module.name == ANG or not set(GENERATOR_PARAMS) <= set(f.params):
            continue
        if zeta_fn.qual in tree.reachable(q, graph):
            found.append(f)
    return found


def _generator_self(te: TermEval, tree: Tree, consumer, reference: RF) -> dict:
    """The abstract `self` of a generator method: the fields as `__init__` sets them when it is given the reference
    subsystem (a field of any name that holds it, an empty dict of any name for the definitions)."""
    default = {"reference_subsystem": reference, "angle_definitions": DictV([])}
    init = tree.lookup_method(consumer.cls, "__init__") if consumer.cls is not None else None
    if init is None:
        return default
    if "reference_subsystem" not in init.params:
        raise AnalysisError(f"{init.qual}: parameter reference_subsystem vanished")
    env = {p: RF.atom(f"<init {p}>") for p in init.params[1:]}
    env["reference_subsystem"] = reference
    struct: dict = {}
    for st in init.node.body:
        if isinstance(st, ast.Expr) and isinstance(st.value, ast.Constant):
            continue
        target = st.targets[0] if isinstance(st, ast.Assign) and len(st.targets) == 1 else st.target if isinstance(st, ast.AnnAssign) else None
        if not (isinstance(target, ast.Attribute) and isinstance(target.value, ast.Name) and target.value.id == init.params[0] and getattr(st, "value", None) is not None):
            raise AnalysisError(f"{init.qual}: `{unparse(st)[:60]}` is not a plain field assignment: the state of the generator cannot be read off")
        struct[target.attr] = te.ev(st.value, env, init)
    return struct


def check_consumers(ctx: Check, tree: Tree) -> None:
    """The generator is evaluated symbolically (helper methods inlined, arguments bound by name): which
    arguments reach formulate_zeta_angle, which angle reaches Wigner.d, what is registered."""
    zeta_fn = tree.func(f"{ANG}::formulate_zeta_angle")
    consumers = zeta_consumers(tree, zeta_fn)
    if not consumers:
        raise AnalysisError(f"vanished anchor: no function with the parameters {GENERATOR_PARAMS} reaches formulate_zeta_angle (formerly _DPDAlignmentWignerGenerator.__call__)")
    for call in consumers:
        _check_consumer(ctx, tree, zeta_fn, call)


def _check_consumer(ctx: Check, tree: Tree, zeta_fn, call) -> None:
    te = TermEval(tree, inline_depth=6)
    requests: list[dict] = []

    def formulate(ev, args, kwargs):
        requests.append(ev.bind_params(zeta_fn, args, kwargs))
        return Tup([RF.atom(f"<zeta symbol #{len(requests)}>"), RF.atom(f"<zeta definition #{len(requests)}>")])

    te.overrides[zeta_fn.qual] = formulate
    spin = RF.const(7)  # a constant non-zero spin: the `j == 0 -> 1` shortcut is decided, not forked
    given = {"j": spin, "m": RF.atom("<m>"), "m_prime": RF.atom("<m_prime>"), "rotated_state": RF.atom("<rotated_state>"), "aligned_subsystem": RF.atom("<aligned_subsystem>")}
    reference = RF.atom("<reference_subsystem>")
    is_method = call.cls is not None and call.outer is None and call.params[:1] == ["self"]
    # the reference subsystem and the registry of definitions reach the callable as fields of `self`, as (keyword)
    # parameters bound by functools.partial, or as variables of the enclosing function
    env: dict = {"reference_subsystem": reference, "angle_definitions": DictV([])}
    if is_method:
        env["self"] = _generator_self(te, tree, call, reference)
    a = call.node.args
    positional = [*a.posonlyargs, *a.args]
    defaults = {p.arg for p in positional[len(positional) - len(a.defaults):]} | {p.arg for p, d in zip(a.kwonlyargs, a.kw_defaults) if d is not None}
    own = call.params[1 if is_method else 0:]
    for p in own:
        if p in given:
            env[p] = given[p]
        elif p not in env and p not in defaults:
            raise AnalysisError(f"{call.qual}: parameter {p} has no known role (expected {GENERATOR_PARAMS}, reference_subsystem, angle_definitions)")
    env.update(te.bind_params(call, [], {p: env[p] for p in own if p in env}, skip_first=is_method))
    registries = [v for v in [*env.values(), *(env["self"].values() if is_method else [])] if isinstance(v, DictV)]
    result = te.eval_body(call.node.body, env, call)
    problems = []
    want = {"rotated_state": given["rotated_state"], "aligned_subsystem": given["aligned_subsystem"], "reference_subsystem": reference}
    if len(requests) != 1:
        problems.append(f"formulate_zeta_angle is called {len(requests)} times")
    else:
        got = requests[0]
        for name, value in want.items():
            if name not in got or vkey(got[name]) != vkey(value):
                problems.append(f"formulate_zeta_angle receives {name} = {got.get(name)!r:.60}, expected {value!r}")
    symbol, definition = RF.atom("<zeta symbol #1>"), RF.atom("<zeta definition #1>")
    atom = te.single_atom(result) if isinstance(result, RF) else None
    info = te.apps.get(atom) if atom is not None and te.is_app(atom) else None
    if info is None or info.cls not in {"d", "D"}:
        raise AnalysisError(f"{call.qual}: the result is not read as one Wigner.d(...) application ({result!r:.80}): the wiring cannot be judged")
    expected = {"j": spin, "m": given["m"], "mp": given["m_prime"], "beta": symbol}
    if info.cls == "D":  # D^j_{m m'}(0, beta, 0) = d^j_{m m'}(beta)
        expected.update({"alpha": RF.const(0), "gamma": RF.const(0)})
    for name, value in expected.items():
        if name not in info.kwargs or vkey(info.kwargs[name]) != vkey(value):
            problems.append(f"Wigner.{info.cls} receives {name} = {info.kwargs.get(name)!r:.60}, expected {value!r}")
    registered = [(vkey(k), vkey(v)) for d in registries for k, v in d.items]
    if registered != [(vkey(symbol), vkey(definition))]:
        problems.append(f"angle_definitions receives {[(repr(k)[:40], repr(v)[:40]) for d in registries for k, v in d.items]}, expected the one entry symbol -> definition returned by formulate_zeta_angle")
    ctx.verdict(not problems, "R-TERM", f"{call.qual}::wiring", tree.loc(call.node), "the DPD Wigner-d of state i in subsystem j uses zeta^i_{j(reference)} and registers its definition under the same symbol", problems or None)


def run(ctx: Check, tree: Tree) -> None:
    ctx.decided += [
        "R-TABLE: the literal triples of formulate_zeta_angle partition {1,2,3}^3 together with the diagonal rule; all 45 call shapes (incl. state 0 / reference 0) and all theta-hat pairs evaluate; guards reject foreign ids",
        "identities by construction: zeta^i_{k(k)} = 0, zeta^i_{k(0)} = zeta^i_{k(i)}, zeta^i_{j(k)} = -zeta^i_{k(j)}, zeta^0 = theta-hat, theta-hat antisymmetric with zero diagonal",
        "R-TERM against geometry: all 18 cos zeta, 6 cos theta-hat and 6 cos theta_ij formulas equal their definition through invariant products (rational functions over lambda^(1/2) atoms modulo sigma1+sigma2+sigma3 = sum m^2); cos theta_ij + cos theta_ji = 0",
        "the DPD generator uses zeta^i_{j(reference)} for state i in subsystem j",
    ]
    ctx.not_decided += [
        "arccos arguments lie in [-1,1] on the physical Dalitz region (semi-algebraic)",
        "the cyclic sum rule as an identity between arccosine expressions (holds on the physical region only; follows from the common decay plane)",
        "numerical agreement with helicity angles computed from four-momenta",
    ]
    ctx.assumptions += [
        "two-body kinematics: E_a = (M^2 + m_a^2 - m_b^2)/(2M), |p| = lambda^(1/2)/(2M); invariant products through sigma_k and masses",
        "instantiation over the finite index domain by constant propagation (45 + 9 + 6 call shapes); formal radical algebra at a generic positive point",
    ]
    D.reset()
    A = Angles(tree)
    # all angle formulas contain Kallen(...): every path of Kallen.evaluate must return the polynomial
    # (equal daughter masses are in the quantifier of the property)
    from .c20 import check_kallen_paths

    ctx.section(check_kallen_paths, ctx, tree)
    ctx.section(check_tables, ctx, tree, A)
    exprs = ctx.section(check_zeta_identities, ctx, tree, A)
    ctx.section(check_zeta_geometry, ctx, tree, A, exprs)
    ctx.section(check_theta_hat, ctx, tree, A)
    ctx.section(check_scattering, ctx, tree, A)
    ctx.section(check_consumers, ctx, tree)
    # the angle definitions are written in terms of m_0..m_3, m_12, m_23, m_13: these must be the very symbols
    # (name AND assumptions) that the model defines as parameters / kinematic variables
    from .c01 import check_sympairs

    ctx.section(check_sympairs, ctx, tree)
    run.state = (A, exprs)  # type: ignore[attr-defined]


def run_thorough(ctx: Check, tree: Tree) -> None:
    A, exprs = run.state  # type: ignore[attr-defined]
    check_covariance(ctx, tree, A, exprs)
