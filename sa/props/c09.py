"""C09 - K-matrix amplitudes are unitary and symmetric for real parameters.

What unitarity and symmetry need from the code: (i) K = K^T, (ii) K real for real
parameters, (iii) T = K(1-iK)^-1 resp. T^ = K^(1-i rho K^)^-1, T = conj(sqrt rho) T^ sqrt rho,
(iv) the rho that multiplies K^ is the rho that is substituted.
"""

from __future__ import annotations

import ast

from ..loader import AnalysisError, Tree, unparse, walk_function
from ..ncterms import NC, NCEval, nc_func
from ..poly import RF, D, equal, sym
from ..report import Check
from ..rules import symbol_sites
from ..terms import Opaque, TermEval, deep_atoms, vkey

PID = "C09"
MOD = "ampform.dynamics.kmatrix"
I = RF.atom("I")


def param_atoms(te: TermEval, fn, overrides: dict | None = None) -> list:
    """One opaque atom per parameter (name = parameter name)."""
    out = []
    for p in fn.params:
        if overrides and p in overrides:
            out.append(overrides[p])
        else:
            out.append(sym(p))
    return out


def check_k_symmetric_real(ctx: Check, tree: Tree, te: TermEval, cls_name: str) -> None:
    fn = tree.func(f"{MOD}::{cls_name}.parametrization")
    where = tree.loc(fn.node)
    key = f"{fn.qual}"
    extra = {"phsp_factor": Opaque(("ref", "PHSP"))} if "phsp_factor" in fn.params else {}
    a = te.eval_function(fn, param_atoms(te, fn, extra))
    swapped = te.eval_function(fn, param_atoms(te, fn, {**extra, "i": sym("j"), "j": sym("i")}))
    ok = vkey(a) == vkey(swapped)
    ctx.verdict(ok, "R-TERM", key + "::symmetric", where,
                f"{cls_name}.parametrization(i, j, ...) is invariant under i <-> j (K = K^T)",
                None if ok else "the term changes when the channel indices are exchanged: K is not symmetric, hence T != T^T")
    atoms = deep_atoms(te, a)
    has_i = "I" in atoms
    ctx.verdict(not has_i, "R-TERM", key + "::real", where,
                f"{cls_name}.parametrization contains no imaginary unit (K real for real parameters)",
                "imaginary unit inside the K-matrix parametrisation" if has_i else None)
    # pole structure: denominator (m_R^2 - s), summed over the poles 1..n_poles
    info = te.apps.get(te.single_atom(a)) if te.single_atom(a) in te.apps else None
    ok_sum = info is not None and info.cls == "Sum"
    if ok_sum:
        limits = info.args[1]
        ok_sum = vkey(limits) == vkey(te_tuple([sym("pole_id"), RF.const(1), sym("n_poles")]))
    ctx.verdict(ok_sum, "R-TERM", key + "::pole-sum", where,
                f"{cls_name}.parametrization sums over (pole_id, 1, n_poles)", None if ok_sum else "limits of the pole sum changed")


def te_tuple(items):
    from ..terms import Tup

    return Tup(list(items))


def accepted_t(rel: bool, return_hat: bool) -> list[NC]:
    K, rho, one = NC.sym("K"), NC.sym("rho"), NC.eye()
    if not rel:
        x = (one - I * K).inv()
        return [K * x, x * K]
    hat = [K * (one - I * rho * K).inv(), (one - I * K * rho).inv() * K]
    if return_hat:
        return hat
    sq = nc_func("sqrt", rho)
    return [nc_func("conj", sq) * h * sq for h in hat]


def check_t_matrix(ctx: Check, tree: Tree, cls_name: str, rel: bool) -> None:
    fn = tree.func(f"{MOD}::{cls_name}._create_matrices")
    nce = NCEval(tree)
    flags_list = [{"return_t_hat": False}, {"return_t_hat": True}] if "return_t_hat" in fn.params else [{}]
    # closed forms for a concrete number of channels: `if n_channels == 2: ...`.  The generic path is
    # decided on non-commutative terms with every such test False; each special size is decided on an
    # explicit symbol matrix, entry by entry, against the defining identity T (1 - iK) = K.
    special: dict[str, tuple[str, int]] = {}
    for node in walk_function(fn.node):
        if isinstance(node, ast.If):
            t = node.test
            if (isinstance(t, ast.Compare) and len(t.ops) == 1 and isinstance(t.ops[0], ast.Eq) and isinstance(t.left, ast.Name) and t.left.id in fn.params
                    and isinstance(t.comparators[0], ast.Constant) and isinstance(t.comparators[0].value, int)):
                special[unparse(t)] = (t.left.id, t.comparators[0].value)
    nce.assume = {k: False for k in special}
    for test, (pname, size) in sorted(special.items()):
        from ..dense import DenseEval, Mat
        from ..poly import I as IMAG
        from ..poly import RF

        if rel:
            raise AnalysisError(f"{fn.qual}: closed form for `{test}` in the relativistic T-matrix (rho placeholders) is outside the dense evaluator")
        for flags in flags_list:
            res = DenseEval(tree, fn, {pname: size}, flags).run()
            if not (isinstance(res, tuple) and len(res) == 2 and all(isinstance(x, Mat) for x in res)):
                raise AnalysisError(f"{fn.qual}: branch `{test}` does not return (T, K) matrices")
            t_m, k_m = res
            lhs = t_m.matmul(Mat.eye(size) - k_m.map(lambda x: IMAG * x))
            ok = lhs.equals(k_m) and k_m.equals(Mat.symbols("K", size, size))
            ctx.verdict(ok, "R-TERM-NC", f"{fn.qual}::closed-form::{test}::{sorted(flags.items())}", tree.loc(fn.node),
                        f"{cls_name}._create_matrices, branch `{test}`: the closed form satisfies T (1 - iK) = K entry by entry on a {size}x{size} symbol matrix",
                        None if ok else {"T(1-iK) - K, entry [0,0]": repr(lhs.rows[0][0] - k_m.rows[0][0])[:300]})
    for flags in flags_list:
        res = nce.run(fn, dict(flags))
        if not res or not isinstance(res[0], NC):
            raise AnalysisError(f"{fn.qual}: no matrix term returned")
        got = res[0]
        acc = accepted_t(rel, flags.get("return_t_hat", False))
        ok = any(got == a for a in acc)
        what = {
            (False, False): "T = K (1 - iK)^-1",
            (True, True): "T^ = K (1 - i rho K)^-1",
            (True, False): "T = conj(sqrt rho) K (1 - i rho K)^-1 sqrt rho",
        }[(rel, flags.get("return_t_hat", False))]
        ctx.verdict(ok, "R-TERM-NC", f"{fn.qual}::{sorted(flags.items())}", tree.loc(fn.node),
                    f"{cls_name}._create_matrices{flags or ''}: {what}",
                    None if ok else {"got": got.show(), "accepted": [a.show() for a in acc]})
        if len(res) > 1 and isinstance(res[1], NC):
            k_ok = res[1] == NC.sym("K")
            ctx.verdict(k_ok, "R-TERM-NC", f"{fn.qual}::returns-K::{sorted(flags.items())}", tree.loc(fn.node),
                        f"{cls_name}._create_matrices returns the symbol matrix K as second element (the one that is parametrised)")


def check_rho_pairing(ctx: Check, tree: Tree) -> None:
    """R-SYMPAIR: the rho symbols and the duplicated s/m/Gamma/... constructions agree."""
    sites = symbol_sites(tree, [MOD])
    ctx.stats["symbol_sites_kmatrix"] = len(sites)
    if len(sites) < 20:
        raise AnalysisError(f"only {len(sites)} symbol construction sites in kmatrix.py (30 confirmed)")
    groups: dict[str, list[dict]] = {}
    for s in sites:
        if s["skeleton"] is None:
            raise AnalysisError(f"symbol name not a literal/f-string at {tree.loc(s['node'])}")
        groups.setdefault(s["skeleton"], []).append(s)
    for skel, members in sorted(groups.items()):
        sigs = {(m["kind"], tuple(sorted(m["assumptions"].items()))) for m in members}
        where = tree.loc(members[0]["node"])
        if len(members) == 1:
            ctx.info("R-SYMPAIR", where, f"symbol `{skel}` constructed at one site")
            continue
        ok = len(sigs) == 1
        detail = None
        if not ok:
            detail = [{"fn": m["fn"], "kind": m["kind"], "assumptions": m["assumptions"], "at": tree.loc(m["node"])} for m in members]
        ctx.verdict(ok, "R-SYMPAIR", f"{MOD}::symbol `{skel}`", where,
                    f"symbol `{skel}`: {len(members)} construction sites agree in kind and assumptions", detail)
    rho = groups.get("rho{}", [])
    direct = {m["fn"] for m in rho}
    graph = tree.call_graph()
    need = {f"{MOD}::_create_rho_matrix", f"{MOD}::RelativisticKMatrix.formulate", f"{MOD}::RelativisticPVector.formulate"}
    # a function "constructs" the symbol when a construction site is reachable from it inside this module (helper functions)
    fns = {q for q in need if any(r in direct for r in tree.reachable(q, graph) if r.startswith(MOD + "::"))}
    ctx.verdict(need <= fns, "R-SYMPAIR", f"{MOD}::rho-producer-consumer", tree.loc(rho[0]["node"]) if rho else MOD,
                "Symbol(f'rho{i}') is constructed by the producer (_create_rho_matrix) and substituted by both relativistic formulate() methods (directly or through a shared helper)",
                None if need <= fns else f"missing at {sorted(need - fns)}: rho_i would stay undefined in the result")
    # R-PLACEHOLDER: rho_i stands for an arbitrary, in general complex, phase-space factor that is
    # substituted AFTER the matrix algebra; any assumption on the placeholder (positive, real, ...)
    # lets SymPy simplify conjugate(sqrt(rho)) / Abs / sqrt before the substitution
    for m in rho:
        ok = not m["assumptions"]
        ctx.verdict(ok, "R-PLACEHOLDER", f"{m['fn']}::rho-placeholder-assumptions", tree.loc(m["node"]),
                    f"{m['fn'].split('::')[-1]}: the placeholder rho_i carries no assumptions (it is replaced by a caller-supplied, possibly complex phase-space factor after the algebra)",
                    None if ok else f"assumptions {m['assumptions']}: conjugate(sqrt(rho)) is simplified while rho is still a placeholder - the conjugate in K^ = conj(sqrt rho)^-1 K sqrt(rho)^-1 and T = conj(sqrt rho) T^ sqrt(rho) is lost for channels below threshold")


def check_parametrize_wiring(ctx: Check, tree: Tree) -> None:
    """formulate(): K[i,j] is replaced by the class's own parametrization(i=i, j=j, ...)."""
    for cls_name in ("NonRelativisticKMatrix", "RelativisticKMatrix"):
        fn = tree.func(f"{MOD}::{cls_name}.formulate")
        hits = []
        for n_ in walk_function(fn.node):
            # an item of a dict comprehension, or a store `substitutions[K[i, j]] = parametrization(...)`
            if isinstance(n_, ast.DictComp) and isinstance(n_.key, ast.Subscript) and isinstance(n_.value, ast.Call):
                key, value = n_.key, n_.value
            elif (isinstance(n_, ast.Assign) and len(n_.targets) == 1 and isinstance(n_.targets[0], ast.Subscript)
                  and isinstance(n_.targets[0].slice, ast.Subscript) and isinstance(n_.value, ast.Call)):
                key, value = n_.targets[0].slice, n_.value
            else:
                continue
            callee = tree.callee(value, fn)
            if callee and callee.endswith(".parametrization"):
                hits.append((n_, key, value, callee))
        if not hits:
            raise AnalysisError(f"{fn.qual}: no {{K[i, j]: parametrization(...)}} substitution found")
        for node, key_, value_, callee in hits:
            kw = {k.arg: unparse(k.value) for k in value_.keywords}
            idx = unparse(key_.slice)
            ok = callee == f"{MOD}::{cls_name}.parametrization" and idx.replace(" ", "").strip("()") == f"{kw.get('i')},{kw.get('j')}"
            ctx.verdict(ok, "R-WIRING", f"{fn.qual}::K[i,j]->parametrization", tree.loc(node),
                        f"{cls_name}.formulate: {unparse(key_)} -> {callee.split('::')[-1]}(i={kw.get('i')}, j={kw.get('j')})",
                        None if ok else "matrix element and parametrisation indices disagree (transposed or foreign K)")


def check_cached_matrices_not_mutated(ctx: Check, tree: Tree) -> None:
    """The symbolic matrices come out of functools.cache: formulate() must substitute into
    them (xreplace builds new objects) and never write into them, otherwise the k-th call
    for the same number of channels returns something else than the first."""
    from .c06 import AliasFlow, memoised_functions, mutable_result

    sources = {f.qual: f"memoised {f.qual}" for f in memoised_functions(tree) if f.qual.startswith(MOD + "::") and mutable_result(f) and f.cls is not None and f.cls.name in ('RelativisticKMatrix', 'NonRelativisticKMatrix')}
    if len(sources) < 2:
        raise AnalysisError(f"only {len(sources)} memoised _create_matrices found for RelativisticKMatrix/NonRelativisticKMatrix")
    flow = AliasFlow(tree, sources)
    flow.fixpoint()
    bad = [(fn, node, origin) for fn, node, origin in flow.mutations() if fn.qual not in sources]
    for fn, node, origin in bad:
        ctx.violation("R-CACHE", f"{fn.qual}::{unparse(node)[:60]}::mutates-cached-matrix", tree.loc(node),
                      f"{fn.qual}: `{unparse(node)[:60]}` writes into a matrix that aliases a memoised result ({origin.split(' -> ')[0]})",
                      "the cached matrix is shared by all later calls with the same n_channels: the second formulate() starts from the already modified matrix")
    if not bad:
        ctx.ok("R-CACHE", MOD.replace(".", "/"), f"the {len(sources)} memoised matrix builders' results are only read / substituted (xreplace), never written")


# --------------------------------------------------------------------------- R-POLESIGN


def _bare_q2_at(te: TermEval, v, point_key, under_abs: bool, trail: tuple, hits: list, seen: set, depth: int = 0) -> None:
    """Occurrences of BreakupMomentumSquared(<point>, ...) that are not inside an absolute value."""
    from ..terms import ExtractionError

    if not isinstance(v, RF) or depth > 8:
        return
    for a in v.atoms():
        if not (isinstance(a, tuple) and a):
            continue
        if (a, under_abs) in seen:
            continue
        seen.add((a, under_abs))
        if a[0] == "sqrt":
            rad = D.radicands[a]
            if not under_abs and not _sign_safe(te, rad):
                hits.append((*trail, "sqrt of a radicand that is not sign-definite"))
            _bare_q2_at(te, RF(rad), point_key, under_abs, (*trail, "sqrt"), hits, seen, depth + 1)
            continue
        if a[0] != "app" or a not in te.apps:
            continue
        info = te.apps[a]
        name = info.cls.split("::")[-1]
        if name == "Abs":
            for y in info.args:
                _bare_q2_at(te, y, point_key, True, (*trail, "Abs"), hits, seen, depth + 1)
            continue
        if name == "BreakupMomentumSquared" and info.args and isinstance(info.args[0], RF) and vkey(info.args[0]) == point_key:
            if not under_abs:
                hits.append((*trail, name))
            continue
        unfolded = None
        if info.cls in te.classes and te.classes[info.cls].method("evaluate") is not None:
            try:
                unfolded = te.unfold_atom(a)
            except ExtractionError:
                unfolded = None
        if isinstance(unfolded, RF):
            _bare_q2_at(te, unfolded, point_key, under_abs, (*trail, name), hits, seen, depth + 1)
        else:
            for y in list(info.args) + list(info.kwargs.values()):
                _bare_q2_at(te, y, point_key, under_abs, (*trail, name), hits, seen, depth + 1)


def _sign_safe(te: TermEval, rad) -> bool:
    """A radicand that cannot be negative for real arguments whatever their values: one monomial with a
    positive coefficient whose factors are absolute values or even powers."""
    terms = rad.t
    if len(terms) != 1:
        return False
    ((mono, coeff),) = terms.items()
    if coeff <= 0:
        return False
    for atom, exp in mono:
        is_abs = isinstance(atom, tuple) and atom and atom[0] == "app" and atom in te.apps and te.apps[atom].cls.split("::")[-1] == "Abs"
        if not is_abs and exp % 2:
            return False
    return True


def check_pole_sign(ctx: Check, tree: Tree) -> None:
    """R-POLESIGN: the residue functions of the relativistic K-matrix are gamma * sqrt(m_R * Gamma(s)),
    with Gamma(s) = Gamma0 * (F(s)/F(m_R^2))^2 * rho(s)/rho(m_R^2).  Above all thresholds F(s) and
    rho(s) are positive; K is real for EVERY real pole mass only if the two normalisation constants at
    the pole are sign-insensitive, i.e. q^2(m_R^2) - which is negative for a pole between a channel's
    pseudo-threshold and threshold - enters them through an absolute value only."""
    dyn = "ampform.dynamics"
    edw = te_cls = None
    D.reset()
    te = TermEval(tree)
    edw = te.classes[f"{dyn}::EnergyDependentWidth"]
    s, m0, g0, ma, mb, L, d = (sym(n) for n in ("s", "m0", "gamma0", "ma", "mb", "L", "d"))
    point_key = vkey(m0**2)
    # which phase-space factor classes does the relativistic K-matrix use when the caller chooses none?
    defaults: dict[str, list[str]] = {}
    for q in (f"{MOD}::RelativisticKMatrix.formulate", f"{MOD}::RelativisticKMatrix.parametrization"):
        fn = tree.func(q)
        a = fn.node.args
        names = [x.arg for x in a.posonlyargs + a.args]
        dflt = dict(zip(names[len(names) - len(a.defaults):], a.defaults))
        dflt.update({k.arg: v for k, v in zip(a.kwonlyargs, a.kw_defaults) if v is not None})
        if "phsp_factor" not in dflt:
            raise AnalysisError(f"vanished anchor: {q} has no default phsp_factor")
        target = tree.resolve(fn.module, dflt["phsp_factor"], fn)
        if target not in tree.classes:
            raise AnalysisError(f"{q}: default phsp_factor `{unparse(dflt['phsp_factor'])}` does not resolve to a class")
        defaults.setdefault(target, []).append(q.split("::")[-1])
    where = tree.loc(edw.method("evaluate").node)
    n_norm = 0
    for cls_q, users in sorted(defaults.items()):
        v = te.unfold_atom(te.single_atom(te.construct(edw.qual, [s, m0, g0, ma, mb, L, d], {"phsp_factor": Opaque(("ref", cls_q))})))
        if not isinstance(v, RF):
            raise AnalysisError("EnergyDependentWidth.evaluate: no term")
        # the normalisation constants: applications whose first argument is the pole position m0^2
        for a in sorted(v.atoms(), key=repr):
            if not (isinstance(a, tuple) and a and a[0] == "app" and a in te.apps):
                continue
            info = te.apps[a]
            if not (info.args and isinstance(info.args[0], RF) and vkey(info.args[0]) == point_key):
                continue
            n_norm += 1
            name = info.cls.split("::")[-1]
            hits: list = []
            _bare_q2_at(te, RF.atom(a), point_key, False, (), hits, set())
            label = name if name == "FormFactor" else f"phsp_factor={name} (default of {', '.join(users)})"
            ok = not hits
            ctx.verdict(ok, "R-POLESIGN", f"{edw.qual}.evaluate::pole-normalisation::{name}", where,
                        f"EnergyDependentWidth: the normalisation {label} at s = mass0^2 is sign-insensitive (q^2 at the pole only inside an absolute value), so Gamma(s) >= 0 and the residues gamma*sqrt(m*Gamma(s)) are real for every real pole mass",
                        None if ok else {"bare q^2(mass0^2) reached through": [" > ".join(h) for h in hits[:3]],
                                         "why": "for a pole between pseudo-threshold and threshold of the channel q^2(mass0^2) < 0: rho(mass0^2) is imaginary / B_L^2 changes sign, Gamma(s) is complex or negative, the residue of that channel is imaginary and K is not real"})
    # the variant that exists to be real on the whole real axis ("Abs"): the only choice of the caller
    # for which the S-wave K-matrix is unitary for every real pole mass
    abs_q = "ampform.dynamics.phasespace::PhaseSpaceFactorAbs"
    if abs_q not in te.classes:
        raise AnalysisError("vanished anchor: PhaseSpaceFactorAbs")
    a = te.single_atom(te.construct(abs_q, [m0**2, ma, mb], {}))
    hits = []
    _bare_q2_at(te, RF.atom(a), point_key, False, (), hits, set())
    ok = not hits
    ctx.verdict(ok, "R-POLESIGN", f"{abs_q}.evaluate::sign-insensitive", tree.loc(te.classes[abs_q].method("evaluate").node),
                "PhaseSpaceFactorAbs(mass0^2, m1, m2) is real and non-negative for every real pole mass (every radicand is an absolute value or an even power)",
                None if ok else {"reached through": [" > ".join(h) for h in hits[:3]]})
    if n_norm < 2:
        raise AnalysisError(f"EnergyDependentWidth.evaluate: only {n_norm} quantities evaluated at the pole position (FormFactor and phsp_factor expected)")


def run(ctx: Check, tree: Tree) -> None:
    ctx.decided += [
        'closed forms for a concrete number of channels satisfy T(1-iK)=K entry by entry on an explicit symbol matrix (sa/dense.py)',
        'R-POLESIGN: the normalisation constants of EnergyDependentWidth at the pole are sign-insensitive; PhaseSpaceFactorAbs is real for every real s',
        "K-matrix parametrisations are symmetric under i<->j, contain no imaginary unit, and sum over the poles (R-TERM)",
        "T = K(1-iK)^-1; T^ = K(1 - i rho K)^-1 (or the push-through equivalent), T = conj(sqrt rho) T^ sqrt rho - non-commutative normal form (R-TERM-NC)",
        "rho symbols of producer and consumers agree; duplicated s/m/Gamma/gamma/m_a/m_b/R constructions agree in kind and assumptions (R-SYMPAIR)",
        "formulate substitutes K[i,j] by the own parametrization(i=i, j=j) (R-WIRING)",
        "the rho_i placeholders carry no assumptions (R-PLACEHOLDER)",
        "phsp_factor / angular_momentum / meson_radius are forwarded to every callee in ampform.dynamics (R-FORWARD): the width of the relativistic K-matrix is a ratio of ONE phase-space factor at s and at the pole, hence real",
    ]
    ctx.not_decided += ["numerical unitarity (1+2iT)^dagger(1+2iT)=1", "that the chosen phase-space factor is real above threshold (see C11)"]
    ctx.assumptions += [
        "matrix identities: K(1-iK)^-1 = (1-iK)^-1 K and K(1-i rho K)^-1 = (1-i K rho)^-1 K (push-through); S = 1+2iT",
        "sympy Matrix * and .inv() are the matrix product / inverse",
    ]
    D.reset()
    te = TermEval(tree)
    for cls_name in ("NonRelativisticKMatrix", "RelativisticKMatrix"):
        check_k_symmetric_real(ctx, tree, te, cls_name)
    ctx.section(check_t_matrix, ctx, tree, "NonRelativisticKMatrix", rel=False)
    ctx.section(check_t_matrix, ctx, tree, "RelativisticKMatrix", rel=True)
    ctx.section(check_rho_pairing, ctx, tree)
    ctx.section(check_parametrize_wiring, ctx, tree)
    ctx.section(check_cached_matrices_not_mutated, ctx, tree)
    # K real: the energy dependent width is Gamma0 * ... * rho(s)/rho(m0^2) with ONE phase-space
    # factor; a callee that silently falls back to its default phsp_factor / L / radius mixes two
    # (complex ratio below threshold) - the forwarding rule of C10 is a necessary condition here too
    from .c10 import check_forward

    ctx.section(check_forward, ctx, tree)
    ctx.section(check_pole_sign, ctx, tree)
