"""C09 - K-matrix amplitudes are unitary and symmetric for real parameters.

What unitarity and symmetry need from the code: (i) K = K^T, (ii) K real for real
parameters, (iii) T = K(1-iK)^-1 resp. T^ = K^(1-i rho K^)^-1, T = conj(sqrt rho) T^ sqrt rho,
(iv) the rho that multiplies K^ is the rho that is substituted.
"""

from __future__ import annotations

from ..loader import AnalysisError, Tree, unparse
from ..ncterms import NC, NCEval, inverted_symbols, nc_func
from ..poly import RF, D, show_poly, sym
from ..report import Check
from ..rules import symbol_sites
from ..terms import Opaque, TermEval, deep_atoms, vkey

PID = "C09"
MOD = "ampform.dynamics.kmatrix"
I = RF.atom("I")


def param_atoms(te: TermEval, fn, overrides: dict | None = None) -> list:
    """One opaque atom per parameter (name = parameter name)."""
    out = []
    for p in fn.params:
        if overrides and p in overrides:
            out.append(overrides[p])
        else:
            out.append(sym(p))
    return out


def check_k_symmetric_real(ctx: Check, tree: Tree, te: TermEval, cls_name: str) -> None:
    fn = tree.func(f"{MOD}::{cls_name}.parametrization")
    where = tree.loc(fn.node)
    key = f"{fn.qual}"
    extra = {"phsp_factor": Opaque(("ref", "PHSP"))} if "phsp_factor" in fn.params else {}
    a = te.eval_function(fn, param_atoms(te, fn, extra))
    swapped = te.eval_function(fn, param_atoms(te, fn, {**extra, "i": sym("j"), "j": sym("i")}))
    ok = vkey(a) == vkey(swapped)
    ctx.verdict(ok, "R-TERM", key + "::symmetric", where,
                f"{cls_name}.parametrization(i, j, ...) is invariant under i <-> j (K = K^T)",
                None if ok else "the term changes when the channel indices are exchanged: K is not symmetric, hence T != T^T")
    atoms = deep_atoms(te, a)
    has_i = "I" in atoms
    ctx.verdict(not has_i, "R-TERM", key + "::real", where,
                f"{cls_name}.parametrization contains no imaginary unit (K real for real parameters)",
                "imaginary unit inside the K-matrix parametrisation" if has_i else None)
    # pole structure: denominator (m_R^2 - s), summed over the poles 1..n_poles
    info = te.apps.get(te.single_atom(a)) if te.single_atom(a) in te.apps else None
    if info is None or info.cls != "Sum" or len(info.args) < 2:
        # another shape of result (a product with a Sum, an explicit sum ...): nothing is known about the limits
        raise AnalysisError(f"{fn.qual}: does not return one Sum(<summand>, (pole_id, 1, n_poles)): the limits of the pole sum cannot be read off")
    limits = info.args[1]
    ok_sum = len(info.args) == 2 and vkey(limits) == vkey(te_tuple([sym("pole_id"), RF.const(1), sym("n_poles")]))
    ctx.verdict(ok_sum, "R-TERM", key + "::pole-sum", where,
                f"{cls_name}.parametrization sums over (pole_id, 1, n_poles)", None if ok_sum else f"limits of the pole sum changed: {limits!r:.120}")


def te_tuple(items):
    from ..terms import Tup

    return Tup(list(items))


def accepted_t(rel: bool, return_hat: bool, rho_name: str = "rho") -> list[NC]:
    K, rho, one = NC.sym("K"), NC.sym(rho_name), NC.eye()
    if not rel:
        x = (one - I * K).inv()
        return [K * x, x * K]
    hat = [K * (one - I * rho * K).inv(), (one - I * K * rho).inv() * K]
    if return_hat:
        return hat
    sq = nc_func("sqrt", rho)
    return [nc_func("conj", sq) * h * sq for h in hat]


def rho_family(model) -> str:
    """The name of the diagonal placeholder family the interpreted code built (`Symbol(f"rho{i}")` -> "rho"):
    the matrix formula is judged up to that name, the pairing of the names is a rule of its own."""
    names = sorted({f[1] for f in model.diagonal if f[0] == "sym"})
    return names[0] if len(names) == 1 else "rho"


def _size_params(fn, flags) -> list[str]:
    a = fn.node.args
    names = [x.arg for x in [*a.posonlyargs, *a.args]]
    if names and names[0] in {"cls", "self"} and fn.cls is not None:
        names = names[1:]
    return [n for n in names if n not in flags]


def dense_run(tree: Tree, fn, size: int, flags: dict):
    """``fn`` interpreted on explicit matrices for ``size`` channels: (first returned matrix, model).  The first
    size parameter is the number of channels, a second one (``n_poles``) a symbol."""
    from ..dense import DenseEval, Mat
    from ..poly import RF

    names = _size_params(fn, flags)
    if not names:
        raise AnalysisError(f"{fn.qual}: no size parameter")
    de = DenseEval(tree, fn, {names[0]: size}, flags)
    if fn.name == "formulate" and len(names) > 1:
        de.kwargs[names[1]] = de.model.wrap(RF.atom(("sym", names[1], ())))
    res = de.run()
    first = res[0] if isinstance(res, tuple) else res
    if not isinstance(first, Mat):
        raise AnalysisError(f"{fn.qual}: does not return a matrix for {size} channel(s)")
    return first, de.model


def decide_matrix_formula(ctx: Check, tree: Tree, fn, flags: dict, key: str, text: str, accepted, spec) -> list:
    """Three-valued verdict on the matrix a function returns.

    * the non-commutative term for a generic number of channels is one of the accepted forms -> holds for every size;
    * otherwise the explicit matrices for one and two channels are compared, entry by entry as rational functions,
      with the defining formula: a difference is a counter-model -> violation;
    * otherwise (another way of writing a formula that agrees for one and two channels) -> cannot decide (exit 2).
    Every test `n == k` on the size that the generic evaluation met (a closed form for k channels) is decided on the
    explicit k x k matrices.  Returns the values of the generic evaluation."""
    from ..dense import first_difference

    where = tree.loc(fn.node)

    def counter_model() -> str | None:
        for n in (1, 2):
            m, model = dense_run(tree, fn, n, flags)
            diff = first_difference(m, spec(n, model, m))
            if diff:
                return f"{n} channel(s): {diff}"
        return None

    nce = NCEval(tree)
    try:
        res = nce.run(fn, dict(flags))
        if not res or not isinstance(res[0], NC):
            raise AnalysisError(f"{fn.qual}: no matrix term returned")
    except AnalysisError as exc:
        # the generic evaluation left the modelled subset (an element-wise loop, ...): a counter-model on explicit
        # matrices still is one; without it nothing is known
        try:
            refuted = counter_model()
        except AnalysisError:
            refuted = None
        if refuted is None:
            raise
        ctx.violation("R-TERM-NC", key, where, text, {"generic evaluation": f"not possible ({exc})"[:300], "counter-model": refuted})
        return []
    got = res[0]
    acc = accepted(rho_family(nce.model))
    if any(got == a for a in acc):
        ctx.ok("R-TERM-NC", where, text)
    elif {"K", "P"} & inverted_symbols(got):
        bad = sorted({"K", "P"} & inverted_symbols(got))
        ctx.violation("R-TERM-NC", key, where, text, {"got": got.show(), "accepted": [a.show() for a in acc],
                                                      "why": f"the term inverts the symbol matrix {bad} itself: the parametrised K has rank min(n_poles, n_channels), so K^-1 does not exist "
                                                             "for fewer poles than channels (the accepted forms only invert 1 - iK, which is regular for real K)"})
    else:
        refuted = counter_model()
        if refuted is None:
            raise AnalysisError(f"{fn.qual}{flags or ''}: the term {got.show()} is not one of the accepted forms {[a.show() for a in acc]} but agrees with the defining formula "
                                "for one and two channels: cannot decide whether it holds for every number of channels")
        ctx.violation("R-TERM-NC", key, where, text, {"got": got.show(), "accepted": [a.show() for a in acc], "counter-model": refuted})
    for (label, size) in sorted(nce.special):
        m, model = dense_run(tree, fn, size, flags)
        diff = first_difference(m, spec(size, model, m))
        ckey = key.rsplit("::", 1)
        ctx.verdict(diff is None, "R-TERM-NC", f"{ckey[0]}::closed-form::{label} == {size}::{ckey[1]}", where,
                    f"{text}; branch `{label} == {size}`: the closed form agrees with the defining formula entry by entry on explicit {size}x{size} symbol matrices",
                    None if diff is None else {"difference": diff})
    return res


def check_t_matrix(ctx: Check, tree: Tree, cls_name: str, rel: bool) -> None:
    from ..dense import spec_t

    formulate = tree.func(f"{MOD}::{cls_name}.formulate")
    builder = tree.funcs.get(f"{MOD}::{cls_name}._create_matrices")
    flag = "return_t_hat"
    flags_list = [{flag: False}, {flag: True}] if flag in formulate.params else [{}]
    if "parametrize" not in formulate.params:
        raise AnalysisError(f"vanished anchor: {formulate.qual} has no parameter `parametrize`")
    if rel != (len(flags_list) == 2):
        raise AnalysisError(f"{formulate.qual}: parameter `{flag}` {'missing' if rel else 'unexpected'}")
    for flags in flags_list:
        hat = flags.get(flag, False)
        what = {
            (False, False): "T = K (1 - iK)^-1",
            (True, True): "T^ = K (1 - i rho K)^-1",
            (True, False): "T = conj(sqrt rho) K (1 - i rho K)^-1 sqrt rho",
        }[(rel, hat)]
        accepted = lambda name, hat=hat: accepted_t(rel, hat, name)  # noqa: E731
        spec = lambda n, model, m, hat=hat: spec_t(rel, hat, n, model, m)  # noqa: E731
        if builder is not None and any(k not in builder.params for k in flags):
            ctx.info("R-TERM-NC", tree.loc(builder.node), f"{cls_name}._create_matrices has no parameter `{flag}`: what it returns is judged through formulate(parametrize=False)")
        elif builder is not None:
            bflags = dict(flags)
            res = decide_matrix_formula(ctx, tree, builder, bflags, f"{builder.qual}::{sorted(flags.items())}", f"{cls_name}._create_matrices{flags or ''}: {what}", accepted, spec)
            if len(res) > 1 and isinstance(res[1], NC):
                k_ok = res[1] == NC.sym("K")
                ctx.verdict(k_ok, "R-TERM-NC", f"{builder.qual}::returns-K::{sorted(flags.items())}", tree.loc(builder.node),
                            f"{cls_name}._create_matrices returns the symbol matrix K as second element (the one that is parametrised)")
        else:
            ctx.info("R-TERM-NC", tree.loc(formulate.node), f"{cls_name} has no _create_matrices: the matrix is read off formulate(parametrize=False)")
        # the public entry point hands out that matrix (whatever the private builders are called)
        decide_matrix_formula(ctx, tree, formulate, {**flags, "parametrize": False}, f"{formulate.qual}::unparametrized::{sorted(flags.items())}",
                              f"{cls_name}.formulate(parametrize=False{''.join(f', {k}={v}' for k, v in flags.items())}): {what}", accepted, spec)


class FormulateRun:
    """``<class>.formulate(n_channels=2, n_poles, parametrize=True, ...)`` interpreted on explicit matrices: which
    symbol of the matrix is replaced by what.  The callers' choices (phase-space factor, L, radius, n_poles) are
    distinguishable model values, calls of ``parametrization`` are recorded with their bound arguments."""

    N = 2

    def __init__(self, tree: Tree, cls_name: str) -> None:
        from ..dense import DenseEval, Mat
        from ..poly import RF

        self.tree, self.cls_name = tree, cls_name
        self.fn = fn = tree.func(f"{MOD}::{cls_name}.formulate")
        names = _size_params(fn, {})
        if len(names) < 2 or "parametrize" not in fn.params:
            raise AnalysisError(f"vanished anchor: {fn.qual}(n_channels, n_poles, parametrize, ...)")
        de = DenseEval(tree, fn, {names[0]: self.N}, {"parametrize": True})
        self.model = m = de.model
        self.own = {names[1]: m.wrap(RF.atom(("sym", names[1], ())))}
        for p in ("angular_momentum", "meson_radius"):
            if p in fn.params:
                self.own[p] = m.wrap(RF.atom(("sym", f"<caller's {p}>", ())))
        if "phsp_factor" in fn.params:
            self.own["phsp_factor"] = m.opaque_callable("phsp_factor")
        de.kwargs.update(self.own)
        self.value = de.run()
        if not isinstance(self.value, Mat):
            raise AnalysisError(f"{fn.qual}: does not return a matrix")
        self.value = Mat([list(r) for r in self.value.rows])  # a snapshot: the interpreted code may write into the matrix it returned
        self._de = de
        self.subs: dict = {}
        for atom, val in m.substitutions(de.raw):
            self.subs.setdefault(atom, val)  # in a chain of xreplace calls the first replacement of a symbol is the effective one

    def param_call(self, value):
        """(qualname, bound arguments) if ``value`` is exactly one recorded call of a parametrization."""
        from ..ncterms import _single_atom

        atom = _single_atom(value)
        return self.model.params.get(atom) if atom is not None else None

    def matrix_difference(self, spec) -> str | None:
        from ..dense import first_difference

        return first_difference(self.value, spec(self.N, self.model, self.value))

    def placeholders(self) -> dict:
        """channel index -> symbol atom, for the symbols the matrix depends on besides the elements of K and P."""
        import re

        from ..dense import deep_symbols

        out: dict = {}
        for atom in sorted(deep_symbols(self.value), key=repr):
            mt = re.fullmatch(r".*?(\d+)", atom[1])
            if mt is None or int(mt.group(1)) in out:
                raise AnalysisError(f"{self.fn.qual}: the matrix depends on the symbol `{atom[1]}`, which is not one placeholder per channel")
            out[int(mt.group(1))] = atom
        return out

    def rho_substitution(self, ctx: Check, ref_bound: dict | None) -> None:
        """Every placeholder rho_i the matrix depends on (name and assumptions as the producer built it) is replaced
        by phsp_factor(s, m_a[i], m_b[i]) with the s, m_a, m_b of the parametrisation."""
        from ..ncterms import _single_atom

        fn, m = self.fn, self.model
        where = self.tree.loc(fn.node)
        holders = self.placeholders()
        if sorted(holders) != list(range(self.N)):
            raise AnalysisError(f"{fn.qual}: the matrix for {self.N} channels depends on the placeholders {sorted(a[1] for a in holders.values())} (one per channel expected)")
        for i, atom in sorted(holders.items()):
            name = atom[1]
            key = f"{fn.qual}::rho[i]->phsp_factor"
            what = f"{self.cls_name}.formulate: the placeholder {name} of the matrix is replaced by the caller's phsp_factor(s, m_a[{i}], m_b[{i}])"
            if atom not in self.subs:
                ctx.violation("R-WIRING", key, where, what, f"{name} as the matrix holds it (assumptions: {dict(atom[2]) or 'none'}) is not among the substituted symbols "
                              f"{sorted(f'{k[1]} {dict(k[2]) or str()}'.strip() for k in self.subs if isinstance(k, tuple) and k[0] == 'sym')}: it stays undefined in the result")
                continue
            call = m.calls.get(_single_atom(self.subs[atom]))
            if call is None or call[0] != "phsp_factor":
                ctx.violation("R-WIRING", key, where, what, f"{name} is replaced by {self.subs[atom]!r:.120}, not by a call of the caller's phsp_factor")
                continue
            args = list(call[1])
            ok, detail = len(args) == 3 and not call[2], None
            if ok and ref_bound is not None and all(p in ref_bound for p in ("s", "m_a", "m_b")):
                want = [m.key(ref_bound["s"]), *[m.key(ref_bound[p].attrs["__getitem__"]([i], {})) for p in ("m_a", "m_b")]]
                got = [m.key(x) for x in args]
                ok = got[0] == want[0] and sorted(map(repr, got[1:])) == sorted(map(repr, want[1:]))  # the two masses of channel i, in either order
                detail = None if ok else {"arguments": [str(g)[:120] for g in got], "expected (s, m_a[i], m_b[i] of the parametrisation)": [str(w)[:120] for w in want]}
            ctx.verdict(ok, "R-WIRING", key, where, what, detail)


def formulate_run(tree: Tree, cls_name: str) -> FormulateRun:
    cache = tree.__dict__.setdefault("_formulate_runs", {})
    if cls_name not in cache:
        cache[cls_name] = FormulateRun(tree, cls_name)
    return cache[cls_name]


def check_forwarded(ctx: Check, run: FormulateRun, bound: dict, callee: str) -> None:
    """The choices of the caller of formulate() arrive at the parametrisation (model level; the keyword-level rule
    R-FORWARD does not see a value that travels through functools.partial or a **mapping)."""
    fn, m = run.fn, run.model
    for p, mine in run.own.items():
        if p not in bound:
            continue
        ok = bound[p] is mine or m.key(bound[p]) == m.key(mine)
        ctx.verdict(ok, "R-FORWARD", f"{fn.qual}::{callee} receives::{p}", run.tree.loc(fn.node),
                    f"{run.cls_name}.formulate: {callee}(...) receives the caller's `{p}`",
                    None if ok else f"it receives {m.key(bound[p])!r:.100} (its default or another value)")


def check_parametrize_wiring(ctx: Check, tree: Tree) -> None:
    """formulate(): every K[i,j] of the matrix is replaced by the class's own parametrization(i=i, j=j, ...) -
    decided on the interpreted function for two channels (sa/dense.py), not on the spelling of the substitution."""
    from ..dense import spec_t

    for cls_name, rel in (("NonRelativisticKMatrix", False), ("RelativisticKMatrix", True)):
        run = formulate_run(tree, cls_name)
        fn, n = run.fn, run.N
        where = tree.loc(fn.node)
        diff = run.matrix_difference(lambda n_, model, m_: spec_t(rel, False, n_, model, m_))
        ctx.verdict(diff is None, "R-TERM-NC", f"{fn.qual}::parametrized", where,
                    f"{cls_name}.formulate(parametrize=True), two channels: the matrix into which the parametrisation is substituted is the T-matrix of the defining formula (no further algebra)",
                    None if diff is None else {"difference": diff})
        own = f"{MOD}::{cls_name}.parametrization"
        ref = None
        for a in range(n):
            for b in range(n):
                atom = f"K{a}{b}"
                key = f"{fn.qual}::K[i,j]->parametrization"
                what = f"{cls_name}.formulate: K[{a}, {b}] -> {cls_name}.parametrization(i={a}, j={b})"
                if atom not in run.subs:
                    ctx.violation("R-WIRING", key, where, what, f"K[{a}, {b}] is not substituted: it stays a free symbol of the result")
                    continue
                call = run.param_call(run.subs[atom])
                if call is None:
                    ctx.violation("R-WIRING", key, where, what, f"K[{a}, {b}] is replaced by {run.subs[atom]!r:.160}, which is not a (bare) call of the parametrisation")
                    continue
                qual, bound = call
                ok = qual == own and bound.get("i") == a and bound.get("j") == b
                ctx.verdict(ok, "R-WIRING", key, where, what,
                            None if ok else f"replaced by {qual.split('::')[-1]}(i={bound.get('i')}, j={bound.get('j')}): matrix element and parametrisation indices disagree (transposed or foreign K)")
                if ok and ref is None:
                    ref = bound
        if ref is not None:
            check_forwarded(ctx, run, ref, "parametrization")


CLASSES = ("NonRelativisticKMatrix", "RelativisticKMatrix", "NonRelativisticPVector", "RelativisticPVector")


def _name_skeleton(name: str) -> str:
    import re

    return re.sub(r"\d+", "{}", name)


def check_rho_pairing(ctx: Check, tree: Tree) -> None:
    """R-SYMPAIR: the rho symbols and the duplicated s/m/Gamma/... constructions agree.

    Decided on the four formulate() methods as interpreted for two channels (every Symbol / IndexedBase they and
    their helpers construct, with the name and the assumptions that arrive at the constructor - however the name
    is built and wherever the construction lives); the construction sites that can be read off the source text
    are listed in addition."""
    constructed: dict[str, list[dict]] = {}
    n_seen = 0
    for cls_name in CLASSES:
        run = formulate_run(tree, cls_name)
        if len(run.model.constructed) < 4:
            # s, m, Gamma, gamma and R at least: fewer means the symbols come from somewhere the interpreter did not see
            raise AnalysisError(f"only {len(run.model.constructed)} symbol constructions while interpreting {cls_name}.formulate (s, m, Gamma, gamma, R ... confirmed)")
        for kind, name, assumptions in run.model.constructed:
            n_seen += 1
            constructed.setdefault(_name_skeleton(name), []).append({"in": f"{cls_name}.formulate", "kind": kind, "name": name, "assumptions": assumptions})
    ctx.stats["symbols_constructed_by_formulate"] = n_seen
    for skel, members in sorted(constructed.items()):
        sigs = {(m["kind"], tuple(sorted((k, repr(v)) for k, v in m["assumptions"].items()))) for m in members}
        ok = len(sigs) == 1
        ctx.verdict(ok, "R-SYMPAIR", f"{MOD}::symbol `{skel}`", MOD.replace(".", "/"),
                    f"symbol `{skel}`: the {len(members)} constructions by the formulate() methods agree in kind and assumptions",
                    None if ok else sorted({f"{m['in']}: {m['kind']}({m['name']!r}, {m['assumptions']})" for m in members}))
    # producer / consumer: every placeholder the relativistic matrices depend on is replaced by the phase-space factor
    for cls_name in ("RelativisticKMatrix", "RelativisticPVector"):
        run = formulate_run(tree, cls_name)
        ref = next((b for q, b in run.model.params.values() if q == f"{MOD}::RelativisticKMatrix.parametrization"), None)
        run.rho_substitution(ctx, ref)
        # R-PLACEHOLDER: rho_i stands for an arbitrary, in general complex, phase-space factor that is
        # substituted AFTER the matrix algebra; any assumption on the placeholder (positive, real, ...)
        # lets SymPy simplify conjugate(sqrt(rho)) / Abs / sqrt before the substitution
        fn = run.fn
        for i, atom in sorted(run.placeholders().items()):
            ok = not atom[2]
            ctx.verdict(ok, "R-PLACEHOLDER", f"{fn.qual}::rho-placeholder-assumptions::matrix", tree.loc(fn.node),
                        f"{cls_name}: the placeholder {atom[1]} inside the matrix carries no assumptions (it is replaced by a caller-supplied, possibly complex phase-space factor after the algebra)",
                        None if ok else f"assumptions {dict(atom[2])}: conjugate(sqrt(rho)) is simplified while rho is still a placeholder - the conjugate in K^ = conj(sqrt rho)^-1 K sqrt(rho)^-1 and T = conj(sqrt rho) T^ sqrt(rho) is lost for channels below threshold")
    # the construction sites as written (positive evidence only: a site whose name or assumptions cannot be read off
    # the text is covered by the interpreted constructions above)
    sites = symbol_sites(tree, [MOD])
    ctx.stats["symbol_sites_kmatrix"] = len(sites)
    unread = [s for s in sites if s["skeleton"] is None or s.get("star_kwargs")]
    for s in unread:
        ctx.info("R-SYMPAIR", tree.loc(s["node"]), "symbol construction whose name / assumptions are computed: judged on the interpreted formulate() methods")
    groups: dict[str, list[dict]] = {}
    for s in sites:
        if s not in unread:
            groups.setdefault(s["skeleton"], []).append(s)
    for skel, members in sorted(groups.items()):
        sigs = {(m["kind"], tuple(sorted(m["assumptions"].items()))) for m in members}
        where = tree.loc(members[0]["node"])
        if len(members) == 1:
            ctx.info("R-SYMPAIR", where, f"symbol `{skel}` constructed at one site")
            continue
        ok = len(sigs) == 1
        detail = None
        if not ok:
            detail = [{"fn": m["fn"], "kind": m["kind"], "assumptions": m["assumptions"], "at": tree.loc(m["node"])} for m in members]
        ctx.verdict(ok, "R-SYMPAIR", f"{MOD}::symbol `{skel}`", where,
                    f"symbol `{skel}`: {len(members)} construction sites agree in kind and assumptions", detail)
    for m in groups.get("rho{}", []):
        ok = not m["assumptions"]
        ctx.verdict(ok, "R-PLACEHOLDER", f"{m['fn']}::rho-placeholder-assumptions", tree.loc(m["node"]),
                    f"{m['fn'].split('::')[-1]}: the placeholder rho_i carries no assumptions (it is replaced by a caller-supplied, possibly complex phase-space factor after the algebra)",
                    None if ok else f"assumptions {m['assumptions']}: conjugate(sqrt(rho)) is simplified while rho is still a placeholder - the conjugate in K^ = conj(sqrt rho)^-1 K sqrt(rho)^-1 and T = conj(sqrt rho) T^ sqrt(rho) is lost for channels below threshold")


def check_cached_matrices_not_mutated(ctx: Check, tree: Tree) -> None:
    """The symbolic matrices come out of functools.cache: formulate() must substitute into
    them (xreplace builds new objects) and never write into them, otherwise the k-th call
    for the same number of channels returns something else than the first."""
    from .c06 import AliasFlow, memoised_functions, mutable_result

    sources = {f.qual: f"memoised {f.qual}" for f in memoised_functions(tree) if f.qual.startswith(MOD + "::") and mutable_result(f)
               and (f.cls is None or f.cls.name in ('RelativisticKMatrix', 'NonRelativisticKMatrix'))}
    if not sources:
        raise AnalysisError("no memoised matrix builder found for RelativisticKMatrix/NonRelativisticKMatrix (two functools.cache'd _create_matrices confirmed): how the matrices are cached cannot be read off")
    flow = AliasFlow(tree, sources)
    flow.fixpoint()
    # a memoised builder may write into the matrix it is building - not into the result of ANOTHER memoised builder
    bad = [(fn, node, origin) for fn, node, origin in flow.mutations() if fn.qual not in sources or not origin.startswith(f"memoised {fn.qual}")]
    for fn, node, origin in bad:
        ctx.violation("R-CACHE", f"{fn.qual}::{unparse(node)[:60]}::mutates-cached-matrix", tree.loc(node),
                      f"{fn.qual}: `{unparse(node)[:60]}` writes into a matrix that aliases a memoised result ({origin.split(' -> ')[0]})",
                      "the cached matrix is shared by all later calls with the same n_channels: the second formulate() starts from the already modified matrix")
    if not bad:
        ctx.ok("R-CACHE", MOD.replace(".", "/"), f"the {len(sources)} memoised matrix builders' results are only read / substituted (xreplace), never written")


# --------------------------------------------------------------------------- R-POLESIGN


# applications through which the sign of q^2 passes unchanged in the sense of this rule (a bare q^2 below them is bare)
SIGN_TRANSPARENT = {"ComplexSqrt", "sqrt", "Sum", "Mul", "Add", "Pow", "Piecewise", "conjugate", "Rational", "Integer"}


def _bare_q2_at(te: TermEval, v, point_key, under_abs: bool, trail: tuple, hits: list, seen: set, depth: int = 0) -> None:
    """Occurrences of BreakupMomentumSquared(<point>, ...) that are not inside an absolute value."""
    from ..terms import ExtractionError

    if not isinstance(v, RF) or depth > 8:
        return
    for a in v.atoms():
        if not (isinstance(a, tuple) and a):
            continue
        if (a, under_abs) in seen:
            continue
        seen.add((a, under_abs))
        if a[0] == "sqrt":
            rad = D.radicands[a]
            if not under_abs:
                sign = _radicand_sign(te, rad)
                if sign == "can-be-negative":
                    hits.append((*trail, "sqrt of a radicand that is not sign-definite"))
                elif sign == "unknown":
                    raise AnalysisError(f"R-POLESIGN: whether the radicand {show_poly(rad)[:120]} ({' > '.join(trail) or 'top level'}) can be negative is not decided "
                                        "(not a sum of absolute values / even powers, no negative sample point found)")
            _bare_q2_at(te, RF(rad), point_key, under_abs, (*trail, "sqrt"), hits, seen, depth + 1)
            continue
        if a[0] == "pow" and "BreakupMomentumSquared" in repr(a):
            raise AnalysisError(f"R-POLESIGN: a power with a symbolic exponent over q^2 ({' > '.join(trail) or 'top level'}): its sign behaviour is not modelled")
        if a[0] != "app" or a not in te.apps:
            continue
        info = te.apps[a]
        name = info.cls.split("::")[-1]
        if info.cls.startswith("call:") or (info.cls not in te.classes and name not in SIGN_TRANSPARENT and name != "Abs" and name != "BreakupMomentumSquared"):
            if "BreakupMomentumSquared" in repr(a):
                # f(q^2) for a function this rule has no sign model of (a callable value that was not followed, an
                # unknown SymPy function): neither "bare" nor "protected" can be claimed
                raise AnalysisError(f"R-POLESIGN: q^2 is an argument of `{name[:60]}` ({' > '.join(trail) or 'top level'}), whose sign behaviour is not modelled")
            continue
        if name == "Abs":
            for y in info.args:
                _bare_q2_at(te, y, point_key, True, (*trail, "Abs"), hits, seen, depth + 1)
            continue
        if name == "BreakupMomentumSquared" and info.args and isinstance(info.args[0], RF) and vkey(info.args[0]) == point_key:
            if not under_abs:
                hits.append((*trail, name))
            continue
        unfolded = None
        if info.cls in te.classes and te.classes[info.cls].method("evaluate") is not None:
            try:
                unfolded = te.unfold_atom(a)
            except ExtractionError:
                unfolded = None
        if isinstance(unfolded, RF):
            _bare_q2_at(te, unfolded, point_key, under_abs, (*trail, name), hits, seen, depth + 1)
        else:
            for y in list(info.args) + list(info.kwargs.values()):
                _bare_q2_at(te, y, point_key, under_abs, (*trail, name), hits, seen, depth + 1)


def _radicand_sign(te: TermEval, rad) -> str:
    """Three-valued: "nonneg" - a sum of monomials with positive coefficients whose factors are absolute values, roots
    or even powers (cannot be negative whatever the values); "can-be-negative" - a counter-model: the polynomial is
    negative at a sample point (plain symbols - masses, s - positive, absolute values and roots non-negative, every
    other application any real number); "unknown" otherwise."""
    import itertools
    from fractions import Fraction

    def nonneg_atom(atom) -> bool:
        if isinstance(atom, tuple) and atom and atom[0] == "sqrt":
            return True
        return isinstance(atom, tuple) and bool(atom) and atom[0] == "app" and atom in te.apps and te.apps[atom].cls.split("::")[-1] == "Abs"

    terms = rad.t
    if all(c > 0 and all(nonneg_atom(a) or e % 2 == 0 for a, e in mono) for mono, c in terms.items()):
        return "nonneg"
    atoms = sorted({a for mono in terms for a, _ in mono}, key=repr)
    if len(atoms) > 5:
        return "unknown"
    grids = []
    for a in atoms:
        if nonneg_atom(a):
            grids.append([Fraction(0), Fraction(1, 3), Fraction(2)])
        elif isinstance(a, tuple):
            grids.append([Fraction(-2), Fraction(-1, 3), Fraction(1, 3), Fraction(2)])  # an application: any real value
        else:
            grids.append([Fraction(1, 5), Fraction(1), Fraction(3), Fraction(11)])  # a mass / an invariant mass squared: positive
    for point in itertools.product(*grids):
        val = dict(zip(atoms, point))
        total = Fraction(0)
        for mono, c in terms.items():
            t = Fraction(c)
            for a, e in mono:
                t *= val[a] ** e
            total += t
        if total < 0:
            return "can-be-negative"
    return "unknown"


def check_pole_sign(ctx: Check, tree: Tree) -> None:
    """R-POLESIGN: the residue functions of the relativistic K-matrix are gamma * sqrt(m_R * Gamma(s)),
    with Gamma(s) = Gamma0 * (F(s)/F(m_R^2))^2 * rho(s)/rho(m_R^2).  Above all thresholds F(s) and
    rho(s) are positive; K is real for EVERY real pole mass only if the two normalisation constants at
    the pole are sign-insensitive, i.e. q^2(m_R^2) - which is negative for a pole between a channel's
    pseudo-threshold and threshold - enters them through an absolute value only."""
    dyn = "ampform.dynamics"
    edw = te_cls = None
    D.reset()
    te = TermEval(tree)
    edw = te.classes[f"{dyn}::EnergyDependentWidth"]
    s, m0, g0, ma, mb, L, d = (sym(n) for n in ("s", "m0", "gamma0", "ma", "mb", "L", "d"))
    point_key = vkey(m0**2)
    # which phase-space factor classes does the relativistic K-matrix use when the caller chooses none?
    defaults: dict[str, list[str]] = {}
    for q in (f"{MOD}::RelativisticKMatrix.formulate", f"{MOD}::RelativisticKMatrix.parametrization"):
        fn = tree.func(q)
        a = fn.node.args
        names = [x.arg for x in a.posonlyargs + a.args]
        dflt = dict(zip(names[len(names) - len(a.defaults):], a.defaults))
        dflt.update({k.arg: v for k, v in zip(a.kwonlyargs, a.kw_defaults) if v is not None})
        if "phsp_factor" not in dflt:
            raise AnalysisError(f"vanished anchor: {q} has no default phsp_factor")
        target = tree.resolve(fn.module, dflt["phsp_factor"], fn)
        if target not in tree.classes:
            raise AnalysisError(f"{q}: default phsp_factor `{unparse(dflt['phsp_factor'])}` does not resolve to a class")
        defaults.setdefault(target, []).append(q.split("::")[-1])
    where = tree.loc(edw.method("evaluate").node)
    n_norm = 0
    for cls_q, users in sorted(defaults.items()):
        v = te.unfold_atom(te.single_atom(te.construct(edw.qual, [s, m0, g0, ma, mb, L, d], {"phsp_factor": Opaque(("ref", cls_q))})))
        if not isinstance(v, RF):
            raise AnalysisError("EnergyDependentWidth.evaluate: no term")
        # the normalisation constants: applications whose first argument is the pole position m0^2
        for a in sorted(v.atoms(), key=repr):
            if not (isinstance(a, tuple) and a and a[0] == "app" and a in te.apps):
                continue
            info = te.apps[a]
            if not (info.args and isinstance(info.args[0], RF) and vkey(info.args[0]) == point_key):
                continue
            n_norm += 1
            name = info.cls.split("::")[-1]
            hits: list = []
            _bare_q2_at(te, RF.atom(a), point_key, False, (), hits, set())
            label = name if name == "FormFactor" else f"phsp_factor={name} (default of {', '.join(users)})"
            ok = not hits
            ctx.verdict(ok, "R-POLESIGN", f"{edw.qual}.evaluate::pole-normalisation::{name}", where,
                        f"EnergyDependentWidth: the normalisation {label} at s = mass0^2 is sign-insensitive (q^2 at the pole only inside an absolute value), so Gamma(s) >= 0 and the residues gamma*sqrt(m*Gamma(s)) are real for every real pole mass",
                        None if ok else {"bare q^2(mass0^2) reached through": [" > ".join(h) for h in hits[:3]],
                                         "why": "for a pole between pseudo-threshold and threshold of the channel q^2(mass0^2) < 0: rho(mass0^2) is imaginary / B_L^2 changes sign, Gamma(s) is complex or negative, the residue of that channel is imaginary and K is not real"})
    # the variant that exists to be real on the whole real axis ("Abs"): the only choice of the caller
    # for which the S-wave K-matrix is unitary for every real pole mass
    abs_q = "ampform.dynamics.phasespace::PhaseSpaceFactorAbs"
    if abs_q not in te.classes:
        raise AnalysisError("vanished anchor: PhaseSpaceFactorAbs")
    a = te.single_atom(te.construct(abs_q, [m0**2, ma, mb], {}))
    hits = []
    _bare_q2_at(te, RF.atom(a), point_key, False, (), hits, set())
    ok = not hits
    ctx.verdict(ok, "R-POLESIGN", f"{abs_q}.evaluate::sign-insensitive", tree.loc(te.classes[abs_q].method("evaluate").node),
                "PhaseSpaceFactorAbs(mass0^2, m1, m2) is real and non-negative for every real pole mass (every radicand is an absolute value or an even power)",
                None if ok else {"reached through": [" > ".join(h) for h in hits[:3]]})
    if n_norm < 2:
        raise AnalysisError(f"EnergyDependentWidth.evaluate: only {n_norm} quantities evaluated at the pole position (FormFactor and phsp_factor expected)")


def run(ctx: Check, tree: Tree) -> None:
    ctx.decided += [
        "the matrix builders and formulate() are INTERPRETED on model matrices (sa/ncterms.py MatrixModel on the model executor): helper functions, closures, loops, functools.partial / reduce, named tuples ... are followed like any other spelling",
        "T = K(1-iK)^-1; T^ = K(1 - i rho K)^-1 (or the push-through equivalent), T = conj(sqrt rho) T^ sqrt rho - non-commutative normal form for a generic number of channels, for _create_matrices and for the public formulate(parametrize=False) (R-TERM-NC); a term outside the accepted forms is a violation only with a counter-model (explicit matrices for one and two channels differ from the defining formula, or the term inverts K itself), otherwise undecided",
        'closed forms for a concrete number of channels (a test `n == k` met by the generic evaluation) agree with the defining formula entry by entry on explicit symbol matrices (sa/dense.py)',
        "formulate(parametrize=True), interpreted for two channels: the matrix is the T-matrix of the defining formula, every K[i,j] is replaced by the class's own parametrization(i=i, j=j), every placeholder rho_i of the matrix by the caller's phsp_factor(s, m_a[i], m_b[i]) with the s, m_a, m_b of the parametrisation, and the parametrisation receives the caller's n_poles / L / radius / phsp_factor (R-WIRING, R-FORWARD)",
        "every Symbol / IndexedBase the four formulate() methods construct (names and assumptions as they arrive at the constructor) agrees with its namesakes; the rho_i placeholders carry no assumptions (R-SYMPAIR, R-PLACEHOLDER)",
        "a second formulate() call returns the same matrix as the first (memoised builders hand out the same object: nothing is written into it) (R-CACHE)",
        'R-POLESIGN: the normalisation constants of EnergyDependentWidth at the pole are sign-insensitive; PhaseSpaceFactorAbs is real for every real s (a radicand counts as possibly negative only with a sample point where it is)',
        "K-matrix parametrisations are symmetric under i<->j, contain no imaginary unit, and sum over the poles (R-TERM)",
        "phsp_factor / angular_momentum / meson_radius are forwarded to every callee in ampform.dynamics (R-FORWARD): the width of the relativistic K-matrix is a ratio of ONE phase-space factor at s and at the pole, hence real",
    ]
    ctx.not_decided += ["numerical unitarity (1+2iT)^dagger(1+2iT)=1", "that the chosen phase-space factor is real above threshold (see C11)",
                        "formulate(parametrize=True) for more than two channels (the substitution is judged on the two-channel evaluation; the matrix algebra for every size)"]
    ctx.assumptions += [
        "matrix identities: K(1-iK)^-1 = (1-iK)^-1 K and K(1-i rho K)^-1 = (1-i K rho)^-1 K (push-through); S = 1+2iT",
        "sympy Matrix * and .inv() are the matrix product / inverse; sp.sqrt / sp.conjugate of a diagonal matrix act on the diagonal; xreplace substitutes without further algebra",
        "create_symbol_matrix(name, m, n) is an m x n matrix of distinct symbols (ampform.sympy; not entered)",
    ]
    D.reset()
    te = TermEval(tree)
    for cls_name in ("NonRelativisticKMatrix", "RelativisticKMatrix"):
        ctx.section(check_k_symmetric_real, ctx, tree, te, cls_name)
    ctx.section(check_t_matrix, ctx, tree, "NonRelativisticKMatrix", rel=False)
    ctx.section(check_t_matrix, ctx, tree, "RelativisticKMatrix", rel=True)
    ctx.section(check_rho_pairing, ctx, tree)
    ctx.section(check_parametrize_wiring, ctx, tree)
    ctx.section(check_cached_matrices_not_mutated, ctx, tree)
    # K real: the energy dependent width is Gamma0 * ... * rho(s)/rho(m0^2) with ONE phase-space
    # factor; a callee that silently falls back to its default phsp_factor / L / radius mixes two
    # (complex ratio below threshold) - the forwarding rule of C10 is a necessary condition here too
    from .c10 import check_forward

    ctx.section(check_forward, ctx, tree)
    ctx.section(check_pole_sign, ctx, tree)
